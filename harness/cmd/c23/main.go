// c23: implementation side of the C23 correspondence (concurrent reads on
// shared storage).  A case is a scenario: an initial repository, a set of
// goroutines on ONE storage instance A (lookups, Reindex, a PackfileWriter whose
// Close publishes through Notify) and on a second instance B of the same
// repository (packs / loose objects added from outside), plus background
// readers that keep reading every initial object, the references and the index
// file.  Every lookup answers found / notfound, projected to `any` when the
// object is neither in the initial repository nor absent from the final one.
package main

import (
	"bytes"
	"errors"
	"fmt"
	"io"
	"math/rand"
	"os"
	"os/exec"
	"runtime"
	"sync"
	"time"

	"github.com/go-git/go-billy/v6/osfs"

	"github.com/go-git/go-git/v6/plumbing"
	"github.com/go-git/go-git/v6/plumbing/cache"
	formatcfg "github.com/go-git/go-git/v6/plumbing/format/config"
	"github.com/go-git/go-git/v6/plumbing/format/index"
	"github.com/go-git/go-git/v6/plumbing/format/packfile"
	"github.com/go-git/go-git/v6/storage/filesystem"
	"github.com/go-git/go-git/v6/storage/memory"
	"github.com/go-git/go-git/v6/x/fdpool"

	"verif/harness/lib"
)

const nObjects = 24

type obj struct {
	data []byte
	h    plumbing.Hash
}

var universe []obj

// The universe: 24 blobs whose ids fall into four fan-out buckets (six per
// bucket), so that a pack usually holds several ids sharing the first byte —
// the situation in which a multi-byte prefix search stops at a larger,
// non-matching hash.  props/C23.py computes the same list.
var buckets = []byte{0x3a, 0x3b, 0x7c, 0xe1}

func init() {
	oh := plumbing.FromObjectFormat(formatcfg.SHA1)
	count := map[byte]int{}
	for i := 0; len(universe) < nObjects; i++ {
		var o obj
		o.data = bytes.Repeat([]byte(fmt.Sprintf("object-%d\n", i)), 1+i%5)
		o.h, _ = oh.Compute(plumbing.BlobObject, o.data)
		b := o.h.Bytes()[0]
		if bytes.IndexByte(buckets, b) < 0 || count[b] >= nObjects/len(buckets) {
			continue
		}
		count[b]++
		universe = append(universe, o)
	}
}

func unmask(m uint64) []int {
	var r []int
	for k := 0; k < nObjects; k++ {
		if m&(1<<k) != 0 {
			r = append(r, k)
		}
	}
	return r
}

func memObj(k int) plumbing.EncodedObject {
	o := &plumbing.MemoryObject{}
	o.SetType(plumbing.BlobObject)
	o.SetSize(int64(len(universe[k].data)))
	w, _ := o.Writer()
	w.Write(universe[k].data)
	w.Close()
	return o
}

func buildPack(ks []int) ([]byte, plumbing.Hash) {
	ms := memory.NewStorage()
	var hs []plumbing.Hash
	for _, k := range ks {
		h, err := ms.SetEncodedObject(memObj(k))
		if err != nil {
			panic(err)
		}
		hs = append(hs, h)
	}
	var buf bytes.Buffer
	ph, err := packfile.NewEncoder(&buf, ms, false).Encode(hs, 0)
	if err != nil {
		panic(err)
	}
	return buf.Bytes(), ph
}

func writePack(s *filesystem.ObjectStorage, m uint64) error {
	w, err := s.PackfileWriter()
	if err != nil {
		return err
	}
	data, _ := buildPack(unmask(m))
	if _, err := io.Copy(w, bytes.NewReader(data)); err != nil {
		w.Close()
		return err
	}
	return w.Close()
}

type errs struct {
	mu sync.Mutex
	l  []string
}

func (e *errs) add(format string, a ...any) {
	e.mu.Lock()
	if len(e.l) < 20 {
		e.l = append(e.l, fmt.Sprintf(format, a...))
	}
	e.mu.Unlock()
}

// read performs one lookup of object k; found / not found / error
func read(s *filesystem.ObjectStorage, op string, k int) (bool, error) {
	h := universe[k].h
	switch op {
	case "has":
		err := s.HasEncodedObject(h)
		if err == nil {
			return true, nil
		}
		if errors.Is(err, plumbing.ErrObjectNotFound) {
			return false, nil
		}
		return false, err
	case "size":
		n, err := s.EncodedObjectSize(h)
		if err == nil {
			if n != int64(len(universe[k].data)) {
				return true, fmt.Errorf("size %d of object %d", n, k)
			}
			return true, nil
		}
		if errors.Is(err, plumbing.ErrObjectNotFound) {
			return false, nil
		}
		return false, err
	default:
		o, err := s.EncodedObject(plumbing.AnyObject, h)
		if err != nil {
			if errors.Is(err, plumbing.ErrObjectNotFound) {
				return false, nil
			}
			return false, err
		}
		rd, err := o.Reader()
		if err != nil {
			return true, err
		}
		b, err := io.ReadAll(rd)
		rd.Close()
		if err != nil {
			return true, err
		}
		if !bytes.Equal(b, universe[k].data) || o.Type() != plumbing.BlobObject {
			return true, fmt.Errorf("content of object %d differs", k)
		}
		return true, nil
	}
}

// prefixOf: the first n bytes of object k's id; miss = last byte decremented (python makes sure no object of
// the universe carries that prefix)
func prefixOf(k, n int, miss bool) []byte {
	p := append([]byte(nil), universe[k].h.Bytes()[:n]...)
	if miss {
		p[n-1]--
	}
	return p
}

// missOK: no id of the universe carries the near-miss prefix of (k, n)
func missOK(k, n int) bool {
	p := prefixOf(k, n, true)
	for _, o := range universe {
		if bytes.HasPrefix(o.h.Bytes(), p) {
			return false
		}
	}
	return true
}

// prefixSearch: HashesWithPrefix must return ids carrying the prefix, each once; reports whether k's id is among them
func prefixSearch(s *filesystem.ObjectStorage, k, n int, miss bool) (bool, error) {
	p := prefixOf(k, n, miss)
	hs, err := s.HashesWithPrefix(p)
	if err != nil {
		return false, err
	}
	seen := map[plumbing.Hash]bool{}
	found := false
	for _, h := range hs {
		if !bytes.HasPrefix(h.Bytes(), p) {
			return false, fmt.Errorf("HashesWithPrefix(%x) returned %s", p, h)
		}
		if seen[h] {
			return false, fmt.Errorf("HashesWithPrefix(%x) returned %s twice", p, h)
		}
		seen[h] = true
		if h == universe[k].h {
			found = true
		}
	}
	if miss && len(hs) > 0 {
		return false, fmt.Errorf("HashesWithPrefix(%x) returned %d ids for a prefix nothing carries", p, len(hs))
	}
	return found, nil
}

// refsProbe: deterministic reference accounting on the published LazyIndexes.  At quiescence no reference may be
// left; then, with one harness pin per .idx, every prefix search must leave exactly the pin behind (a release too
// many anywhere takes the pin).
func refsProbe(a *filesystem.ObjectStorage, es *errs, all uint64, extra [][]byte) {
	lis, err := a.VerifLazyIndexes()
	if err != nil {
		es.add("refs accounting: cannot list indexes: %v", err)
		return
	}
	for h, li := range lis {
		if n := li.VerifIdxRefs(); n != 0 {
			es.add("refs accounting: .idx of pack %s holds %d references at quiescence, want 0", h, n)
		}
		if n := li.VerifRevRefs(); n != 0 {
			es.add("refs accounting: .rev of pack %s holds %d references at quiescence, want 0", h, n)
		}
	}
	for _, li := range lis {
		if err := li.VerifPinIdx(); err != nil {
			es.add("refs accounting: cannot pin: %v", err)
			return
		}
	}
	defer func() {
		for _, li := range lis {
			li.VerifUnpinIdx()
		}
	}()
	var prefixes [][]byte
	prefixes = append(prefixes, extra...)
	for _, k := range unmask(all) {
		for n := 2; n <= 3; n++ {
			prefixes = append(prefixes, prefixOf(k, n, false))
			if missOK(k, n) {
				prefixes = append(prefixes, prefixOf(k, n, true))
			}
		}
	}
	for _, p := range prefixes {
		if _, err := a.HashesWithPrefix(p); err != nil {
			es.add("refs accounting: HashesWithPrefix(%x): %v", p, err)
			return
		}
		for h, li := range lis {
			if n := li.VerifIdxRefs(); n != 1 {
				es.add("refs accounting: after HashesWithPrefix(%x) the .idx of pack %s holds %d references, want 1 (the harness pin): a reference was released twice or leaked", p, h, n)
				return
			}
		}
	}
}

// iterMode: ONE goroutine drives LazyIndex.EntriesWithPrefix on one pack step by step; after every step the
// answer and the reference count of the .idx
func iterMode(c lib.Case) (lib.Out, any) {
	dir, err := os.MkdirTemp("", "verif-c23i-")
	if err != nil {
		panic(err)
	}
	defer os.RemoveAll(dir)
	st0 := filesystem.NewStorageWithOptions(osfs.New(dir), cache.NewObjectLRUDefault(), filesystem.Options{})
	if err := st0.Init(); err != nil {
		panic(err)
	}
	var want plumbing.Hash
	for i, p := range c.L("packs") {
		m := lib.Case{"p": p}.U("p")
		if err := writePack(st0.ObjectStorage, m); err != nil {
			panic(err)
		}
		if i == int(c.I("pi")) {
			_, want = buildPack(unmask(m))
		}
	}
	st0.Close()
	opts := filesystem.Options{}
	if p := c.I("pool"); p >= 0 {
		opts.Pool = fdpool.New(int(p))
	}
	a := filesystem.NewStorageWithOptions(osfs.New(dir), nil, opts)
	defer a.Close()
	lis, err := a.ObjectStorage.VerifLazyIndexes()
	if err != nil {
		return lib.Err("other"), err.Error()
	}
	li := lis[want]
	if li == nil {
		return lib.Err("other"), "pack not found among the lazy indexes"
	}
	pins := int(c.I("pins"))
	for i := 0; i < pins; i++ {
		if err := li.VerifPinIdx(); err != nil {
			return lib.Err("other"), err.Error()
		}
	}
	defer func() {
		for i := 0; i < pins; i++ {
			li.VerifUnpinIdx()
		}
	}()
	it, err := li.EntriesWithPrefix(c.B("prefix"))
	if err != nil {
		return lib.Err("other"), err.Error()
	}
	outs := []lib.Out{lib.List(lib.Sym("made"), lib.Int(int64(li.VerifIdxRefs())))}
	for _, o := range c.SL("ops") {
		var ans string
		if o == "next" {
			e, err := it.Next()
			switch {
			case err == nil && bytes.HasPrefix(e.Hash.Bytes(), c.B("prefix")):
				ans = "entry"
			case err == io.EOF:
				ans = "eof"
			default:
				ans = "bad"
			}
		} else {
			if err := it.Close(); err != nil {
				ans = "bad"
			} else {
				ans = "closed"
			}
		}
		outs = append(outs, lib.List(lib.Sym(ans), lib.Int(int64(li.VerifIdxRefs()))))
	}
	return lib.List(outs...), nil
}

func main() {
	lib.Main(func(c lib.Case) (lib.Out, any) {
		if c.S("mode") == "iter" {
			return iterMode(c)
		}
		dir, err := os.MkdirTemp("", "verif-c23-")
		if err != nil {
			panic(err)
		}
		defer os.RemoveAll(dir)
		o := c.M("opts")
		rng := rand.New(rand.NewSource(c.I("jitter")))
		var jmu sync.Mutex
		jitter := func() {
			jmu.Lock()
			r := rng.Intn(100)
			jmu.Unlock()
			switch {
			case r < 40:
			case r < 80:
				runtime.Gosched()
			default:
				time.Sleep(time.Duration(r-79) * 20 * time.Microsecond)
			}
		}
		// initial repository through a separate instance
		{
			st0 := filesystem.NewStorageWithOptions(osfs.New(dir), cache.NewObjectLRUDefault(), filesystem.Options{})
			if err := st0.Init(); err != nil {
				panic(err)
			}
			for _, k := range unmask(c.U("loose")) {
				if _, err := st0.SetEncodedObject(memObj(k)); err != nil {
					panic(err)
				}
			}
			for _, p := range c.L("packs") {
				if err := writePack(st0.ObjectStorage, lib.Case{"p": p}.U("p")); err != nil {
					panic(err)
				}
			}
			all0 := c.U("loose")
			for _, p := range c.L("packs") {
				all0 |= lib.Case{"p": p}.U("p")
			}
			for _, k := range unmask(all0) {
				ref := plumbing.NewHashReference(plumbing.ReferenceName(fmt.Sprintf("refs/heads/b%d", k)), universe[k].h)
				if err := st0.SetReference(ref); err != nil {
					panic(err)
				}
			}
			if err := st0.SetIndex(&index.Index{Version: 2}); err != nil {
				panic(err)
			}
			if err := st0.SetReference(plumbing.NewSymbolicReference(plumbing.HEAD, "refs/heads/main")); err != nil {
				panic(err)
			}
			st0.Close()
		}
		opts := filesystem.Options{UseInMemoryIdx: o.Bool("memidx"), LargeObjectThreshold: o.I("lot")}
		if p := o.I("pool"); p >= 0 {
			opts.Pool = fdpool.New(int(p))
		}
		var oc cache.Object
		if o.S("cache") == "tiny" {
			oc = cache.NewObjectLRU(cache.FileSize(64))
		}
		a := filesystem.NewStorageWithOptions(osfs.New(dir), oc, opts)
		b := filesystem.NewStorageWithOptions(osfs.New(dir), nil, filesystem.Options{})
		defer a.Close()
		defer b.Close()

		init := c.U("loose")
		for _, p := range c.L("packs") {
			init |= lib.Case{"p": p}.U("p")
		}
		final := init
		threads := c.L("threads")
		for _, t := range threads {
			tc := lib.AsCase(t)
			switch tc.S("kind") {
			case "notify", "extpack":
				final |= tc.U("p")
			case "extloose":
				final |= 1 << uint(tc.I("k"))
			}
		}
		var es errs
		var muA, muB sync.Mutex // one writer at a time per instance: the property is about concurrent READS
		results := make([]lib.Out, len(threads))
		var wg sync.WaitGroup
		start := make(chan struct{})
		stop := make(chan struct{})
		for i, t := range threads {
			tc := lib.AsCase(t)
			wg.Add(1)
			go func() {
				defer wg.Done()
				defer func() {
					if e := recover(); e != nil {
						es.add("thread %d panicked: %v", i, e)
					}
				}()
				<-start
				jitter()
				switch tc.S("kind") {
				case "lookup":
					k := int(tc.I("k"))
					found, err := read(a.ObjectStorage, tc.S("op"), k)
					if err != nil {
						es.add("lookup %s(%d): %v", tc.S("op"), k, err)
						results[i] = lib.Err("other")
						return
					}
					if init&(1<<k) != 0 || final&(1<<k) == 0 {
						results[i] = lib.Bool(found)
					} else {
						results[i] = lib.Sym("any")
					}
				case "prefix":
					k := int(tc.I("k"))
					found, err := prefixSearch(a.ObjectStorage, k, int(tc.I("n")), tc.Bool("miss"))
					if err != nil {
						es.add("prefix search %x: %v", prefixOf(k, int(tc.I("n")), tc.Bool("miss")), err)
						results[i] = lib.Err("other")
						return
					}
					if tc.Bool("miss") || init&(1<<k) != 0 || final&(1<<k) == 0 {
						results[i] = lib.Bool(found)
					} else {
						results[i] = lib.Sym("any")
					}
				case "reindex":
					if err := a.Reindex(); err != nil {
						es.add("reindex: %v", err)
					}
				case "notify":
					muA.Lock()
					err := writePack(a.ObjectStorage, tc.U("p"))
					muA.Unlock()
					if err != nil {
						es.add("pack writer on A: %v", err)
					}
				case "extpack":
					muB.Lock()
					err := writePack(b.ObjectStorage, tc.U("p"))
					muB.Unlock()
					if err != nil {
						es.add("pack writer on B: %v", err)
					}
				case "extloose":
					muB.Lock()
					_, err := b.SetEncodedObject(memObj(int(tc.I("k"))))
					muB.Unlock()
					if err != nil {
						es.add("loose writer on B: %v", err)
					}
				case "extrepack":
					// another process repacks: everything into one new pack, the old packs are deleted
					// (-k keeps unreachable objects: nothing stored disappears)
					muB.Lock()
					cmd := exec.Command("/usr/bin/git", "--git-dir", dir, "-c", "gc.auto=0", "-c", "pack.threads=1", "repack", "-a", "-d", "-k", "-q")
					cmd.Env = append(os.Environ(), "GIT_CONFIG_NOSYSTEM=1", "HOME=/nonexistent", "GIT_CONFIG_GLOBAL=/dev/null")
					out, err := cmd.CombinedOutput()
					muB.Unlock()
					if err != nil {
						es.add("harness: git repack failed: %v %s", err, out)
					}
				}
			}()
		}
		// background readers: every initial object, the references, the index file
		var bg sync.WaitGroup
		for r := 0; r < int(c.I("bg")); r++ {
			bg.Add(1)
			go func() {
				defer bg.Done()
				defer func() {
					if e := recover(); e != nil {
						es.add("background reader %d panicked: %v", r, e)
					}
				}()
				<-start
				ops := []string{"get", "has", "size"}
				for n := 0; ; n++ {
					select {
					case <-stop:
						return
					default:
					}
					for _, k := range unmask(init) {
						found, err := read(a.ObjectStorage, ops[(n+k+r)%3], k)
						if err != nil {
							es.add("background %s(%d): %v", ops[(n+k+r)%3], k, err)
						} else if !found {
							es.add("background %s(%d): stored object not found", ops[(n+k+r)%3], k)
						}
					}
					for _, k := range unmask(init) {
						nb := 2 + (n+k+r)%3
						found, err := prefixSearch(a.ObjectStorage, k, nb, false)
						if err != nil {
							es.add("background prefix search(%d, %d bytes): %v", k, nb, err)
						} else if !found {
							es.add("background prefix search(%d, %d bytes): stored object not listed", k, nb)
						}
						if (n+k)%4 == 0 && missOK(k, nb) {
							if _, err := prefixSearch(a.ObjectStorage, k, nb, true); err != nil {
								es.add("background near-miss prefix search(%d, %d bytes): %v", k, nb, err)
							}
						}
					}
					for _, k := range unmask(init) {
						ref, err := a.Reference(plumbing.ReferenceName(fmt.Sprintf("refs/heads/b%d", k)))
						if err != nil || ref.Hash() != universe[k].h {
							es.add("background reference read b%d: %v", k, err)
						}
						break
					}
					if _, err := a.Index(); err != nil {
						es.add("background index read: %v", err)
					}
					jitter()
				}
			}()
		}
		close(start)
		wg.Wait()
		close(stop)
		bg.Wait()
		// afterwards, sequentially: exact reference accounting of the published lazy indexes
		if !o.Bool("memidx") && !c.Bool("norefs") {
			var extra [][]byte
			for _, t := range threads {
				if tc := lib.AsCase(t); tc.S("kind") == "prefix" {
					extra = append(extra, prefixOf(int(tc.I("k")), int(tc.I("n")), tc.Bool("miss")))
				}
			}
			refsProbe(a.ObjectStorage, &es, init, extra)
		}
		outs := []lib.Out{lib.Bool(false)}
		for i, t := range threads {
			if kd := lib.AsCase(t).S("kind"); kd == "lookup" || kd == "prefix" {
				if results[i] == nil {
					results[i] = lib.Sym("unfinished")
				}
				outs = append(outs, results[i])
			}
		}
		return lib.List(outs...), map[string]any{"errs": es.l}
	})
}
