#!/bin/sh
# MANIFEST.setup_cmd: build everything from files on disk, offline.
set -e
cd "$(dirname "$0")"
export GOFLAGS=-mod=mod GOPROXY=off
unset GOTOOLCHAIN GOSUMDB || true
mkdir -p .cache harness/bin evidence replay coq/cases
cp /repo/go.sum harness/go.sum
# translator first: it regenerates coq/theories/Gen from /repo
if [ -d harness/cmd/gotrans ]; then
  (cd harness && go build -o bin/gotrans ./cmd/gotrans) && harness/bin/gotrans -repo /repo -out coq/theories/Gen -cache .cache/gotrans >/dev/null || echo "setup: gotrans failed (checks will report it)"
fi
(cd coq && ./mkproject.sh && timeout 7200 make -j16 -k) || echo "setup: coq build incomplete (checks will report it)"
for d in harness/cmd/*/; do
  c=$(basename "$d")
  [ "$c" = gotrans ] && continue
  (cd harness && go build -tags verif -o bin/$c ./cmd/$c) || echo "setup: go build $c failed (checks will report it)"
done
echo setup done
