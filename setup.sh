#!/bin/sh
# MANIFEST.setup_cmd: build everything from files on disk, offline.
cd "$(dirname "$0")"
export GOFLAGS=-mod=mod GOPROXY=off
unset GOTOOLCHAIN GOSUMDB || true
mkdir -p .cache harness/bin evidence replay coq/cases
python3 - <<'PY'
import os, sys
sys.path.insert(0, "lib")
from vf import core
ok, out, info = core.gotrans()
print("gotrans:", "ok" if ok else "FAILED (checks will report it)\n" + out[-2000:])
ok, out = core.coq_make([])
print("coq build:", "ok" if ok else "INCOMPLETE (checks will report it)\n" + "\n".join(l for l in out.splitlines() if not l.startswith("COQ"))[-3000:])
for c in sorted(os.listdir("harness/cmd")):
    if c == "gotrans":
        continue
    rc, out = core.go_build(c)
    print("go build", c + ":", "ok" if rc == 0 else "FAILED (checks will report it)\n" + out[-1500:])
PY
echo setup done
