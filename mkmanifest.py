#!/usr/bin/env python3
"""regenerate MANIFEST.json from props/*.py (claimed) and properties.jsonl (the rest -> not_applicable)"""
import importlib, json, os, sys
ROOT = os.path.dirname(os.path.abspath(__file__))
sys.path.insert(0, os.path.join(ROOT, "lib")); sys.path.insert(0, ROOT)
ids = [json.loads(l)["id"] for l in open(os.path.join(ROOT, "properties.jsonl"))]
NA = json.load(open(os.path.join(ROOT, "not_applicable.json"))) if os.path.exists(os.path.join(ROOT, "not_applicable.json")) else {}
checks, na = [], []
for pid in ids:
    if os.path.exists(os.path.join(ROOT, "props", pid + ".py")) and pid not in NA:
        m = importlib.import_module("props." + pid)
        checks.append({
            "property_id": pid,
            "quick_cmd": "./check %s --tier quick" % pid,
            "thorough_cmd": "./check %s --tier thorough" % pid,
            "evidence_file": "evidence/%s.json" % pid,
            "replay_cmd_template": "./check %s --replay {path}" % pid,
            "engine": "coq-proof+correspondence",
            "level_claimed": {"category": "proof", "text": getattr(m, "LEVEL_TEXT", "Coq theorems about an executable model of the anchored code (" + ", ".join(m.THEOREMS) + "), tied to /repo by differential execution of the model (vm_compute) against the implementation on generated cases, plus a direct oracle of the property on the implementation"),
                              "design_ref": "DESIGN.md §4." + pid},
            "level_note": getattr(m, "LEVEL_NOTE", "trusted: Coq 8.16.1 kernel; the correspondence harness (generators, Go glue, canonicalisers); " + getattr(m, "MODELLED", "")),
            "technique": getattr(m, "TECHNIQUE", "machine-checked proof in Coq over an executable model + model/implementation correspondence"),
        })
    else:
        na.append({"property_id": pid, "reason": NA.get(pid, "not claimed by this revision: model and theorems for this property are not built yet (work in progress, see DESIGN.md §7)")})
man = {
    "version": 1,
    "setup_cmd": "./setup.sh",
    "hooks": {"guard": "verif", "enable": "go build -tags verif (harness module harness/, replace github.com/go-git/go-git/v6 => /repo)",
              "baseline_off_cmd": "cd /repo && go test -mod=mod -json -vet=off -count=1 -timeout 25m ./...",
              "source_commits": [l.strip() for l in open(os.path.join(ROOT, "MANIFEST.hooks")) if l.strip() and not l.startswith("#")] if os.path.exists(os.path.join(ROOT, "MANIFEST.hooks")) else [],
              "add_only": True},
    "engines": [{"name": "coq-proof+correspondence", "path": "check", "serves_properties": [c["property_id"] for c in checks],
                 "kind_free_text": "Coq 8.16.1 theorems over executable Gallina models (coq/theories), regenerated constants/leaves (gotrans), and a differential correspondence harness (lib/vf, harness/) run against /repo's working tree on every check"}],
    "checks": checks,
    "notes": "See DESIGN.md. Known findings: known_findings.json. Seeded mutations: seeded/.",
    "not_applicable": na,
}
json.dump(man, open(os.path.join(ROOT, "MANIFEST.json"), "w"), indent=1)
print(len(checks), "checks;", len(na), "not applicable")
