"""C07 Packs go-git writes contain exactly the requested objects (DESIGN.md §4.C07)."""
import json
import os
import subprocess

from vf.core import Suite, HARNESS, GOENV
from vf.gen import rbytes, pick_weighted
from props import _gitpack as G
from props import _delta as D

ID = "C07"
THEOREMS = [
    "C07_delta_size_limit_tied",
    "C07_each_once", "C07_base_before_delta", "C07_resolves", "C07_new_deltas_ok", "C07_acyclic_keeps_deltas", "C07_fuel_sufficient",
    "C07_entry_head_roundtrip", "C07_ofs_roundtrip",
    "C07_depth_bound", "C07_depth_bound_chains_partial", "C07_depth_bound_chains_refuted", "C07_selector_resolves", "C07_window_0_1",
]
MODEL_FILES = ["PackEnc.v", "DeltaSel.v"]
MODELLED = (
    "plumbing/format/packfile/encoder.go: Encoder.encode, entry, writeBaseIfDelta (the recursion over the ObjectToPack graph "
    "with the Offset encoding 0/1/>1 of object_pack.go: IsWritten, WantWrite, MarkWantWrite, BackToOriginal after "
    "restoreOriginal), entryHead, writeOfsDeltaHeader + utils/binary.WriteVariableWidthInt, head (count); "
    "delta payloads through C06 (diff/patch round trip). "
    "delta_selector.go (Model/DeltaSel.v): ObjectsToPack / objectsToPack (window 0: whole objects in request order; otherwise stored "
    "deltas handed out by the DeltaObjectStorer), fixAndBreakChains / fixAndBreakChainsOne / undeltify (base looked up by id, last "
    "object with that id; Depth = base Depth + 1), sort byTypeAndSize over ObjectToPack.Type()/Size() (Size() of a reused delta is "
    "DeltaObject.ActualSize() as the storer reports it), the per-type groups, walk (skip reused deltas and non blob/tree types, "
    "candidates at distance < window, same type), tryToDeltify (size ratio >> 4, deltaSizeLimit, msz <= 8, size difference, "
    "delta.Size() < msz, SetDelta) and deltaSizeLimit; maxDepth is taken from the source by gotrans. The selector's two "
    "nondeterministic inputs — the permutation sort.Sort leaves and the sizes of getDelta's outputs — are taken from the "
    "implementation on every case and the model must then reproduce the WHOLE selection (bases and Depth of every object) and the "
    "encoder's run on it; the theorems hold for every such input. deltaSizeLimit could not be translated by gotrans (method on a "
    "struct receiver: outside gotrans' subset, and gotrans is shared): it is hand-modelled and compared with the real method "
    "(verif export hook) on a grid. Not modelled: zlib, the storer, getDelta's bytes (C06), Original/CleanOriginal/"
    "SaveOriginalMetadata (memory management), the goroutine per group, requests naming an id twice (known finding), the hasher "
    "(trailer checked by git and by the harness)."
)
TRUSTED = [
    "C-impl: packfile.NewEncoder(...WithObjectSelector).Encode over (a) synthetic ObjectToPack graphs incl. cycles and (b) the graph "
    "DeltaSelector.ObjectsToPack returned, parsed by an independent minimal pack reader in the harness, vs Model/PackEnc.encode",
    "C-git: `git index-pack --strict` + `git verify-pack -v` on every pack; object ids in the .idx = the requested ids, once each",
]
ASSUMPTIONS = [
    "zlib round trip (inflate (deflate x) = x) and SHA-1/SHA-256 as implemented by Go and git",
    "the storer returns the object for every requested hash (restoreOriginal succeeds)",
    "stored (reused) deltas apply to their base (C07_resolves takes it as the hypothesis deltas_ok; new deltas satisfy it by C06_diff_roundtrip; "
    "C07_selector_resolves: the storer's stored delta for u applies to the object carrying the id it names as base)",
    "object and delta sizes are lengths (non-negative); sizes stay within int64 in deltaSizeLimit's products (objects < 2^56 bytes)",
]
RULE = ("graph: synthetic ObjectToPack lists with arbitrary base pointers (chains, stars, 2- and 3-cycles, self loops, cleaned originals); "
        "select: object sets {similar blobs, duplicates, empties, trees/commits, chains > 50} x window {0,1,10,50} x {ofs,ref} x {sha1,sha256}; "
        "select-fs: repositories whose pack stores chosen objects as deltas (reused by the selector, incl. delta-larger-than-base "
        "which makes the selector build a cycle; reuse-deep: a stored chain of 30 deltas on an object the walk deltifies at Depth 21, "
        "the situation of C07_depth_bound_chains_refuted: git verify-pack reports a chain of 51); for every select case without a "
        "repeated id the selection model is replayed with the implementation's sort order and delta sizes and must give the same bases "
        "and depths; limit: deltaSizeLimit on a grid; non-trivial = at least one delta or cycle; distinct by content")


def run_bin(cases):
    data = "".join(json.dumps(c) + "\n" for c in cases).encode()
    p = subprocess.run([os.path.join(HARNESS, "bin", "c07")], input=data, stdout=subprocess.PIPE,
                       stderr=subprocess.PIPE, timeout=900, env=GOENV)
    res = {}
    for line in p.stdout.decode("utf-8", "replace").splitlines():
        try:
            r = json.loads(line)
            res[r["id"]] = r
        except Exception:
            pass
    return res


# ------------------------------------------------------------------ object sets

def similar_blobs(rng, n, size=None):
    size = size or rng.choice([40, 120, 300, 900])
    base = bytearray(rbytes(rng, size, rng.choice([None, b"abcdefgh\n", b"ab"])))
    out = []
    cur = base
    for k in range(n):
        cur = bytearray(cur)
        for _ in range(rng.randrange(1, 4)):
            if len(cur) > 8 and rng.random() < 0.5:
                p = rng.randrange(len(cur))
                cur[p] = rng.randrange(256)
            else:
                p = rng.randrange(len(cur) + 1)
                cur[p:p] = rbytes(rng, rng.randrange(1, 12))
        out.append(bytes(cur) + b"#%d" % k)
    return out


def tree_entry(mode, name, oid):
    return mode + b" " + name + b"\0" + oid


def object_set(rng, bucket, fmt):
    """-> list of (type, bytes), all distinct"""
    objs = []
    if bucket == "similar":
        objs = [("blob", b) for b in similar_blobs(rng, rng.randrange(2, 9))]
    elif bucket == "mixed":
        objs = [("blob", b) for b in similar_blobs(rng, rng.randrange(2, 6))]
        objs += [("blob", rbytes(rng, rng.randrange(0, 50))) for _ in range(rng.randrange(0, 4))]
        objs.append(("blob", b""))
    elif bucket == "chain":
        # long runs of near-identical blobs: chains would exceed maxDepth = 50 if not bounded
        objs = [("blob", b) for b in similar_blobs(rng, rng.choice([52, 60, 75]), size=400)]
    elif bucket == "repo":
        blobs = similar_blobs(rng, rng.randrange(2, 6))
        objs = [("blob", b) for b in blobs]
        names = [b"f%02d" % i for i in range(len(blobs))]
        trees = []
        for k in range(rng.randrange(1, 4)):
            es = b"".join(tree_entry(b"100644", nm, G.obj_oid("blob", bl, fmt)) for nm, bl in list(zip(names, blobs))[: len(blobs) - k])
            if es and ("tree", es) not in trees:
                trees.append(("tree", es))
        objs += trees
        parent = None
        for k, (_, t) in enumerate(trees):
            c = b"tree " + G.obj_oid("tree", t, fmt).hex().encode() + b"\n"
            if parent:
                c += b"parent " + parent + b"\n"
            c += b"author A <a@example.com> %d +0000\ncommitter A <a@example.com> %d +0000\n\nmsg %d\n" % (1700000000 + k, 1700000000 + k, k)
            parent = G.obj_oid("commit", c, fmt).hex().encode()
            objs.append(("commit", c))
    elif bucket == "tiny":
        objs = [("blob", rbytes(rng, rng.randrange(0, 20))) for _ in range(rng.randrange(1, 6))] + [("blob", b"")]
    seen, out = set(), []
    for o in objs:
        if o not in seen:
            seen.add(o)
            out.append(o)
    return out


def has_cycle(g):
    """g: [[key, base index, depth], ...] as dumped by the harness"""
    for i in range(len(g)):
        seen, k = set(), i
        while 0 <= k < len(g) and k not in seen:
            seen.add(k)
            k = g[k][1]
        if k >= 0:
            return True
    return False


def objs_json(objs):
    return [{"type": t, "data": D.seg(b)} for t, b in objs]


def coq_nodes(nodes):
    return "[" + "; ".join("(%d%%N, %s)" % (k, "None" if b is None or b < 0 else "Some %d%%N" % b) for k, b in nodes) + "]"


def idx_check(ctx, reply, want_oids, fmt, name):
    """git's verdict on the pack of a reply: None if fine, else (class, reason)"""
    ex = reply.get("extra") or {}
    if not ex.get("pack"):
        return ("none", "no pack produced: %s %s" % (reply["out"], str(ex.get("error"))[:200]))
    # git decides; what the harness's own pack reader says only feeds the comparison with the model
    pack = bytes.fromhex(ex["pack"])
    ok, res = G.index_pack(ctx.tmp, pack, name=name, strict=True, fmt=fmt)
    if not ok:
        return ("none", "git index-pack --strict refuses the pack: " + res.strip()[:160])
    if sorted(res) != sorted(want_oids):
        missing = len(set(want_oids) - set(res))
        extra = len(set(res) - set(want_oids))
        return ("none", "object ids in the pack differ from the request: %d entries for %d requested, %d missing, %d unexpected" %
                (len(res), len(want_oids), missing, extra))
    ok, vp = G.verify_pack(ctx.tmp, name=name, fmt=fmt)
    if not ok:
        return ("none", "git verify-pack fails: " + vp.strip()[:160])
    if reply["out"].startswith("( ok") and "( trailer true )" not in reply["out"]:
        return ("none", "trailer is not the checksum of the pack / not the hash Encode returned")
    ex["_maxdepth"] = max([v[3] for v in vp] or [0])
    return None


class Graph(Suite):
    """synthetic ObjectToPack graphs: the encoder's write order and cycle breaking"""
    name = "graph"
    go_cmd = "c07"
    coq_imports = "From GoGit Require Import Model.PackEnc."
    quick_n = 80
    thorough_n = 400
    coq_chunk = 60

    def gen(self, rng, n, tier):
        cases = []
        for _ in range(n):
            b = pick_weighted(rng, [(2, "chain"), (2, "star"), (3, "cycle"), (2, "random"), (1, "self"), (1, "dupnode")])
            k = rng.randrange(1, 9)
            blobs = similar_blobs(rng, k)
            m = k if b != "dupnode" else k + rng.randrange(1, 3)
            objidx = list(range(k)) + [rng.randrange(k) for _ in range(m - k)]
            rng.shuffle(objidx)
            base = [-1] * m
            if b == "chain":
                perm = list(range(m))
                rng.shuffle(perm)
                for a, c in zip(perm, perm[1:]):
                    base[c] = a
            elif b == "star":
                r = rng.randrange(m)
                base = [r if i != r and rng.random() < 0.8 else -1 for i in range(m)]
            elif b == "cycle":
                perm = list(range(m))
                rng.shuffle(perm)
                L = rng.randrange(2, m + 1) if m >= 2 else 1
                cyc = perm[:L]
                for i, x in enumerate(cyc):
                    base[x] = cyc[(i + 1) % L]
                for x in perm[L:]:
                    base[x] = rng.choice(perm[:L] + [-1])
            elif b == "random" or b == "dupnode":
                base = [rng.choice([-1] + list(range(m))) for _ in range(m)]
            elif b == "self":
                base = [i if rng.random() < 0.5 else -1 for i in range(m)]
            nodes = [{"obj": objidx[i], "base": base[i], "clean": rng.random() < 0.4} for i in range(m)]
            cases.append({"bucket": b, "kind": "graph", "objs": objs_json([("blob", x) for x in blobs]), "nodes": nodes,
                          "ref": rng.random() < 0.5, "format": rng.choice(["sha1", "sha1", "sha256"])})
        return cases

    def model_expr(self, c):
        if c.get("kind") != "graph":
            return None
        return "c07_run " + coq_nodes([(nd["obj"], nd["base"]) for nd in c["nodes"]])

    def nontrivial(self, c):
        return any(nd["base"] >= 0 for nd in c["nodes"])

    def oracle(self, ctx, cases, impl, model):
        fails = {}
        for c in cases:
            if c.get("kind") != "graph":
                continue
            r = impl.get(c["id"])
            if r is None or r.get("panic"):
                fails[c["id"]] = "[none] no reply / panic"
                continue
            fmt = c.get("format", "sha1")
            objs = [(o["type"], D.expand(o["data"])) for o in c["objs"]]
            want = [G.obj_oid(*objs[nd["obj"]], fmt) for nd in c["nodes"]]
            dup = len(set(want)) != len(want)
            bad = idx_check(ctx, r, want, fmt, "g%d" % c["id"]) if not dup else self._dup_check(ctx, r, want, fmt, c)
            if bad:
                fails[c["id"]] = "[%s] %s" % bad
        return fails

    def _dup_check(self, ctx, r, want, fmt, c):
        # the same object handed over as two ObjectToPack values is the caller's doing (custom selector): only structure is checked
        if not (r.get("extra") or {}).get("pack"):
            return ("none", "no pack produced: %s" % r["out"])
        ok, res = G.index_pack(ctx.tmp, bytes.fromhex(r["extra"]["pack"]), name="g%d" % c["id"], strict=False, fmt=fmt)
        if ok and sorted(res) == sorted(want):
            return None
        if not ok and "already resolved" in res:
            return None     # REF_DELTA against a second copy of the same id: outside the property (duplicate ObjectToPack values)
        return ("none", "git index-pack: " + (res.strip()[:120] if not ok else "ids differ"))

    def finding_class(self, case, reason, reply):
        cls = reason[1:reason.index("]")] if reason.startswith("[") else "none"
        return None if cls == "none" else cls


def reuse_pack(rng, fmt):
    """objects + a pack that stores some of them as REF_DELTAs; `reverse` = the delta target is LARGER than its base,
    so that the size-sorted selector meets the reused delta before its base and may deltify the base against it (cycle)"""
    k = rng.randrange(2, 7)
    blobs = similar_blobs(rng, k, size=rng.choice([200, 500]))
    style = rng.choice(["forward", "reverse", "chain", "mixed"])
    order = sorted(range(k), key=lambda i: len(blobs[i]), reverse=(style != "reverse"))
    if style == "mixed":
        rng.shuffle(order)
    entries, full, used_as_base = [], set(), set()
    for pos, i in enumerate(order):
        if pos == 0 or (style != "chain" and rng.random() < 0.3):
            entries.append(("full", "blob", blobs[i]))
            full.add(i)
        else:
            b = order[pos - 1] if style == "chain" else rng.choice([j for j in order[:pos]])
            used_as_base.add(b)
            src, tgt = blobs[b], blobs[i]
            p = 0
            while p < min(len(src), len(tgt)) and src[p] == tgt[p]:
                p += 1
            ops = b""
            q = 0
            while q < p:
                n = min(p - q, D.MAXCOPY)
                ops += D.copy_op(q, n)
                q += n
            rest = tgt[p:]
            while rest:
                ops += D.insert_op(rest[:127])
                rest = rest[127:]
            delta = D.leb(len(src)) + D.leb(len(tgt)) + ops
            entries.append(("ref", G.obj_oid("blob", src, fmt), delta))
    return [("blob", b) for b in blobs], G.make_pack_entries(entries, fmt), style, sorted(used_as_base)


def prefix_delta(src, tgt):
    """a delta that copies the common prefix of src and inserts the rest of tgt"""
    p = 0
    while p < min(len(src), len(tgt)) and src[p] == tgt[p]:
        p += 1
    ops, q = b"", 0
    while q < p:
        n = min(p - q, D.MAXCOPY)
        ops += D.copy_op(q, n)
        q += n
    rest = tgt[p:]
    while rest:
        ops += D.insert_op(rest[:127])
        rest = rest[127:]
    return D.leb(len(src)) + D.leb(len(tgt)) + ops


def deep_reuse(rng, fmt):
    """the situation of C07_depth_bound_chains_refuted on real objects: x0 > x1 > ... > x20 (each a prefix of the previous
    one), r a prefix of x20, and c1..c30 STORED as a chain of deltas on r.  With window 2 the selector makes x_k a delta of
    x_(k-1), r a delta of x20 (Depth 21) and reuses the stored chain (recorded Depth 1..30): c30 ends 51 deltas deep"""
    X = rbytes(rng, 2000)
    xs = [X[:2000 - k] for k in range(21)]
    r = X[:1975]
    cs, prev = [], r
    for i in range(1, 31):
        c = r[:1200 - 10 * i] + b"#c%02d#" % i + rbytes(rng, 20)
        cs.append((prev, c))
        prev = c
    entries = [("full", "blob", x) for x in xs] + [("full", "blob", r)]
    entries += [("ref", G.obj_oid("blob", src, fmt), prefix_delta(src, c)) for src, c in cs]
    objs = [("blob", x) for x in xs] + [("blob", r)] + [("blob", c) for _, c in cs]
    return objs, G.make_pack_entries(entries, fmt)


class Select(Suite):
    """end to end: DeltaSelector.ObjectsToPack + Encoder.Encode; the model replays the encoder on the selected graph"""
    name = "select"
    go_cmd = "c07"
    coq_imports = "From GoGit Require Import Model.PackEnc Model.DeltaSel."
    quick_n = 60
    thorough_n = 200
    coq_chunk = 40

    def __init__(self):
        self._impl = {}

    def gen(self, rng, n, tier):
        cases = []
        for k in range(n):
            fmt = rng.choice(["sha1", "sha1", "sha256"])
            b = pick_weighted(rng, [(4, "similar"), (3, "mixed"), (3, "repo"), (1, "tiny"), (3, "reuse"), (1, "dup")])
            if k == 0:
                b = "chain"
            if k == 1:
                b = "reuse-deep"
            c = {"kind": "select", "format": fmt, "ref": rng.random() < 0.5,
                 "window": rng.choice([0, 1, 10, 10, 50])}
            if b == "reuse-deep":
                objs, pack = deep_reuse(rng, fmt)
                c["packhex"] = pack.hex()
                c["ids"] = [G.obj_oid(t, x, fmt).hex() for t, x in objs]
                c["objs"] = objs_json(objs)
                c["window"] = 2
                order = list(range(len(objs)))
            elif b == "reuse":
                objs, pack, style, bases = reuse_pack(rng, fmt)
                c["packhex"] = pack.hex()
                c["ids"] = [G.obj_oid(t, x, fmt).hex() for t, x in objs]
                c["objs"] = objs_json(objs)       # for the oracle only (the harness reads the repository)
                c["window"] = rng.choice([0, 1, 1, 10, 10, 50])
                order = list(range(len(objs)))
                if len(order) > 2 and bases and rng.random() < 0.45:
                    # request only a part of the pack: a stored delta whose base is NOT among the objects to pack
                    # (fixAndBreakChainsOne -> undeltify), plus possibly another missing object
                    order.remove(rng.choice(bases))
                    if len(order) > 2 and rng.random() < 0.4:
                        order.pop(rng.randrange(len(order)))
                    c["window"] = rng.choice([1, 1, 10, 10, 50])
                    style += "-partial"
                b = "reuse-" + style
            elif b == "dup":
                objs = object_set(rng, "similar", fmt)
                c["objs"] = objs_json(objs)
                order = list(range(len(objs))) + [rng.randrange(len(objs)) for _ in range(rng.randrange(1, 3))]
            else:
                objs = object_set(rng, b, fmt)
                c["objs"] = objs_json(objs)
                order = list(range(len(objs)))
                if b == "chain":
                    c["window"] = 10
            rng.shuffle(order)
            c["order"] = order
            c["bucket"] = b
            c["sel"] = len(set(order)) == len(order)      # the selection model does not cover an id requested twice
            cases.append(c)
        res = run_bin([dict(c, id=i) for i, c in enumerate(cases)])
        for i, c in enumerate(cases):
            self._impl[self.key(c)] = res.get(i)
        return cases

    def _graph(self, c):
        k = self.key(c)
        if k not in self._impl:
            self._impl[k] = run_bin([dict(c, id=0)]).get(0)
        r = self._impl[k]
        return ((r or {}).get("extra") or {}).get("graph")

    def model_expr(self, c):
        if c.get("kind") != "select":
            return None
        g = self._graph(c)
        if g is None:
            return 'OErr "nograph"'
        if c.get("sel"):
            # the chooser's two inputs (sort order, delta sizes) are taken from the implementation; the model must then
            # reproduce the whole selection (bases and depths) and the encoder's run on it
            sel = ((self._impl.get(self.key(c)) or {}).get("extra") or {}).get("sel")
            if sel is None:
                return 'OErr "nosel"'
            objs = "; ".join("(%d%%N, %d, %d, %s)" % (k, t, sz, "None" if b < 0 else "Some (%d%%N, %d)" % (b, a)) for k, t, sz, b, a in sel["objs"])
            order = "; ".join("%d" % u for u in sel["order"] or [])
            dsz = "; ".join("(%d, %d, %d%%Z)" % (b, t, d) for b, t, d in sel["dsz"] or [])
            return "c07_select %d [%s]%%Z [%s]%%nat [%s]%%nat" % (c["window"], objs, order, dsz)
        return "c07_run " + coq_nodes([(x[0], x[1]) for x in g])

    def nontrivial(self, c):
        return c.get("window", 0) > 0 and len(c.get("order", [])) > 1

    def show(self, c):
        c = dict(c)
        if "packhex" in c and len(c["packhex"]) > 3000:
            c["packhex_len"] = len(c["packhex"]) // 2
        return c

    def oracle(self, ctx, cases, impl, model):
        fails = {}
        self._depths = []
        for c in cases:
            if c.get("kind") != "select":
                continue
            r = impl.get(c["id"])
            if r is None or r.get("panic"):
                fails[c["id"]] = "[none] no reply / panic: %s" % ((r or {}).get("panic") or "")[:200]
                continue
            fmt = c.get("format", "sha1")
            objs = [(o["type"], D.expand(o["data"])) for o in c["objs"]]
            req = [G.obj_oid(*objs[k], fmt) for k in c["order"]]
            want = sorted(set(req))          # exactly the requested objects, once each (also when only a part of a pack is requested)
            bad = idx_check(ctx, r, want, fmt, "s%d" % c["id"])
            if bad:
                cls, why = bad
                if len(req) != len(set(req)):
                    cls = "duplicate-hashes"
                fails[c["id"]] = "[%s] %s" % (cls, why)
            else:
                g = (r.get("extra") or {}).get("graph") or []
                self._depths.append((r["extra"].get("_maxdepth", 0), any(x[1] == -2 for x in g), "packhex" in c, has_cycle(g), c.get("bucket")))
        return fails

    def finding_class(self, case, reason, reply):
        cls = reason[1:reason.index("]")] if reason.startswith("[") else "none"
        return None if cls == "none" else cls

    def extra(self, ctx, cases, impl, model):
        d = getattr(self, "_depths", [])
        new = [x[0] for x in d if not x[2]]
        return {"max_chain_depth_git_verify_pack": max([x[0] for x in d] or [0]),
                "max_chain_depth_without_reuse": max(new or [0]),
                "packs_accepted_by_git": len(d),
                "chain_depth_of_the_reuse_deep_case": max([x[0] for x in d if x[4] == "reuse-deep"] or [0]),
                "selections_replayed_by_the_model": sum(1 for c in cases if c.get("sel")),
                "stored_deltas_whose_ActualSize_is_not_the_object_size": sum(
                    1 for c in cases for o in ((((impl.get(c["id"]) or {}).get("extra") or {}).get("sel") or {}).get("objs") or [])
                    if o[3] >= 0 and o[4] != o[2]),
                "selected_graphs_with_a_cycle": sum(1 for x in d if x[3])}


class Limit(Suite):
    """leaf: DeltaSelector.deltaSizeLimit (not translatable by gotrans: method on a struct receiver) vs Model/DeltaSel.delta_size_limit"""
    name = "limit"
    go_cmd = "c07"
    coq_imports = "From GoGit Require Import Model.DeltaSel."
    quick_n = 6
    thorough_n = 40

    def gen(self, rng, n, tier):
        cases = []
        sizes = [0, 1, 2, 15, 16, 17, 18, 19, 33, 100, 101, 999, 1000, 4096, 65535, 2**20 + 1, 2**31, 2**40 + 7]
        depths = [0, 1, 2, 9, 10, 25, 48, 49, 50, 51, 60, 100]
        for _ in range(n):
            args = [[rng.choice(sizes + [rng.randrange(0, 5000)]), rng.choice(depths + [rng.randrange(0, 52)]),
                     rng.choice(depths + [rng.randrange(0, 52)]), rng.randrange(2)] for _ in range(60)]
            cases.append({"kind": "limit", "args": args, "bucket": "limit"})
        return cases

    def model_expr(self, c):
        return "c07_limits [%s]%%Z" % "; ".join("(%d, %d, %d, %s)" % (a, b, d, "true" if x else "false") for a, b, d, x in c["args"])


SUITES = [Graph(), Select(), Limit()]
