"""C47 Revision expressions resolve as git rev-parse resolves them (DESIGN.md §4.C47)."""
import hashlib
import os
import subprocess
from vf.core import Suite, coq_hex
from vf.gen import pick_weighted
from props import b16dag as D

ID = "C47"
THEOREMS = ["C47_eq_git_partial", "C47_git_regex_walk", "C47_short_prefix_refuted", "C47_ambiguous_refuted",
            "C47_hexlike_refname_refuted", "C47_regex_type_word_refuted", "C47_token_after_empty_braces_refuted",
            "C47_regex_walk_order_refuted"]
MODEL_FILES = ["CommitWalk.v", "Revision.v"]
SPEC_NOTE = "Spec/GitRev.v"
MODELLED = ("internal/revision scanner.go + parser.go on ASCII input for <ref>(~[n]|^[n]|^{type}|^{}|^{/re})* and '@' "
            "(Parse, parseRef/checkRefFormat, parseTilde, parseCaret, parseCaretBraces, validateFullRevision), repository.go "
            "ResolveRevision, resolveHashPrefix, expandRef over RefRevParseRules, expandPartialHash in the ascending order of "
            "dotgit.ObjectsWithPrefix (Model/Revision.v); regular expressions are literal text; not modelled: '@{...}' and ':...' "
            "forms (parsed by go-git, ignored by its resolver), non-ASCII input, regexp syntax")
LEVEL_NOTE = ("trusted: Coq 8.16.1 kernel; the correspondence harness; S = Spec/GitRev.v is a transcription of git's resolver, "
              "compared with the git binary on every expression of every run (0 mismatches); theorem: go-git's resolver model agrees "
              "with S outside six defect classes (boolean guard), each class refuted by a witness and replayed on the real code as a "
              "known finding; the parser model is tied by differential execution only")
TRUSTED = [
    "C-impl: internal/revision.Parser (x/verifhooks, -tags verif) and Repository.ResolveRevision on a filesystem storage over billy memfs vs Model/Revision on every case",
    "C-git: git cat-file --batch-check '<rev>^{commit}' (same resolver as git rev-parse --verify) in a repository holding the same raw objects and references; cross-checked with git rev-parse --verify --quiet on a sample",
]
ASSUMPTIONS = ["regular expressions in generated expressions are literal words, so regexp.MatchString and git's regex both mean substring search"]
RULE = ("resolve: repository (DAG shapes x timestamp modes, messages from a small vocabulary so that ^{/word} matches at several depths, "
        "annotated tags incl. tag-of-tag and tag-of-tree, branches/tags/remotes with colliding and hex-looking names, blobs forged to "
        "share 4-digit prefixes with commits) x expressions (names under every RefRevParseRule, full/abbreviated/upper-case/odd-length "
        "ids, ambiguous and < 4-digit prefixes, ~n ^n ^0 ^{commit} ^{} ^{/re} ^{/!-re} chains); parse: grammar-derived and random "
        "printable strings; non-trivial = expression has a suffix or an abbreviated id; distinct by content")

import re as _re
TYPEWORD = _re.compile(rb"\^\{/[^}]*?(?<![A-Za-z])(commit|tree|blob|tag|object)\}")
WORDS = [b"fix", b"add", b"bug", b"merge", b"commit", b"tree", b"tag", b"nasty", b"x1"]
SIG = b"V <v@example.com> %d +0000"


def oid(typ, data):
    return hashlib.sha1(typ.encode() + b" %d\0" % len(data) + data).hexdigest()


def commit_bytes(tree, parents, t, msg):
    return (b"tree " + tree.encode() + b"\n" + b"".join(b"parent " + p.encode() + b"\n" for p in parents)
            + b"author " + SIG % t + b"\ncommitter " + SIG % t + b"\n\n" + msg)


def tag_bytes(target, ttype, name, t, msg):
    return b"object " + target.encode() + b"\ntype " + ttype.encode() + b"\ntag " + name + b"\ntagger " + SIG % t + b"\n\n" + msg


def forge(prefix, make, tries=400000):
    """find a nonce such that oid(make(nonce)) starts with prefix"""
    for k in range(tries):
        data = make(k)
        if data[1].startswith(prefix):
            return data
    return None


def build_repo(rng, tier):
    sh = pick_weighted(rng, D.SHAPES)
    st = pick_weighted(rng, D.STAMPS)
    k = rng.choice([2, 3, 4, 5, 6, 7, 8])
    par = D.shape(rng, sh, k)
    times = D.stamp(rng, st, par)
    tree = D.EMPTY_TREE
    objects = [{"type": "tree", "data": "", "id": tree}]
    msgs, ids = [], []
    collide = rng.random() < 0.35 and k >= 3
    for i in range(k):
        words = [rng.choice(WORDS) for _ in range(rng.choice([1, 2, 2, 3]))]
        if rng.random() < 0.5:
            words.append(b"w")          # a frequent word: ^{/w} matches at several depths and on several branches
        base = b" ".join(words) + b" n%d" % i
        if collide and i == k - 1:
            # forge the last commit to share a 4-digit prefix with an earlier commit
            target = ids[rng.randrange(len(ids))][:4]
            def make(n, base=base, i=i):
                m = base + b" z%d\n" % n
                return (m, oid("commit", commit_bytes(tree, [ids[p] for p in par[i]], times[i], m)))
            got = forge(target, make, 300000)
            msg = got[0] if got else base + b"\n"
        else:
            msg = base + b"\n"
        data = commit_bytes(tree, [ids[p] for p in par[i]], times[i], msg)
        h = oid("commit", data)
        objects.append({"type": "commit", "data": data.hex(), "id": h, "node": i})
        msgs.append(msg)
        ids.append(h)
    # blobs: some forged to share a 4-digit prefix with a commit
    blobs = []
    for j in range(rng.choice([0, 1, 2])):
        if rng.random() < 0.6:
            target = rng.choice(ids)[:4]
            got = forge(target, lambda n: (b"blob %d\n" % n, oid("blob", b"blob %d\n" % n)), 300000)
            content = got[0] if got else b"plain\n"
        else:
            content = b"blob %d\n" % rng.randrange(1000)
        h = oid("blob", content)
        if h not in [o["id"] for o in objects]:
            objects.append({"type": "blob", "data": content.hex(), "id": h})
            blobs.append(h)
    # annotated tags
    tags = {}
    refs = [{"name": "HEAD", "sym": "refs/heads/main"}, {"name": "refs/heads/main", "hash": ids[k - 1]}]
    used = {"HEAD", "refs/heads/main"}

    def addref(name, **kw):
        if name not in used and not any(name.startswith(u + "/") or u.startswith(name + "/") for u in used):
            used.add(name)
            refs.append(dict(name=name, **kw))
            return True
        return False

    for j in range(rng.choice([0, 1, 1, 2, 3])):
        name = rng.choice([b"v1", b"v2", b"rel", b"main", b"dev"])
        r = rng.random()
        if r < 0.7 or not tags:
            tgt, tt = rng.choice(ids), "commit"
        elif r < 0.85:
            tgt, tt = rng.choice(list(tags.values())), "tag"
        else:
            tgt, tt = tree, "tree"
        data = tag_bytes(tgt, tt, name, D.T0 + 5000 + j, b"tag " + name + b"\n")
        h = oid("tag", data)
        if h in [o["id"] for o in objects]:
            continue
        objects.append({"type": "tag", "data": data.hex(), "id": h, "target": tgt})
        tags[name.decode() + str(j)] = h
        addref("refs/tags/" + name.decode(), hash=h)
    for j in range(rng.choice([1, 2, 3, 4])):
        kind = pick_weighted(rng, [(3, "head"), (2, "ltag"), (2, "remote"), (2, "hexhead"), (1, "refsx"), (1, "top")])
        c = rng.choice(ids)
        if kind == "head":
            addref("refs/heads/" + rng.choice(["dev", "v1", "fix", "a/b", "main2"]), hash=c)
        elif kind == "ltag":
            addref("refs/tags/" + rng.choice(["dev", "lt", "v2", "main"]), hash=c)
        elif kind == "remote":
            if addref("refs/remotes/origin/main", hash=c):
                addref("refs/remotes/origin/HEAD", sym="refs/remotes/origin/main")
        elif kind == "hexhead":
            other = rng.choice(ids)
            addref("refs/heads/" + other[:rng.choice([4, 5, 7, 40])], hash=c)   # a branch named like another commit's id
        elif kind == "refsx":
            addref("refs/" + rng.choice(["stash", "x/y"]), hash=c)
        else:
            addref(rng.choice(["FETCH_HEAD", "ORIG_HEAD"]), hash=c)
    # the same short name under several rev-parse rules, pointing at different commits
    for nm in rng.sample(["dev", "v1", "x"], rng.choice([0, 1, 1, 2])):
        spaces = rng.sample(["refs/tags/", "refs/heads/", "refs/remotes/", "refs/"], rng.choice([2, 2, 3]))
        for sp in spaces:
            addref(sp + nm, hash=rng.choice(ids))
    objects.sort(key=lambda o: o["id"])
    return {"par": par, "times": times, "msgs": [m.hex() for m in msgs], "objects": objects, "refs": refs,
            "bucket": "resolve/%s/%s%s" % (sh, st, "/collide" if collide else "")}, ids, tags, blobs


def suffixes(rng):
    out = b""
    for _ in range(rng.choice([0, 0, 1, 1, 2, 3])):
        out += rng.choice([b"~", b"~1", b"~2", b"~3", b"~0", b"^", b"^0", b"^1", b"^2", b"^^", b"^{commit}", b"^{}",
                           b"^{/" + rng.choice(WORDS) + b"}", b"^{/" + rng.choice(WORDS) + b" " + rng.choice(WORDS) + b"}",
                           b"^{/!-" + rng.choice(WORDS) + b"}", b"^{/n%d}" % rng.randrange(8), b"^{/w}", b"^{/w}", b"^{/!-w}", b"~10", b"^{/!!x}"])
    return out


def base_names(rng, repo, ids, tags, blobs):
    names = []
    for r in repo["refs"]:
        n = r["name"]
        names.append(n)
        for pre in ("refs/heads/", "refs/tags/", "refs/remotes/", "refs/"):
            if n.startswith(pre):
                names.append(n[len(pre):])
        if n == "refs/remotes/origin/HEAD":
            names.append("origin")
    names += ["HEAD", "@", "main", "heads/main", "nosuch", "v1", "dev"]
    allids = [o["id"] for o in repo["objects"]]
    for h in ids + list(tags.values()) + blobs[:1]:
        for L in (1, 2, 3, 4, 5, 6, 7, 8, 12, 39, 40):
            names.append(h[:L])
        names.append(h[:7].upper())
        names.append(h.upper())
    # shared prefixes
    for a in allids:
        for b2 in allids:
            if a < b2:
                L = len(os.path.commonprefix([a, b2]))
                if L:
                    names.append(a[:L])
                    if L >= 4:
                        names.append(a[:4])
    return names


class Resolve(Suite):
    name = "resolve"
    go_cmd = "c47"
    coq_imports = "From GoGit Require Import Spec.Dag Model.CommitWalk Model.Revision."
    quick_n = 26
    thorough_n = 500
    NEXPR = 12

    def gen(self, rng, n, tier):
        cases = []
        for _ in range(n):
            repo, ids, tags, blobs = build_repo(rng, tier)
            names = base_names(rng, repo, ids, tags, blobs)
            exprs = []
            # aimed expressions: second parents of merges, colliding names, peeled tags, first-parent chains
            aimed = []
            for i, ps in enumerate(repo["par"]):
                if len(ps) >= 2:
                    aimed += [ids[i][:10] + "^2", ids[i][:12] + "^2~1", ids[i] + "^1", ids[i][:9] + "^2^{commit}"]
                if len(ps) >= 1:
                    aimed += [ids[i][:11] + "~1", ids[i][:8] + "~2", ids[i][:10] + "^"]
            for r in repo["refs"]:
                short = r["name"].split("/")[-1]
                if sum(1 for q in repo["refs"] if q["name"].split("/")[-1] == short) > 1:
                    aimed += [short, short + "^{}", "heads/" + short, "tags/" + short]
            for t in tags.values():
                aimed += [t[:10] + "^{}", t[:10] + "~1", t]
            for _ in range(self.NEXPR):
                if aimed and rng.random() < 0.4:
                    e = rng.choice(aimed).encode() + (suffixes(rng) if rng.random() < 0.3 else b"")
                else:
                    e = rng.choice(names).encode() + suffixes(rng)
                exprs.append(e.hex())
            repo.update(op="resolve", exprs=exprs)
            cases.append(repo)
        return cases

    def model_expr(self, c):
        objs = []
        for o in c["objects"]:
            if o["type"] == "commit":
                kind = "kc %d" % o["node"]
            elif o["type"] == "tag":
                kind = 'kt "%s"' % o["target"]
            else:
                kind = "KOther"
            objs.append('("%s", %s)' % (o["id"], kind))
        refs = ['("%s", %s)' % (r["name"], ('rs "%s"' % r["sym"]) if r.get("sym") else ('rh "%s"' % r["hash"])) for r in c["refs"]]
        exprs = [e for e in c["exprs"]]
        if any(b"@{" in bytes.fromhex(e) or b":" in bytes.fromhex(e) for e in exprs):
            return None
        return "c47_resolve (mk_repo %s [%s] [%s] [%s]) [%s]" % (
            D.coq_dag(c["par"], c["times"]), "; ".join('"%s"' % m for m in c["msgs"]), "; ".join(objs), "; ".join(refs),
            "; ".join('"%s"' % e for e in exprs))

    def nontrivial(self, c):
        return True

    def key(self, c):
        return "%s|%s|%s" % (c["par"], c["times"], c["exprs"])

    @staticmethod
    def results(out):
        """'( ( ok 3 ) ( err notfound ) )' -> ['ok 3', 'err notfound']"""
        t = out.split()
        res, i = [], 1
        while i < len(t) - 1:
            j = t.index(")", i)
            res.append(" ".join(t[i + 1:j]))
            i = j + 1
        return res

    def git_side(self, ctx, c):
        root = os.path.join(ctx.tmp, "c47-%s.git" % c["id"])
        # a bare repository written directly: loose objects are zlib("<type> <len>\0<data>") under objects/xx/ (git checks
        # the id when it reads them); this keeps the git side at one process (cat-file --batch-check) per repository
        import zlib
        os.makedirs(os.path.join(root, "refs", "heads"))
        os.makedirs(os.path.join(root, "objects", "info"))
        with open(os.path.join(root, "config"), "w") as f:
            f.write("[core]\n\trepositoryformatversion = 0\n\tbare = true\n")
        for o in c["objects"]:
            data = bytes.fromhex(o["data"])
            d = os.path.join(root, "objects", o["id"][:2])
            os.makedirs(d, exist_ok=True)
            with open(os.path.join(d, o["id"][2:]), "wb") as f:
                f.write(zlib.compress(o["type"].encode() + b" %d\0" % len(data) + data))
        for r in c["refs"]:
            p = os.path.join(root, r["name"])
            os.makedirs(os.path.dirname(p), exist_ok=True)
            with open(p, "w") as f:
                f.write(("ref: %s\n" % r["sym"]) if r.get("sym") else (r["hash"] + "\n"))
        lines = [bytes.fromhex(e) + b"^{commit}" for e in c["exprs"]]
        ok = [l for l in lines if b"\n" not in l and b"\0" not in l]
        r = subprocess.run([D.GIT, "--git-dir", root, "cat-file", "--batch-check"], input=b"\n".join(ok) + b"\n", env=D.GENV,
                           capture_output=True)
        outs = r.stdout.split(b"\n")
        res, k = [], 0
        for l in lines:
            if b"\n" in l or b"\0" in l:
                res.append(None)
                continue
            o = outs[k] if k < len(outs) else b""
            k += 1
            parts = o.split(b" ")
            if len(parts) == 3 and parts[1] == b"commit" and len(parts[0]) == 40:
                res.append(parts[0].decode())
            elif o.endswith(b" ambiguous"):
                res.append("ambiguous")
            else:
                res.append("missing")
        return res

    def oracle(self, ctx, cases, impl, model):
        fails = {}
        self.stats = {"resolved_same": 0, "go_error_git_resolves": 0, "both_fail": 0, "exprs": 0}
        gits = D.pmap(lambda c: self.git_side(ctx, c), cases, workers=6)
        self._git = {}
        for c, g in zip(cases, gits):
            self._git[c["id"]] = g
            r = impl.get(c["id"])
            if not r or not r["out"].startswith("( ("):
                fails[c["id"]] = "no result list: %s" % (r["out"][:100] if r else "<no reply>")
                continue
            res = self.results(r["out"])
            node_id = {o["node"]: o["id"] for o in c["objects"] if o["type"] == "commit"}
            for e, got, want in zip(c["exprs"], res, g):
                self.stats["exprs"] += 1
                if want is None:
                    continue
                if got.startswith("ok "):
                    h = node_id[int(got[3:])]
                    if h == want:
                        self.stats["resolved_same"] += 1
                    else:
                        fails.setdefault(c["id"], "%r: go-git resolves to %s, git rev-parse '<rev>^{commit}': %s" % (
                            bytes.fromhex(e).decode("latin1"), h[:10], want if len(want) != 40 else want[:10]))
                        c.setdefault("_failing", []).append((e, h, want))
                elif len(want) == 40:
                    self.stats["go_error_git_resolves"] += 1
                else:
                    self.stats["both_fail"] += 1
        self.diagnose(ctx, cases)
        for c in cases:
            fs = c.get("_failing", [])
            un = [f for f in fs if self.expr_class(c, f) is None]
            if un:
                e, h, want = un[0][:3]
                fails[c["id"]] = "%r: go-git resolves to %s, git rev-parse '<rev>^{commit}': %s" % (
                    bytes.fromhex(e).decode("latin1"), h[:10], want if len(want) != 40 else want[:10])
        return fails

    ITEM = _re.compile(rb"~[0-9]*|\^\{[^}]*\}|\^[0-9]*")

    def diagnose(self, ctx, cases):
        """for every failing expression find the first prefix (base name + leading suffix items) on which go-git and git
        already differ: the finding class is decided by that item alone"""
        from vf import core
        todo = []
        for c in cases:
            for k, (e, h, w) in enumerate(c.get("_failing", [])):
                x = bytes.fromhex(e)
                m = _re.search(rb"[~^]", x)
                base = x if not m else x[:m.start()]
                items = self.ITEM.findall(x[len(base):])
                if b"".join(items) != x[len(base):]:
                    continue
                prefixes = [base + b"".join(items[:n]) for n in range(len(items) + 1)]
                todo.append((c, k, base, items, prefixes))
        if not todo:
            return
        sub = [dict({kk: c[kk] for kk in ("par", "times", "msgs", "objects", "refs", "op")}, id=n, exprs=[p.hex() for p in pre])
               for n, (c, k, base, items, pre) in enumerate(todo)]
        impl = core.run_impl(self.go_cmd, sub)
        gits = D.pmap(lambda cc: self.git_side(ctx, dict(cc, id="d%s" % cc["id"])), sub, workers=6)
        for n, (c, k, base, items, pre) in enumerate(todo):
            res = self.results(impl[n]["out"]) if n in impl else []
            node_id = {o["node"]: o["id"] for o in c["objects"] if o["type"] == "commit"}
            for j, (g, w) in enumerate(zip(res, gits[n])):
                gh = node_id[int(g[3:])] if g.startswith("ok ") else None
                if gh is not None and gh != w:
                    c["_failing"][k] = c["_failing"][k][:3] + ({"j": j, "base": base, "item": items[j - 1] if j else b"",
                                                              "prev": items[j - 2] if j >= 2 else b"", "got": gh, "want": w},)
                    break

    @staticmethod
    def expr_class(case, f):
        """known-finding class of ONE failing expression from its first diverging prefix, or None"""
        if len(f) < 4:
            return None
        d = f[3]
        ids = [o["id"] for o in case["objects"]]
        if d["j"] == 0:
            base = d["base"]
            if _re.fullmatch(rb"[0-9a-fA-F]+", base) is None or len(base) >= 40:
                return None
            low = base.decode().lower()
            n = sum(1 for o in ids if o.startswith(low))
            if len(base) < 4 and d["want"] in ("missing", "ambiguous"):
                return "hash-prefix-shorter-than-4"
            named = any(r["name"] == pre + base.decode() for r in case["refs"]
                        for pre in ("", "refs/", "refs/tags/", "refs/heads/", "refs/remotes/"))
            if named and len(d["want"]) == 40:
                return "hexlike-refname-shadowed-by-hash-prefix"
            if n >= 2 and d["want"] in ("missing", "ambiguous"):
                return "ambiguous-hash-prefix"
            return None
        item = d["item"]
        if d["prev"] == b"^{}":
            return "token-after-empty-braces-dropped"
        if TYPEWORD.fullmatch(item):
            return "caret-regex-ending-in-type-word"
        m = _re.fullmatch(rb"\^\{/(!-)?([A-Za-z0-9 ]+)\}", item)
        if m and len(d["want"]) == 40:
            msg = {o["id"]: bytes.fromhex(case["msgs"][o["node"]]) for o in case["objects"] if o["type"] == "commit"}
            neg, word = m.group(1) is not None, m.group(2)
            if d["want"] in msg and ((word in msg[d["got"]]) != neg) and ((word in msg[d["want"]]) != neg):
                return "caret-regex-first-match-in-dfs-order"
        return None

    def finding_class(self, case, reason, reply):
        classes = [self.expr_class(case, f) for f in case.get("_failing", [])]
        if classes and all(classes):
            return classes[0]
        return None

    def repo_expr(self, c):
        objs = []
        for o in c["objects"]:
            if o["type"] == "commit":
                kind = "kc %d" % o["node"]
            elif o["type"] == "tag":
                kind = 'kt "%s"' % o["target"]
            else:
                kind = "KOther"
            objs.append('("%s", %s)' % (o["id"], kind))
        refs = ['("%s", %s)' % (r["name"], ('rs "%s"' % r["sym"]) if r.get("sym") else ('rh "%s"' % r["hash"])) for r in c["refs"]]
        return "(mk_repo %s [%s] [%s] [%s])" % (D.coq_dag(c["par"], c["times"]), "; ".join('"%s"' % m for m in c["msgs"]),
                                                 "; ".join(objs), "; ".join(refs))

    def extra(self, ctx, cases, impl, model):
        """C-git: S (Spec/GitRev.v git_items, on go-git's parse of the expression) vs the git binary, on every expression
        whose go-git parse is the grammar's (i.e. outside the two parser defects)"""
        st = dict(getattr(self, "stats", {}))
        todo = [c for c in cases if self.model_expr(c) is not None and c["id"] in getattr(self, "_git", {})][:(24 if ctx.tier == "quick" else 200)]
        exprs = ["c47_git %s [%s]" % (self.repo_expr(c), "; ".join('"%s"' % e for e in c["exprs"])) for c in todo]
        outs = ctx.coq_eval("From GoGit Require Import Spec.Dag Model.CommitWalk Model.Revision Spec.GitRev.", exprs)
        n = bad = 0
        for c, o in zip(todo, outs):
            if not o:
                continue
            node_id = {ob["node"]: ob["id"] for ob in c["objects"] if ob["type"] == "commit"}
            for e, sres, g in zip(c["exprs"], self.results(o), self._git[c["id"]]):
                x = bytes.fromhex(e)
                if g is None or sres.startswith("err unparsed") or TYPEWORD.search(x) or _re.search(rb"\^\{\}.", x) or b"^{tag}" in x:
                    continue
                n += 1
                want = node_id[int(sres[3:])] if sres.startswith("ok ") else "none"
                got = g if len(g) == 40 else "none"
                if want != got:
                    bad += 1
                    ctx.notes.append("spec_mismatch Spec/GitRev vs git on %r: S %s, git %s" % (x, want[:10], got[:10]))
        st.update(spec_vs_git_exprs=n, spec_mismatches=bad)
        return st

    def show(self, c):
        return {k: v for k, v in c.items() if k != "_failing"}

    def key(self, c):
        return "%s|%s|%s" % (c["par"], c["times"], c["exprs"])


def rand_expr(rng):
    r = rng.random()
    if r < 0.5:
        base = rng.choice([b"HEAD", b"master", b"refs/heads/a", b"a/b", b"v1.0", b"@", b"ab12", b"feature_x", b"a-b", b"x.lock",
                           b"a..b", b"a//b", b".a", b"a.", b"a/", b"/a", b"a b", b"a\\b", b"a?b", b"a*", b"a[b", b"a@b", b"a@",
                           b"", b"-", b"1", b"0a", b"a1b2", b"A.B/c", b"a.lock/b", b"a/.b", b"x\x01y", b"x\ty", b"x\x7fy"])
        return base + suffixes(rng) + rng.choice([b"", b"", b"", b"}", b"^{", b"^{/", b"^{/a", b"^3", b"^10", b"~99999999999999999999",
                                                 b"^{tree}", b"^{blob}", b"^{tag}", b"^{object}", b"^{foo}", b"^{/!a}", b"^{/!!a}",
                                                 b"^{/!-a}", b"^{}~1", b"^{/a b}", b"^{/commit}", b"^{/a}x", b"\0x", b" "])
    alphabet = b"aA1~^{}/!-.@ \\?*[:_,\0\t"
    return bytes(rng.choice(alphabet) for _ in range(rng.choice([1, 2, 3, 4, 5, 6, 8, 12])))


class Parse(Suite):
    name = "parse"
    go_cmd = "c47"
    coq_imports = "From GoGit Require Import Model.Revision."
    quick_n = 250
    thorough_n = 6000

    def gen(self, rng, n, tier):
        return [{"op": "parse", "expr": rand_expr(rng).hex(), "bucket": "parse"} for _ in range(n)]

    def model_expr(self, c):
        e = bytes.fromhex(c["expr"])
        if _re.search(rb"@\0*\{", e) or b":" in e or any(ch >= 128 for ch in e):
            return None
        return 'c47_parse "%s"' % c["expr"]

    def nontrivial(self, c):
        return len(c["expr"]) > 2

    def oracle(self, ctx, cases, impl, model):
        return {}


SUITES = [Resolve(), Parse()]
