"""C25 Checkout and hard reset materialise exactly the target commit (DESIGN.md §4.C25)."""
from vf.gen import pick_weighted
from props import porcelain_lib as P

ID = "C25"
THEOREMS = ["C25_reset_hard", "C25_checkout_force", "C25_clean_status", "C25_untracked_refuted", "C25_untracked_partial", "C25_staged_new_refuted"]
MODEL_FILES = ["Porcelain.v"]
MODELLED = ("worktree.go: Checkout, createBranch, getCommitFromCheckoutOptions, setHEADToCommit/Branch, Reset (all five modes), "
            "resetIndex, resetWorktree, resetWorktreeToTree (steps 1-2), checkoutChange, containsUnstagedChanges, "
            "checkKeepResetConflicts + the part of Status it reads, setHEADCommit, headTree — over flattened trees "
            "path -> (mode, blob) (Model/Porcelain.v); not modelled: merkletrie traversal order and directory/file conflicts "
            "(guard df_free), deleted blobs / nested trees (missing commits, missing root trees, tree/blob hashes as targets ARE modelled), the metadata shortcut of the filesystem noder, sparse dirs / skip-worktree, submodules, "
            "ResetOptions.Files, autocrlf, .gitignore, the billy filesystem calls themselves (exercised by the correspondence)")
TRUSTED = [
    "C-impl: harness/cmd/porcelain builds the repository of each case with go-git plumbing, runs the ops through "
    "Worktree.Checkout / Worktree.Reset and snapshots HEAD, refs, index and worktree after every op; compared with Model/Porcelain.porcelain_run",
    "suite landing: same oracle without a model — IF the forced operation returns nil THEN HEAD, index and tracked files (gitlink = directory) equal "
    "the target, git status has no tracked change, untracked files outside the target and not in its way are intact; refusals are accepted",
    "direct oracle: after every successful forced checkout / hard reset, git 2.39.5 `status --porcelain=v2 --branch -z --untracked-files=all` "
    "on the resulting repository (HEAD oid = target, no tracked change: git's reading of the index equals HEAD's tree and the files equal the index) + byte comparison of the worktree with the target tree and of untracked files with the snapshot before",
]
ASSUMPTIONS = ["object ids are injective on the blobs of a case (contents stand for hashes in the model)",
               "no path of a case is a directory prefix of another one when the model is consulted (df_free); other cases are checked by the oracle only"]
RULE = ("suite landing (oracle only, both tiers): a target entry of every kind (file, executable, symlink, gitlink) on a worktree path held by "
        "{empty dir, dir with untracked file, dir with ignored file, file, symlink to dir, symlink to file} x HEAD {lacks the path, tracks files "
        "below it, tracks it as file/symlink} x {reset --hard, forced checkout by hash / by branch / with Create}; suite main: "
        "case = repository recipe (2-4 commits derived from each other by content / mode / type changes, refs, HEAD symbolic or detached, "
        "index and worktree derived from HEAD's tree with staged / unstaged / untracked / rm --cached dirt) + 1-4 ops; buckets hard, untracked, "
        "rmcached, staged, random, errors, df; non-trivial = has a porcelain op on a non-empty history; distinct by content")


def conflicts(p, paths):
    return any(q.startswith(p + "/") or p.startswith(q + "/") for q in paths)


class Main(P.PorcelainSuite):
    name = "main"
    quick_n = 150
    thorough_n = 1000
    buckets = [(5, "hard"), (3, "untracked"), (3, "rmcached"), (2, "staged"), (2, "random"), (1, "errors"), (1, "missing"), (1, "df")]
    weights = {"force": 6, "plain": 2, "ckeep": 1, "hard": 6, "merge": 1, "keep": 1, "mixed": 1, "soft": 1}

    def oracle(self, ctx, cases, impl, model):
        fails = {}
        for c in cases:
            r = impl.get(c["id"])
            if r is None or not (r.get("extra") or {}).get("steps"):
                fails[c["id"]] = "no reply from the implementation"
                continue
            hashes = r["extra"]["commits"]
            for k, (op, pre, st) in enumerate(P.steps_of(c, r)):
                forced = (op["op"] == "checkout" and op.get("force")) or (op["op"] == "reset" and op.get("mode") == "hard")
                if not forced or st["res"] != "ok":
                    continue
                tc = P.target_commit(c, op, pre)
                t = P.tree(c, tc)
                if t is None:
                    fails[c["id"]] = "op %d: success on a target that is not a commit" % k
                    break
                post = st["snap"]
                why = self.check(c, k, op, pre, post, st.get("git"), tc, t, hashes)
                if why:
                    fails[c["id"]] = why
                    break
        return fails

    def check(self, c, k, op, pre, post, g, tc, t, hashes):
        if P.head_commit(post) != tc:
            return "op %d: HEAD resolves to %s, target is %s" % (k, P.head_commit(post), tc)
        # ... and HEAD has the shape git gives it: on the branch for a checkout by branch name / with create,
        # detached for a checkout by hash or of a non-branch ref, unchanged in kind for a reset
        if op["op"] == "checkout":
            br = op.get("branch") or "refs/heads/master"
            if op.get("hash", -1) != -1 and not op.get("create"):
                want = ["det", tc]
            elif br.startswith("refs/heads/"):
                want = ["sym", br]
            else:
                want = ["det", tc]
        else:
            want = ["det", tc] if pre["head"][0] == "det" else pre["head"]
        if post["head"] != want:
            return "op %d: HEAD is %s, expected %s" % (k, post["head"], want)
        pidx, pwt = P.fmap(post["index"]), P.fmap(post["wt"])
        if pidx != t:
            return "op %d: index differs from the target tree: %s" % (k, sorted(set(pidx.items()) ^ set(t.items()))[:3])
        for p, e in sorted(t.items()):
            if pwt.get(p) != e:
                return "op %d: tracked %s is %s on disk, target has %s" % (k, p, pwt.get(p), e)
        prewt, preidx = P.fmap(pre["wt"]), P.fmap(pre["index"])
        for p, e in sorted(prewt.items()):
            if p in preidx or p in t or conflicts(p, t):
                continue
            if pwt.get(p) != e:
                hd = P.tree(c, P.head_commit(pre)) or {}
                if any(p.startswith(q + "/") and q not in t for q in hd):
                    return "untracked-lost:under-deleted-head-path op %d: untracked %s was %s, now %s" % (k, p, e, pwt.get(p))
                return "untracked-lost%s op %d: untracked %s (not in the target) was %s, now %s" % (
                    ":in-head-tree" if p in hd else "", k, p, e, pwt.get(p))
        hd = P.tree(c, P.head_commit(pre)) or {}
        for p, e in sorted(preidx.items()):
            # a path that was tracked and that the target does not have must be gone ("exactly" the target)
            if p in t or conflicts(p, t) or p not in prewt:
                continue
            if p in pwt:
                return "stale-tracked%s op %d: %s was tracked (index %s), is not in the target, and is still on disk as %s" % (
                    ":staged-new" if p not in hd else "", k, p, e, pwt.get(p))
        if g:
            if g["status2"].startswith("ERROR"):
                return "op %d: git status failed: %s" % (k, g["status2"][:200])
            oid, ents = P.parse_status_v2(g["status2"])
            tracked = [e for e in ents if e[0] != "?"]
            if tracked:
                # git compares the index it reads with HEAD's tree and the files with the index
                return "op %d: git status reports tracked changes %s" % (k, tracked[:4])
            if oid != hashes[tc]:
                return "op %d: git sees HEAD at %s, target commit is %s" % (k, oid, hashes[tc])
            unt = sorted(e[2] for e in ents if e[0] == "?")
            want = sorted(p for p in pwt if p not in t)
            if unt != want:
                return "op %d: git lists untracked %s, worktree snapshot has %s" % (k, unt[:5], want[:5])
        return None

    def finding_class(self, case, reason, reply):
        if reason.startswith("untracked-lost:in-head-tree"):
            return "hard-reset-deletes-untracked-head-path"
        if reason.startswith("untracked-lost:under-deleted-head-path"):
            return "hard-reset-removes-untracked-dir-at-deleted-path"
        if reason.startswith("stale-tracked:staged-new"):
            return "hard-reset-keeps-staged-new-file"
        return None


OCCUPANTS = ["emptydir", "dir-untracked", "dir-ignored", "file", "link-to-dir", "link-to-file"]
KINDS = ["f", "x", "l", "s"]


class Landing(P.PorcelainSuite):
    """oracle-only region the model excludes (directory/file conflicts): a target entry of every kind (file, executable,
    symlink, gitlink directory) lands on a worktree path occupied by an empty directory, a directory holding an untracked or
    an ignored file, a file, a symlink to a directory or a symlink to a file — through hard reset and every forced checkout
    form.  IF the operation returns nil THEN HEAD, index and tracked worktree content equal the target, git status has no
    tracked change and untracked files outside the target are still there.  A refusal is fine."""
    name = "landing"
    quick_n = 90
    thorough_n = 700

    def gen(self, rng, n, tier):
        cases = []
        combos = [(k, o, hv) for k in KINDS for o in OCCUPANTS for hv in ("absent", "dirtracked", "filetracked")]
        for i in range(n):
            # the first len(combos) cases walk the whole grid (72), the rest are random
            k, occ, hv = combos[i] if i < len(combos) and tier == "thorough" else rng.choice(combos)
            if i < len(combos) and tier != "thorough":
                k, occ, hv = combos[(i * 7 + rng.randrange(7)) % len(combos)]
            p = rng.choice(["d", "d", "sub/d"])
            base = [["a", "f", "A\n"], ["keepdir/k", "f", "K\n"], [".gitignore", "f", "*.ign\n"]]
            if p.startswith("sub/"):
                base.append(["sub/keep", "f", "S\n"])
            if k == "l":
                tent = [p, "l", rng.choice(["a", "keepdir", "nowhere"]) if "/" not in p else rng.choice(["../a", "../keepdir", "nowhere"])]
            elif k == "s":
                tent = [p, "s", ""]
            else:
                tent = [p, k, rng.choice(["T\n", "", "x"])]
            head = [list(e) for e in base]
            wt = [list(e) for e in base]
            if hv == "dirtracked":
                head.append([p + "/x", "f", "X\n"])
                wt.append([p + "/x", "f", "X\n"])
                if rng.random() < 0.3:
                    head.append([p + "/deep/y", "x", "Y\n"])
                    wt.append([p + "/deep/y", "x", "Y\n"])
                occ = occ if occ in ("dir-untracked", "dir-ignored") else rng.choice(["dir-untracked", "dir-ignored", "none"])
            elif hv == "filetracked":
                hk = rng.choice(["f", "l", "x"])
                he = [p, hk, ("a" if "/" not in p else "../a") if hk == "l" else "H\n"]
                head.append(he)
                if rng.random() < 0.4:
                    wt.append(list(he))        # clean tracked occupant
                    occ = "none"
            if occ == "emptydir":
                wt.append([p, "d", ""])
            elif occ == "dir-untracked":
                wt.append([p + "/u.txt", "f", "mine\n"])
            elif occ == "dir-ignored":
                wt.append([p + "/u.ign", "f", "ignored\n"])
            elif occ == "file":
                wt.append([p, "f", "occupant\n"])
            elif occ == "link-to-dir":
                wt.append([p, "l", "keepdir" if "/" not in p else "../keepdir"])
            elif occ == "link-to-file":
                wt.append([p, "l", "a" if "/" not in p else "../a"])
            target = [list(e) for e in base] + [tent]
            if rng.random() < 0.2:
                wt.append(["other.txt", "f", "untracked\n"])
            form = rng.choice(["reset", "hash", "branch", "create"])
            if form == "reset":
                op = {"op": "reset", "commit": 1, "mode": "hard"}
            else:
                op = {"op": "checkout", "branch": "", "hash": -1, "create": False, "force": True, "keep": False}
                if form == "hash":
                    op["hash"] = 1
                elif form == "branch":
                    op["branch"] = "refs/heads/other"
                else:
                    op.update({"create": True, "branch": "refs/heads/new", "hash": 1})
            ops = [op]
            if rng.random() < 0.25:
                ops.append({"op": "reset", "commit": 0, "mode": "hard"})
            cases.append({"bucket": "land:%s-on-%s:%s" % (k, occ, hv), "commits": [{"tree": P.norm(head)}, {"tree": P.norm(target)}],
                          "refs": [["refs/heads/master", 0], ["refs/heads/other", 1]], "head": ["sym", "refs/heads/master"],
                          "index": P.norm(head), "wt": P.norm(wt), "ops": ops})
        return cases

    def nontrivial(self, c):
        return True

    def oracle(self, ctx, cases, impl, model):
        fails = {}
        self.succeeded = self.refused = 0
        for c in cases:
            r = impl.get(c["id"])
            if r is None or not (r.get("extra") or {}).get("steps"):
                fails[c["id"]] = "no reply from the implementation"
                continue
            hashes = r["extra"]["commits"]
            for k, (op, pre, st) in enumerate(P.steps_of(c, r)):
                if st["res"] != "ok":
                    self.refused += 1
                    continue
                self.succeeded += 1
                tc = P.target_commit(c, op, pre)
                t = P.tree(c, tc)
                if t is None:
                    fails[c["id"]] = "op %d: success on a target that is not a commit" % k
                    break
                why = self.landed(c, k, op, pre, st["snap"], st.get("git"), tc, t, hashes)
                if why:
                    fails[c["id"]] = why
                    break
        return fails

    def landed(self, c, k, op, pre, post, g, tc, t, hashes):
        if P.head_commit(post) != tc:
            return "op %d: HEAD resolves to %s, target is %s" % (k, P.head_commit(post), tc)
        pidx, pwt = P.fmap(post["index"]), P.fmap(post["wt"])
        if pidx != t:
            return "op %d: index differs from the target tree: %s" % (k, sorted(set(pidx.items()) ^ set(t.items()))[:3])
        dirs = set(post.get("dirs") or [])
        for p, e in sorted(t.items()):
            if e[0] == "s":
                if p not in dirs:
                    return "op %d: gitlink %s is not a directory on disk (%s)" % (k, p, pwt.get(p))
            elif pwt.get(p) != e:
                return "op %d: tracked %s is %s on disk%s, target has %s" % (k, p, pwt.get(p), " (a directory)" if p in dirs else "", e)
        prewt, preidx = P.fmap(pre["wt"]), P.fmap(pre["index"])
        for p, e in sorted(prewt.items()):
            if e[0] == "d" or p in preidx or p in t or conflicts(p, t):
                continue
            if pwt.get(p) != e:
                hd = P.tree(c, P.head_commit(pre)) or {}
                if any(p.startswith(q + "/") and q not in t for q in hd):
                    return "untracked-lost:under-deleted-head-path op %d: untracked %s was %s, now %s" % (k, p, e, pwt.get(p))
                return "op %d: untracked %s (not in the target, not in its way) was %s, now %s" % (k, p, e, pwt.get(p))
        if g:
            if g["status2"].startswith("ERROR"):
                return "op %d: git status failed: %s" % (k, g["status2"][:200])
            oid, ents = P.parse_status_v2(g["status2"])
            tracked = [e for e in ents if e[0] != "?"]
            if tracked:
                return "op %d: git status reports tracked changes %s" % (k, tracked[:4])
            if oid != hashes[tc]:
                return "op %d: git sees HEAD at %s, target commit is %s" % (k, oid, hashes[tc])
        return None

    def finding_class(self, case, reason, reply):
        if reason.startswith("untracked-lost:under-deleted-head-path"):
            return "hard-reset-removes-untracked-dir-at-deleted-path"
        return None

    def extra(self, ctx, cases, impl, model):
        return {"landing_ops_succeeded": getattr(self, "succeeded", 0), "landing_ops_refused": getattr(self, "refused", 0)}


SUITES = [Main(), Landing()]
