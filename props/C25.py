"""C25 Checkout and hard reset materialise exactly the target commit (DESIGN.md §4.C25)."""
from vf.gen import pick_weighted
from props import porcelain_lib as P

ID = "C25"
THEOREMS = ["C25_reset_hard", "C25_checkout_force", "C25_clean_status", "C25_untracked_refuted", "C25_untracked_partial", "C25_staged_new_refuted"]
MODEL_FILES = ["Porcelain.v"]
MODELLED = ("worktree.go: Checkout, createBranch, getCommitFromCheckoutOptions, setHEADToCommit/Branch, Reset (all five modes), "
            "resetIndex, resetWorktree, resetWorktreeToTree (steps 1-2), checkoutChange, containsUnstagedChanges, "
            "checkKeepResetConflicts + the part of Status it reads, setHEADCommit, headTree — over flattened trees "
            "path -> (mode, blob) (Model/Porcelain.v); not modelled: merkletrie traversal order and directory/file conflicts "
            "(guard df_free), deleted blobs / nested trees (missing commits, missing root trees, tree/blob hashes as targets ARE modelled), the metadata shortcut of the filesystem noder, sparse dirs / skip-worktree, submodules, "
            "ResetOptions.Files, autocrlf, .gitignore, the billy filesystem calls themselves (exercised by the correspondence)")
TRUSTED = [
    "C-impl: harness/cmd/porcelain builds the repository of each case with go-git plumbing, runs the ops through "
    "Worktree.Checkout / Worktree.Reset and snapshots HEAD, refs, index and worktree after every op; compared with Model/Porcelain.porcelain_run",
    "direct oracle: after every successful forced checkout / hard reset, git 2.39.5 `status --porcelain=v2 --branch -z --untracked-files=all` "
    "on the resulting repository (HEAD oid = target, no tracked change: git's reading of the index equals HEAD's tree and the files equal the index) + byte comparison of the worktree with the target tree and of untracked files with the snapshot before",
]
ASSUMPTIONS = ["object ids are injective on the blobs of a case (contents stand for hashes in the model)",
               "no path of a case is a directory prefix of another one when the model is consulted (df_free); other cases are checked by the oracle only"]
RULE = ("case = repository recipe (2-4 commits derived from each other by content / mode / type changes, refs, HEAD symbolic or detached, "
        "index and worktree derived from HEAD's tree with staged / unstaged / untracked / rm --cached dirt) + 1-4 ops; buckets hard, untracked, "
        "rmcached, staged, random, errors, df; non-trivial = has a porcelain op on a non-empty history; distinct by content")


def conflicts(p, paths):
    return any(q.startswith(p + "/") or p.startswith(q + "/") for q in paths)


class Main(P.PorcelainSuite):
    name = "main"
    quick_n = 150
    thorough_n = 1000
    buckets = [(5, "hard"), (3, "untracked"), (3, "rmcached"), (2, "staged"), (2, "random"), (1, "errors"), (1, "missing"), (1, "df")]
    weights = {"force": 6, "plain": 2, "ckeep": 1, "hard": 6, "merge": 1, "keep": 1, "mixed": 1, "soft": 1}

    def oracle(self, ctx, cases, impl, model):
        fails = {}
        for c in cases:
            r = impl.get(c["id"])
            if r is None or not (r.get("extra") or {}).get("steps"):
                fails[c["id"]] = "no reply from the implementation"
                continue
            hashes = r["extra"]["commits"]
            for k, (op, pre, st) in enumerate(P.steps_of(c, r)):
                forced = (op["op"] == "checkout" and op.get("force")) or (op["op"] == "reset" and op.get("mode") == "hard")
                if not forced or st["res"] != "ok":
                    continue
                tc = P.target_commit(c, op, pre)
                t = P.tree(c, tc)
                if t is None:
                    fails[c["id"]] = "op %d: success on a target that is not a commit" % k
                    break
                post = st["snap"]
                why = self.check(c, k, op, pre, post, st.get("git"), tc, t, hashes)
                if why:
                    fails[c["id"]] = why
                    break
        return fails

    def check(self, c, k, op, pre, post, g, tc, t, hashes):
        if P.head_commit(post) != tc:
            return "op %d: HEAD resolves to %s, target is %s" % (k, P.head_commit(post), tc)
        # ... and HEAD has the shape git gives it: on the branch for a checkout by branch name / with create,
        # detached for a checkout by hash or of a non-branch ref, unchanged in kind for a reset
        if op["op"] == "checkout":
            br = op.get("branch") or "refs/heads/master"
            if op.get("hash", -1) != -1 and not op.get("create"):
                want = ["det", tc]
            elif br.startswith("refs/heads/"):
                want = ["sym", br]
            else:
                want = ["det", tc]
        else:
            want = ["det", tc] if pre["head"][0] == "det" else pre["head"]
        if post["head"] != want:
            return "op %d: HEAD is %s, expected %s" % (k, post["head"], want)
        pidx, pwt = P.fmap(post["index"]), P.fmap(post["wt"])
        if pidx != t:
            return "op %d: index differs from the target tree: %s" % (k, sorted(set(pidx.items()) ^ set(t.items()))[:3])
        for p, e in sorted(t.items()):
            if pwt.get(p) != e:
                return "op %d: tracked %s is %s on disk, target has %s" % (k, p, pwt.get(p), e)
        prewt, preidx = P.fmap(pre["wt"]), P.fmap(pre["index"])
        for p, e in sorted(prewt.items()):
            if p in preidx or p in t or conflicts(p, t):
                continue
            if pwt.get(p) != e:
                hd = P.tree(c, P.head_commit(pre)) or {}
                if any(p.startswith(q + "/") and q not in t for q in hd):
                    return "untracked-lost:under-deleted-head-path op %d: untracked %s was %s, now %s" % (k, p, e, pwt.get(p))
                return "untracked-lost%s op %d: untracked %s (not in the target) was %s, now %s" % (
                    ":in-head-tree" if p in hd else "", k, p, e, pwt.get(p))
        hd = P.tree(c, P.head_commit(pre)) or {}
        for p, e in sorted(preidx.items()):
            # a path that was tracked and that the target does not have must be gone ("exactly" the target)
            if p in t or conflicts(p, t) or p not in prewt:
                continue
            if p in pwt:
                return "stale-tracked%s op %d: %s was tracked (index %s), is not in the target, and is still on disk as %s" % (
                    ":staged-new" if p not in hd else "", k, p, e, pwt.get(p))
        if g:
            if g["status2"].startswith("ERROR"):
                return "op %d: git status failed: %s" % (k, g["status2"][:200])
            oid, ents = P.parse_status_v2(g["status2"])
            tracked = [e for e in ents if e[0] != "?"]
            if tracked:
                # git compares the index it reads with HEAD's tree and the files with the index
                return "op %d: git status reports tracked changes %s" % (k, tracked[:4])
            if oid != hashes[tc]:
                return "op %d: git sees HEAD at %s, target commit is %s" % (k, oid, hashes[tc])
            unt = sorted(e[2] for e in ents if e[0] == "?")
            want = sorted(p for p in pwt if p not in t)
            if unt != want:
                return "op %d: git lists untracked %s, worktree snapshot has %s" % (k, unt[:5], want[:5])
        return None

    def finding_class(self, case, reason, reply):
        if reason.startswith("untracked-lost:in-head-tree"):
            return "hard-reset-deletes-untracked-head-path"
        if reason.startswith("untracked-lost:under-deleted-head-path"):
            return "hard-reset-removes-untracked-dir-at-deleted-path"
        if reason.startswith("stale-tracked:staged-new"):
            return "hard-reset-keeps-staged-new-file"
        return None


SUITES = [Main()]
