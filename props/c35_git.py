"""C-git side of C35: a small fixed repository written without spawning git, the expected behaviour of git on it,
and the drivers that put go-git's encodings in front of the real git 2.39.5 client / server programs.

Repository (linear history, SHA-1): c1 <- c2 <- c3 <- c4; commit ci adds the file f<i>; dates 1700000000 + i*1000
  refs/heads/main -> c4 (HEAD -> refs/heads/main), refs/heads/dev -> c3, refs/tags/lw -> c1, refs/tags/v1 -> tag object of c2
"""
import hashlib
import json
import os
import subprocess
import zlib

GIT_ENV = {"GIT_CONFIG_NOSYSTEM": "1", "GIT_TERMINAL_PROMPT": "0", "GIT_ALLOW_PROTOCOL": "ext:file", "LC_ALL": "C",
           "GIT_AUTHOR_NAME": "a", "GIT_AUTHOR_EMAIL": "a@x", "GIT_COMMITTER_NAME": "a", "GIT_COMMITTER_EMAIL": "a@x"}


def obj(kind, body):
    data = kind.encode() + b" %d\x00" % len(body) + body
    return hashlib.sha1(data).hexdigest(), data


class Repo:
    """the fixed repository and what git must answer about it"""

    def __init__(self):
        self.objects = {}
        self.blob, self.tree, self.commit = {}, {}, {}
        parent = None
        for i in range(1, 5):
            self.blob[i] = self._add("blob", b"%d\n" % i)
            entries = b"".join(b"100644 f%d\x00" % j + bytes.fromhex(self.blob[j]) for j in range(1, i + 1))
            self.tree[i] = self._add("tree", entries)
            t = 1700000000 + i * 1000
            body = b"tree %s\n" % self.tree[i].encode()
            if parent:
                body += b"parent %s\n" % parent.encode()
            body += b"author a <a@x> %d +0000\ncommitter a <a@x> %d +0000\n\nc%d\n" % (t, t, i)
            self.commit[i] = parent = self._add("commit", body)
        self.tag = self._add("tag", b"object %s\ntype commit\ntag v1\ntagger a <a@x> 1700002000 +0000\n\nv1\n" % self.commit[2].encode())
        self.pos = {h: i for i, h in self.commit.items()}
        self.refs = {"refs/heads/main": self.commit[4], "refs/heads/dev": self.commit[3], "refs/tags/lw": self.commit[1],
                     "refs/tags/v1": self.tag}
        self.head = "refs/heads/main"
        self.peeled = {"refs/tags/v1": self.commit[2]}

    def _add(self, kind, body):
        h, data = obj(kind, body)
        self.objects[h] = data
        return h

    def write(self, path, refs=None, config=""):
        """write a bare repository (refs: name -> hash, default all)"""
        os.makedirs(os.path.join(path, "objects"), exist_ok=True)
        os.makedirs(os.path.join(path, "refs", "heads"), exist_ok=True)
        os.makedirs(os.path.join(path, "refs", "tags"), exist_ok=True)
        for h, data in self.objects.items():
            d = os.path.join(path, "objects", h[:2])
            os.makedirs(d, exist_ok=True)
            with open(os.path.join(d, h[2:]), "wb") as f:
                f.write(zlib.compress(data))
        for name, h in (self.refs if refs is None else refs).items():
            p = os.path.join(path, name)
            os.makedirs(os.path.dirname(p), exist_ok=True)
            with open(p, "w") as f:
                f.write(h + "\n")
        with open(os.path.join(path, "HEAD"), "w") as f:
            f.write("ref: %s\n" % self.head)
        with open(os.path.join(path, "config"), "w") as f:
            f.write("[core]\n\trepositoryformatversion = 0\n\tbare = true\n" + config)

    def empty(self, path, config=""):
        os.makedirs(os.path.join(path, "objects"), exist_ok=True)
        os.makedirs(os.path.join(path, "refs", "heads"), exist_ok=True)
        with open(os.path.join(path, "HEAD"), "w") as f:
            f.write("ref: refs/heads/main\n")
        with open(os.path.join(path, "config"), "w") as f:
            f.write("[core]\n\trepositoryformatversion = 0\n\tbare = true\n" + config)

    # ---- expectations
    def tips(self):
        return sorted(set(self.refs.values()))

    def closure_commits(self, h):
        """positions of the commits reachable from a commit or the tag"""
        if h == self.tag:
            h = self.commit[2]
        return set(range(1, self.pos[h] + 1))

    def advertised(self):
        """(name, hash) as upload-pack advertises them (HEAD first, then sorted, peeled after its tag)"""
        out = [("HEAD", self.refs[self.head])]
        for n in sorted(self.refs):
            out.append((n, self.refs[n]))
            if n in self.peeled:
                out.append((n + "^{}", self.peeled[n]))
        return out

    def expect_fetch(self, wants, haves, deepen=None, since=None, nots=(), filt=None, client_shallows=(), include_tag=False):
        """-> dict(shallow=set, unshallow=set, common=list, objects=int) or None when the case is outside the table.
        The table follows what git 2.39.5 was observed to do on this linear history (shallow.c get_shallow_commits: a commit
        whose least distance from the wants is depth-1 is reported shallow, root commits included; with deepen-since /
        deepen-not a commit is shallow when a parent is cut off)."""
        if client_shallows:
            return None                     # the interplay of client shallows with the pack contents is not tabulated
        tag = False
        want_pos = []
        for w in wants:
            if w not in self.pos and w != self.tag:
                return None
            tag = tag or w == self.tag
            want_pos.append(self.pos[self.commit[2]] if w == self.tag else self.pos[w])
        inc = set()
        for p in want_pos:
            inc |= set(range(1, p + 1))
        shallow = set()
        if deepen is not None:
            dist = {p: min(w - p for w in want_pos if w >= p) for p in range(1, 5) if any(w >= p for w in want_pos)}
            inc = {p for p, dd in dist.items() if dd <= deepen - 1}
            shallow = {p for p, dd in dist.items() if dd == deepen - 1}
        if since is not None or nots:
            if since is not None:
                inc = {p for p in inc if 1700000000 + p * 1000 >= since}
            for r in nots:
                if r not in self.refs:
                    return None
                inc -= self.closure_commits(self.refs[r])
            if not all(p in inc for p in want_pos):
                return None
            shallow = {p for p in inc if p > 1 and p - 1 not in inc}
        common = [h for h in haves if h in self.pos]
        have_pos = set()
        for h in common:
            have_pos |= set(range(1, self.pos[h] + 1))
        if common and (deepen is not None or since is not None or nots):
            return None                     # negotiation against a depth request is not tabulated
        commits = inc - have_pos
        blobs = set()
        for p in commits:
            blobs |= set(range(1, p + 1))
        blobs -= have_pos
        n = len(commits)
        if filt in (None, b"blob:limit=1k"):
            n += len(commits) + len(blobs)
        elif filt == b"blob:none":
            n += len(commits)
        elif filt == b"tree:0":
            pass
        else:
            return None
        if tag or (include_tag and 2 in commits):
            n += 1                          # the tag object (asked for, or following its commit with include-tag)
        return {"shallow": {self.commit[p] for p in shallow}, "unshallow": set(), "common": common, "objects": n}


def pkt(payload):
    return b"%04x" % (len(payload) + 4) + payload


def read_pkts(data, pos=0):
    """-> list of (len, payload) until the data ends; stops at a malformed header"""
    out = []
    while pos + 4 <= len(data):
        try:
            n = int(data[pos:pos + 4], 16)
        except ValueError:
            break
        if n < 4:
            out.append((n, b""))
            pos += 4
            continue
        out.append((n, data[pos + 4:pos + n]))
        pos += n
    return out, pos


def sideband(data, chunk=8000):
    out = b""
    for i in range(0, len(data), chunk):
        out += pkt(b"\x01" + data[i:i + chunk])
    return out


def pack_count(stream):
    """number of objects of the packfile in a response: the pkt-lines are read; side-band channel 1 is put together,
    a raw pack starts where the pkt-lines end"""
    pos, band = 0, b""
    while pos + 4 <= len(stream):
        if stream[pos:pos + 4] == b"PACK":
            band = stream[pos:]
            break
        try:
            n = int(stream[pos:pos + 4], 16)
        except ValueError:
            return None
        if n < 4:
            pos += 4
            continue
        p = stream[pos + 4:pos + n]
        pos += n
        if p[:1] == b"\x01":
            band += p[1:]
    if band[:4] != b"PACK" or len(band) < 12:
        return None
    return int.from_bytes(band[8:12], "big")


def git(args, cwd, inp=b"", env=None, timeout=300):
    e = dict(os.environ)
    e.update(GIT_ENV)
    e["HOME"] = cwd
    if env:
        e.update(env)
    try:
        p = subprocess.run(["git"] + args, input=inp, stdout=subprocess.PIPE, stderr=subprocess.PIPE, cwd=cwd, env=e, timeout=timeout)
        return p.returncode, p.stdout, p.stderr
    except subprocess.TimeoutExpired:
        return None, b"", b"timeout"


# ------------------------------------------------------------------ parsing the canonical `out` text of the Coq side
def parse_out(text):
    """( a b ( c ) ) -> nested lists of atoms"""
    toks = text.split()
    pos = 0

    def rd():
        nonlocal pos
        t = toks[pos]
        pos += 1
        if t == "(":
            l = []
            while toks[pos] != ")":
                l.append(rd())
            pos += 1
            return l
        return t
    return rd()


def xb(a):
    """atom xHEX -> bytes"""
    return bytes.fromhex(a[1:])


def opt(v, f=lambda x: x):
    return None if v == "none" else f(v[1])
