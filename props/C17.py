"""C17 All storage backends behave like the same abstract repository (DESIGN.md §4.C17)."""
from vf.core import Suite, coq_bool
from vf.gen import pick_weighted
from props.b10util import parse_expanded as parse_out, show_out, coq_op, coq_universe, coq_nlist, AbsStore

ID = "C17"
THEOREMS = ["C17_memory_refines_partial", "C17_memory_guard_tight", "C17_filesystem_refines_partial",
            "C17_backends_agree_partial", "C17_memory_refuted", "C17_filesystem_refuted_cas",
            "C17_backends_agree_refuted", "C17_loose_filesystem_refines_partial", "C17_loose_delete_then_enumerate",
            "C17_loose_memory"]
MODEL_FILES = ["StorageAPI.v"]
MODELLED = ("storage/memory/storage.go (ReferenceStorage incl. CheckAndSetReference, ObjectStorage, IndexStorage, ConfigStorage, "
            "ShallowStorage, ReflogStorage) as mem_step; storage/filesystem + dotgit at API level as fs_step: SetRef/setRefRwfs/"
            "checkReferenceAndTruncate, Ref, Refs, RemoveRef (packed-refs first)/rewritePackedRefsWithoutRef, PackRefs (hash references only, symbolic ones stay loose), processLine over loose files "
            "(possibly empty) and packed-refs lines (possibly malformed); objects as a set (loose + packed), index/config/shallow/"
            "reflog files as values (Model/StorageAPI.v); storer.LooseObjectStorer DeleteLooseObject / ForEachObjectHash as a layer (lw_step) "
            "that tracks the loose and the packed copies over any of the three state machines (memory: refused / every object); spec: the abstract store (Spec/AStore.v st_step). One filesystem model "
            "for every Options value and object format. Not modelled: Module storers, CountLooseRefs, alternates, directory/file conflicts between reference names, concurrent access, I/O errors; peeled (^) lines of packed-refs "
            "(no storer call writes them)")
TRUSTED = [
    "C-impl: every case is run on storage/memory and on storage/filesystem (memfs / osfs) under several option sets by harness/cmd/c17 and compared with Model/StorageAPI.c17_xrun",
    "oracle: Model/StorageAPI.c17_spec_xrun (the abstract store with loose / packed copies) evaluated in Coq on every case; every backend must answer every call, and the final snapshot, as the abstract store does (memory, which documents that it has no loose objects: DeleteLooseObject refused, ForEachObjectHash = every object); the filesystem option sets of a case must agree with each other",
]
ASSUMPTIONS = ["object ids determine type and size inside a case universe", "billy memfs / osfs behave like a filesystem"]
RULE = ("case = list of storer API calls over 6 reference names (incl. HEAD and a long branch name) x 6 objects (one of a non-storable type), run on memory + 2-3 filesystem "
        "option sets out of {memfs, osfs} x {ExclusiveAccess, UseInMemoryIdx, LargeObjectThreshold=1, cache size 0} x {sha1, sha256}; "
        "buckets refs / objs / misc / logs / mixed / targeted (CAS on absent ref, PackRefs with loose symbolic ref, pack-remove-set, "
        "packfile + loose duplicates, reopen, store - lookup (warms dotgit's object list) - DeleteLooseObject - enumerate with an ExclusiveAccess storer among the backends) "
        "+ loose bucket (setobj / addpack / lookups / delobj / eachhash, deletions aimed at loose copies) + Set/CAS transitions over every pair of value kinds {hash, short symbolic, long symbolic} x "
        "{loose, packed-only, HEAD} (14 sampled per quick run, all 42 in the thorough tier); non-trivial = at least one write; distinct by content")

LONG = "refs/heads/" + "l" * 70          # "ref: <LONG>" is longer than a sha256 reference line
NAMES = ["refs/heads/a", "refs/heads/b", "refs/remotes/o/m", "refs/tags/t", "HEAD", LONG]
HEAD_IDX, LONG_IDX = 4, 5               # Model/StorageAPI.head_name = 4
OBJS = [[3, b"blob zero".hex()], [3, b"b1".hex()], [2, b"".hex()],
        [1, b"tree 4b825dc642cb6eb9a060e54bf8d69288fbee4904\nauthor a <a@b> 1 +0000\ncommitter a <a@b> 1 +0000\n\nm\n".hex()],
        [4, b"object 0000000000000000000000000000000000000001\ntype commit\ntag x\ntagger a <a@b> 1 +0000\n\nt\n".hex()],
        [6, b"not storable".hex()]]
NN, NO = len(NAMES), len(OBJS)
assert NAMES[HEAD_IDX] == "HEAD"
FS_OPTS = ["", "x", "i", "l", "c", "xi", "xl", "ilc", "xilc", "2", "x2", "il2"]
WRITES = {"setref", "cas", "casnil", "delref", "setobj", "setidx", "setcfg", "setshallow", "applog", "dellog", "packrefs", "addpack", "delobj"}


def rval(rng, sym=0.15):
    return ["h", rng.randrange(NO - 1)] if rng.random() >= sym else ["s", rng.randrange(NN)]


class Gen:
    """tracks what an abstract store would hold, so that most calls are meaningful"""

    def __init__(self, rng, risky):
        self.rng, self.risky = rng, risky
        self.refs = {}
        self.loose = set()

    def ref_op(self):
        rng = self.rng
        k = pick_weighted(rng, [(5, "setref"), (3, "cas"), (1, "casnil"), (3, "getref"), (3, "iterrefs"), (2, "delref"), (2, "packrefs")])
        n = rng.randrange(NN)
        if k in ("setref", "casnil"):
            v = rval(rng, 0.2)
            self.refs[n] = v
            return [k, n, v]
        if k == "cas":
            if self.refs and (not self.risky or rng.random() < 0.7):
                n = rng.choice(sorted(self.refs))
            v = rval(rng, 0.25)         # hash -> symbolic and back: the encoded line changes length
            ov = self.refs.get(n, rval(rng, 0.0)) if rng.random() < 0.7 else rval(rng, 0.0)
            cur = self.refs.get(n)
            if cur is not None and (cur[0] == ov[0] == "s" or (cur[0] == "h" and cur == ov)):
                self.refs[n] = v
            return ["cas", n, v, n, ov]
        if k == "delref":
            self.refs.pop(n, None)
            return [k, n]
        if k == "getref":
            return [k, n]
        return [k]

    def obj_op(self):
        rng = self.rng
        k = pick_weighted(rng, [(4, "setobj"), (2, "addpack"), (2, "hasobj"), (2, "sizeobj"), (3, "getobj"), (3, "iterobjs"), (1, "reopen")])
        if k == "setobj":
            return [k, rng.randrange(NO) if rng.random() < 0.15 else rng.randrange(NO - 1)]
        if k == "addpack":
            return [k, sorted(set(rng.randrange(NO - 1) for _ in range(rng.randrange(1, 4))))]
        if k == "getobj":
            o = rng.randrange(NO - 1)
            return [k, pick_weighted(rng, [(2, 0), (2, OBJS[o][0]), (1, rng.randrange(1, 5))]), o]
        if k == "iterobjs":
            return [k, rng.randrange(0, 5)]
        if k == "reopen":
            return [k]
        return [k, rng.randrange(NO - 1)]

    def loose_op(self):
        """object calls with DeleteLooseObject / ForEachObjectHash; deletions mostly hit a loose copy, and a lookup
        (which fills dotgit's object list under ExclusiveAccess) usually precedes them"""
        rng = self.rng
        k = pick_weighted(rng, [(4, "setobj"), (1, "addpack"), (2, "hasobj"), (1, "sizeobj"), (2, "getobj"), (2, "iterobjs"),
                                (4, "delobj"), (4, "eachhash"), (1, "reopen")])
        if k == "setobj":
            o = rng.randrange(NO - 1)
            self.loose.add(o)
            return [k, o]
        if k == "addpack":
            return [k, sorted(set(rng.randrange(NO - 1) for _ in range(rng.randrange(1, 3))))]
        if k == "delobj":
            if self.loose and rng.random() < 0.8:
                o = rng.choice(sorted(self.loose))
                self.loose.discard(o)
                return [k, o]
            return [k, rng.randrange(NO)]
        if k == "getobj":
            o = rng.randrange(NO - 1)
            return [k, rng.choice([0, OBJS[o][0]]), o]
        if k == "iterobjs":
            return [k, rng.choice([0, 0, 3])]
        if k in ("eachhash", "reopen"):
            return [k]
        return [k, rng.choice(sorted(self.loose)) if self.loose and rng.random() < 0.6 else rng.randrange(NO - 1)]

    def misc_op(self):
        rng = self.rng
        k = pick_weighted(rng, [(2, "setidx"), (2, "getidx"), (2, "setcfg"), (2, "getcfg"), (3, "setshallow"), (3, "getshallow"), (1, "reopen")])
        if k in ("setidx", "setcfg"):
            return [k, rng.randrange(0, 4)]
        if k == "setshallow":
            return [k, [rng.randrange(NO - 1) for _ in range(rng.randrange(0, 4))]]
        return [k]

    def log_op(self):
        rng = self.rng
        k = pick_weighted(rng, [(4, "applog"), (3, "getlog"), (2, "dellog")])
        n = rng.randrange(NN)
        return [k, n, rng.randrange(1, 9)] if k == "applog" else [k, n]

    def any_op(self):
        f = pick_weighted(self.rng, [(5, self.ref_op), (4, self.obj_op), (2, self.misc_op), (2, self.log_op), (2, self.loose_op)])
        return f()


def coq_sop(o):
    """-> Coq term of type Model.StorageAPI.xop"""
    if o[0] == "delobj":
        return "XDelLoose %d" % o[1]
    if o[0] == "eachhash":
        return "XEachHash"
    if o[0] == "packrefs":
        return "XOp SPackRefs"
    if o[0] == "addpack":
        return "XOp (SAddPack %s)" % coq_nlist(o[1])
    if o[0] == "reopen":
        return "XOp SReopen"
    return "XOp (SBase (%s))" % coq_op(o)


class LooseStore(AbsStore):
    """the abstract store with the loose / packed copies of every object (python twin of lw_step over spec_sstep,
    Model/StorageAPI.v); loose=False: a storer without loose objects (storage/memory: DeleteLooseObject is refused,
    ForEachObjectHash enumerates every object — python twin of xmem_step)"""

    def __init__(self, objs, loose=True):
        super().__init__(objs)
        self.has_loose, self.loose, self.packed = loose, set(), set()

    def step(self, o):
        k = o[0]
        if k == "delobj":
            if not self.has_loose:
                return ["err", "eNS"]
            if o[1] not in self.loose:
                return ["err", "eNE"]
            self.loose.discard(o[1])
            if o[1] not in self.packed:
                self.objs.discard(o[1])
            return ["ok"]
        if k == "eachhash":
            return ["ok"] + [str(x) for x in sorted(self.loose if self.has_loose else self.objs)]
        r = super().step(o)
        if k == "setobj" and r[0] == "ok":
            self.loose.add(o[1])
        elif k == "addpack":
            self.packed.update(o[1])
        return r


def coq_sops(ops):
    return "[" + "; ".join(coq_sop(o) for o in ops) + "]"


class Main(Suite):
    name = "main"
    go_cmd = "c17"
    coq_imports = "From GoGit Require Import Spec.AStore Model.StorageAPI."
    quick_n = 220
    thorough_n = 2000
    coq_chunk = 200

    def backends(self, rng, exclusive=False):
        """the first backend is the memory storer, the others filesystem storers; exclusive: one storer with
        ExclusiveAccess (dotgit serves lookups and enumerations from its cached object list) and one without"""
        bs = ["memory" if rng.random() < 0.8 else "memory:2"]
        for _ in range(rng.randrange(2, 4)):
            kind = "memfs" if rng.random() < 0.8 else "osfs"
            o = rng.choice(FS_OPTS)
            bs.append(kind + (":" + o if o else ""))
        if exclusive:
            fmt = "2" if "2" in bs[1] else ""
            bs[1] = ("memfs" if rng.random() < 0.8 else "osfs") + ":" + rng.choice(["x", "xi", "xl", "xilc"]) + fmt
            bs[2] = ("memfs" if rng.random() < 0.8 else "osfs") + (":" + rng.choice(["", "i", "l", "ilc"]) + fmt).rstrip(":")
        return bs

    def exhaustive(self, rng):
        """small scope, thorough tier: every sequence of <= 3 calls over two names and two objects"""
        import itertools
        alphabet = [["setref", 0, ["h", 0]], ["setref", 0, ["h", 1]], ["setref", 1, ["s", 0]], ["cas", 0, ["h", 1], 0, ["h", 0]],
                    ["getref", 0], ["iterrefs"], ["delref", 0], ["packrefs"], ["reopen"], ["setobj", 0], ["addpack", [0, 1]],
                    ["iterobjs", 0], ["hasobj", 1], ["delobj", 0], ["eachhash"]]
        cases = []
        for k in (1, 2, 3):
            for seq in itertools.product(alphabet, repeat=k):
                cases.append({"bucket": "exhaustive-%d" % k, "backends": self.backends(rng, exclusive=any(o[0] == "delobj" for o in seq))[:3],
                              "names": NAMES, "objs": OBJS,
                              "ops": [list(o) for o in seq] + [["iterrefs"], ["iterobjs", 0], ["eachhash"]]})
        return cases

    def transitions(self, rng, full):
        """Set / CAS over every pair of value kinds {hash, short symbolic target, long symbolic target} x {loose,
        packed-only, HEAD}: the new encoded reference line is shorter than, as long as or longer than the stored one;
        a read and a listing afterwards, then the way back, a reopen and again a read and a listing"""
        kinds = {"hash": lambda: ["h", rng.randrange(NO - 1)], "symshort": lambda: ["s", 0], "symlong": lambda: ["s", LONG_IDX]}
        combos = [(pl, fk, tk, mode) for pl in ("loose", "packed", "head") for fk in kinds for tk in kinds for mode in ("set", "cas")
                  if not (pl == "packed" and fk != "hash")]
        if not full:
            combos = rng.sample(combos, 14)
        cases = []
        for pl, fk, tk, mode in combos:
            n = HEAD_IDX if pl == "head" else rng.choice([1, 2, 3])
            fv, tv = kinds[fk](), kinds[tk]()
            if fv == tv:
                tv = ["h", (fv[1] + 1) % (NO - 1)] if fv[0] == "h" else ["h", 0]
            ops = [["setref", n, fv]]
            if pl == "packed":
                ops.append(["packrefs"])
            step = (lambda a, b: ["setref", n, b]) if mode == "set" else (lambda a, b: ["cas", n, b, n, a])
            ops += [step(fv, tv), ["getref", n], ["iterrefs"], step(tv, fv), ["getref", n], ["iterrefs"], ["reopen"],
                    ["getref", n], ["iterrefs"]]
            if rng.random() < 0.5:
                ops += [["packrefs"], ["getref", n], ["iterrefs"]]
            cases.append({"bucket": "transition", "backends": self.backends(rng), "names": NAMES, "objs": OBJS, "ops": ops})
        return cases

    def gen(self, rng, n, tier):
        cases = self.exhaustive(rng) if tier == "thorough" else []
        cases += self.transitions(rng, full=tier == "thorough")
        buckets = [(4, "refs"), (3, "objs"), (2, "misc"), (2, "logs"), (4, "mixed"), (3, "targeted"), (3, "loose")]
        for _ in range(n):
            b = pick_weighted(rng, buckets)
            # risky cases may contain the call pattern of the known finding (CAS on an absent reference);
            # the others stay clear of it
            risky = rng.random() < 0.35
            g = Gen(rng, risky)
            ln = pick_weighted(rng, [(3, rng.randrange(1, 6)), (3, rng.randrange(5, 12)), (1, rng.randrange(12, 30))])
            if b == "targeted":
                ops = self.targeted(rng)
            else:
                f = {"refs": g.ref_op, "objs": g.obj_op, "misc": g.misc_op, "logs": g.log_op, "mixed": g.any_op, "loose": g.loose_op}[b]
                ops = [f() for _ in range(ln)]
            if not risky and b != "targeted":
                ops = self.defuse(ops)
            if rng.random() < 0.5:
                ops = ops + [["reopen"]] + [["getref", k] for k in range(NN)] + [["iterrefs"], ["iterobjs", 0], ["getidx"], ["getcfg"], ["getshallow"]]
            deletes = any(o[0] == "delobj" for o in ops)
            cases.append({"bucket": b + ("-risky" if risky and b != "targeted" else ""), "backends": self.backends(rng, exclusive=deletes),
                          "names": NAMES, "objs": OBJS, "ops": ops})
        return cases

    @staticmethod
    def defuse(ops):
        """drop CAS calls on references an abstract store would not hold"""
        refs, out = {}, []
        for o in ops:
            if o[0] in ("setref", "casnil"):
                refs[o[1]] = o[2]
            elif o[0] == "delref":
                refs.pop(o[1], None)
            elif o[0] == "cas":
                cur = refs.get(o[1])
                if cur is None:
                    continue
                if (cur[0] == "s" and o[4][0] == "s") or cur == o[4]:
                    refs[o[1]] = o[2]
            out.append(o)
        return out

    def targeted(self, rng):
        n, m = rng.sample(range(NN), 2)
        t = rng.randrange(13)
        v, w = ["h", rng.randrange(NO - 1)], ["h", rng.randrange(NO - 1)]
        if t == 0:      # CAS on an absent reference
            return [["cas", n, v, n, w], ["getref", n], ["iterrefs"], ["setref", n, w], ["iterrefs"]]
        if t == 1:      # PackRefs with a loose symbolic reference
            return [["setref", n, v], ["setref", m, ["s", n]], ["packrefs"], ["getref", n], ["getref", m], ["iterrefs"], ["delref", n]]
        if t == 2:      # pack, overwrite loose, remove: the packed value must not resurface
            return [["setref", n, v], ["packrefs"], ["getref", n], ["setref", n, w], ["iterrefs"], ["delref", n], ["getref", n], ["iterrefs"]]
        if t == 3:      # pack, CAS against the packed value (no loose file), stale and current
            return [["setref", n, v], ["packrefs"], ["cas", n, w, n, ["h", (v[1] + 1) % (NO - 1)]], ["cas", n, w, n, v], ["getref", n], ["reopen"], ["iterrefs"]]
        if t == 4:      # the same object loose and packed, several packs
            o = rng.randrange(NO - 1)
            return [["setobj", o], ["addpack", [o, (o + 1) % (NO - 1)]], ["iterobjs", 0], ["addpack", [o]], ["iterobjs", OBJS[o][0]],
                    ["getobj", 0, o], ["sizeobj", o], ["reopen"], ["iterobjs", 0], ["hasobj", (o + 1) % (NO - 1)]]
        if t == 5:      # read, write, read (object list caches), then reopen
            o, p = rng.sample(range(NO - 1), 2)
            return [["hasobj", o], ["iterobjs", 0], ["setobj", o], ["hasobj", o], ["getobj", 0, o], ["iterobjs", 0], ["addpack", [p]],
                    ["hasobj", p], ["sizeobj", p], ["iterobjs", 0], ["reopen"], ["hasobj", o], ["hasobj", p]]
        if t == 6:      # index / config / shallow rewrites with a reopen in between
            return [["setidx", 2], ["getidx"], ["setidx", 0], ["getidx"], ["setcfg", 3], ["reopen"], ["getcfg"], ["getidx"],
                    ["setshallow", [1, 2]], ["getshallow"], ["setshallow", []], ["getshallow"], ["reopen"], ["getshallow"]]
        if t == 9:      # CAS whose old reference has another name than the new one
            return [["setref", n, v], ["setref", m, w], ["cas", n, ["h", (v[1] + 1) % (NO - 1)], m, w], ["getref", n],
                    ["cas", n, ["h", (v[1] + 2) % (NO - 1)], m, v], ["getref", n], ["iterrefs"]]
        if t in (10, 11):   # store, look up (fills the object list of an ExclusiveAccess storer), delete the loose copy,
            #                 enumerate / look up with no write in between; then a write and the same questions again
            o, p = rng.sample(range(NO - 1), 2)
            warm = rng.choice([["hasobj", o], ["getobj", 0, p], ["sizeobj", p], ["iterobjs", 0], ["eachhash"], ["hasobj", (o + 1) % (NO - 1)]])
            ask = [["eachhash"], ["iterobjs", 0], ["hasobj", o], ["getobj", 0, o], ["hasobj", p]]
            rng.shuffle(ask)
            ops = [["setobj", o], ["setobj", p]] + ([["addpack", [rng.choice([o, p])]]] if t == 11 else []) + [warm, ["delobj", o]] + ask
            return ops + [["delobj", o], ["setobj", o], ["eachhash"], ["delobj", p], ["eachhash"], ["iterobjs", 0]]
        if t == 12:     # deletion of packed-only / absent / non-storable objects, loose + packed duplicates
            o, p = rng.sample(range(NO - 1), 2)
            return [["addpack", [o]], ["hasobj", o], ["delobj", o], ["eachhash"], ["setobj", o], ["setobj", p], ["eachhash"], ["delobj", o],
                    ["hasobj", o], ["eachhash"], ["iterobjs", 0], ["delobj", NO - 1], ["delobj", p], ["reopen"], ["eachhash"], ["hasobj", p]]
        if t == 7:      # non-storable object type
            return [["setobj", NO - 1], ["hasobj", NO - 1], ["iterobjs", 0], ["getobj", 0, NO - 1], ["sizeobj", NO - 1]]
        # symbolic values and CAS on them
        return [["setref", n, ["s", m]], ["getref", n], ["cas", n, v, n, ["s", m]], ["getref", n], ["setref", m, ["s", n]],
                ["cas", m, w, m, v], ["getref", m], ["iterrefs"]]

    def model_expr(self, c):
        return "(c17_xrun %s %s)%%N" % (coq_universe(c["objs"]), coq_sops(c["ops"]))

    def spec_expr(self, c):
        return "(c17_spec_xrun %s %s)%%N" % (coq_universe(c["objs"]), coq_sops(c["ops"]))

    @staticmethod
    def spec(c, loose=True):
        """the abstract store (python twin of Spec/AStore.v + the loose-object layer, cross-checked in extra());
        loose=False: what a storer without loose objects (memory) owes"""
        st = LooseStore(c["objs"], loose)
        return [[st.step(o) for o in c["ops"]], st.snapshot()]

    def nontrivial(self, c):
        return any(o[0] in WRITES for o in c["ops"])

    @staticmethod
    def first_divergence(ops, got, want):
        """-> None | (index, label, impl value, spec value); index len(ops) = final snapshot"""
        if not isinstance(got, list) or len(got) != 2 or not isinstance(got[0], list) or len(got[0]) != len(ops):
            return (-1, "shape", got, want)
        for i, (g, w) in enumerate(zip(got[0], want[0])):
            if g != w:
                return (i, ops[i][0], g, w)
        if got[1] != want[1]:
            return (len(ops), "snapshot", got[1], want[1])
        return None

    def oracle(self, ctx, cases, impl, model):
        """the property on the implementation: every backend answers like the abstract store"""
        fails = {}
        self._div = {}
        for c in cases:
            r = impl.get(c["id"])
            if r is None:
                fails[c["id"]] = "no reply from the implementation"
                continue
            if r.get("panic"):
                continue
            try:
                got, wants = parse_out(r["out"]), [self.spec(c, loose=False), self.spec(c, loose=True)]
                mo = parse_out(model[c["id"]]) if model.get(c["id"]) else None
            except Exception as e:
                fails[c["id"]] = "unparsable observable: %s" % e
                continue
            # got = ( memory-observable filesystem-observable ) when all filesystem option sets agree
            if not isinstance(got, list) or len(got) != 2:
                fails[c["id"]] = "the filesystem storers of %r give %d different observables: %s" % (
                    c["backends"][1:], len(got) - 1 if isinstance(got, list) else -1, r["out"][:600])
                continue
            divs = []
            for bi, be in enumerate([c["backends"][0], "filesystem"]):
                d = self.first_divergence(c["ops"], got[bi], wants[bi])
                if d is None:
                    continue
                agrees = False
                if mo is not None and d[0] >= 0:
                    if d[0] < len(c["ops"]):
                        agrees = got[bi][0][:d[0] + 1] == mo[bi][0][:d[0] + 1]
                    else:
                        agrees = got[bi] == mo[bi]
                divs.append((be, d, agrees))
            if divs:
                be, d, _ = divs[0]
                where = "final snapshot" if d[0] == len(c["ops"]) else "call %d %r" % (d[0], c["ops"][d[0]] if d[0] >= 0 else None)
                fails[c["id"]] = "%s, %s: backend answers %s, abstract repository %s" % (be, where, show_out(d[2])[:300], show_out(d[3])[:300])
                self._div[c["id"]] = divs
        return fails

    def classify(self, case, be, d, agrees):
        if not agrees:
            return None
        idx, label, g, w = d
        ops = case["ops"]
        if label == "cas" and ops[idx][3] != ops[idx][1]:
            return "cas-compares-the-new-name-not-old-name"
        if be.startswith("memory"):
            return None
        # filesystem
        err = g if isinstance(g, list) and g[:1] == ["err"] else (g[0] if label == "snapshot" and isinstance(g, list) and isinstance(g[0], list) and g[0][:1] == ["err"] else None)
        if err == ["err", "empty_ref_file"]:
            upto = ops[:idx] if idx < len(ops) else ops
            if any(o[0] == "cas" for o in upto):
                return "filesystem-failed-cas-leaves-empty-reference-file"
        return None

    def finding_class(self, case, reason, reply):
        divs = getattr(self, "_div", {}).get(case["id"])
        if not divs:
            return None
        classes = [self.classify(case, be, d, a) for be, d, a in divs]
        if any(c is None for c in classes):
            return None
        return classes[0]

    def extra(self, ctx, cases, impl, model):
        kinds, bes, classes = {}, {}, {}
        for c in cases:
            for o in c["ops"]:
                kinds[o[0]] = kinds.get(o[0], 0) + 1
            for b in c["backends"]:
                bes[b] = bes.get(b, 0) + 1
            r = impl.get(c["id"])
            if r and not r.get("panic"):
                try:
                    got = parse_out(r["out"])
                    for bi, label in enumerate(["memory", "filesystem"][:len(got)]):
                        for o, g in zip(c["ops"], got[bi][0]):
                            k = label + ":" + o[0] + ":" + (g[1] if g[:1] == ["err"] else "ok")
                            classes[k] = classes.get(k, 0) + 1
                except Exception:
                    pass
        # the python abstract store against Spec/AStore.v (evaluated in Coq) on a sample
        sample = cases[:12] + cases[12::max(1, len(cases) // 40)]
        outs = ctx.coq_eval(self.coq_imports, [self.spec_expr(c) for c in sample], chunk=self.coq_chunk)
        bad = 0
        for c, o in zip(sample, outs):
            if o is None or parse_out(o) != self.spec(c):
                bad += 1
                ctx.notes.append("spec_mismatch: python abstract store vs Spec/AStore.v on case %s" % c["id"])
        return {"calls_by_kind": kinds, "answers_by_backend_call_and_class": classes, "backend_runs": bes, "spec_crosscheck_cases": len(sample), "spec_mismatches": bad}


SUITES = [Main()]
