"""C32 Sparse checkout materialises exactly the selected directories (DESIGN.md §4.C32)."""
import os
import re
import subprocess
from vf.core import Suite, coq_hex, coq_list, coq_bool
from vf.gen import pick_weighted

ID = "C32"
THEOREMS = ["C32_exact", "C32_names_kept", "C32_components", "C32_prefix_refuted", "C32_flags", "C32_hard_worktree",
            "C32_target_exact_partial", "C32_merge_switch_refuted"]
MODEL_FILES = ["SparseCheckout.v"]
MODELLED = ("plumbing/format/index/index.go: Index.SkipUnless; worktree.go: treeContainsDirs, Reset (HardReset/MergeReset) and "
            "Checkout (forced/non-forced) through resetIndex, resetWorktree, resetWorktreeToTree steps 1-3, containsUnstagedChanges, "
            "and the merkletrie rule that SkipWorktree index nodes are invisible (Model/SparseCheckout.v, flat path maps); "
            "not modelled: file/directory clashes, modes, symlinks, submodules, .gitignore, KeepReset/MixedReset, the state after a "
            "failed checkoutChange (history stops there)")
TRUSTED = [
    "C-impl: harness/cmd/c32 (Index.SkipUnless; Worktree.Checkout/Reset on memory storage + memfs) vs Model/SparseCheckout on every case",
    "spec S (Spec/SparseSpec.Inside, whole path components) re-implemented in python for the direct oracle and compared with git 2.39.5 "
    "non-cone sparse-checkout patterns '/<dir>/' on a sample of cases (extra: spec_vs_git)",
]
ASSUMPTIONS = ["paths of a case have no file/directory clash and no empty component (generator invariant; what the flat-map model covers)"]
RULE = ("skip suite: names from component alphabets with sibling prefixes (a, ab, a/d), patterns = component prefixes, string prefixes, "
        "whole names, trailing slash, empty, random; hist suite: two commits, untracked files, 1-5 checkout/reset/write operations with "
        "sparse directories incl. nested, sibling-prefix, non-existent, file paths; non-trivial = some pattern is a string prefix of a "
        "name, or the history has >= 1 sparse operation; distinct by content")

H = lambda b: b.hex()
DIRS = [b"a", b"ab", b"a/d", b"b", b"abc/a", b"a/da", b"c/a/b", b"ba"]
BASE = [b"X", b"Y", b"Xa", b"Z.go"]


def inside(d, p):
    return p == d or p.startswith(d + b"/")


def selected(D, p):
    return any(inside(d, p) for d in D)


def comp_prefixes(p):
    parts = p.split(b"/")
    return [b"/".join(parts[:i]) for i in range(1, len(parts))]


# ------------------------------------------------------------------ skip suite

def rname(rng):
    r = rng.random()
    if r < 0.75:
        return rng.choice(DIRS) + b"/" + rng.choice(BASE)
    if r < 0.85:
        return rng.choice(BASE)
    comps = [bytes(rng.choice(b"ab/") for _ in range(rng.randrange(1, 6)))]
    return b"/".join(comps)


def rpattern(rng, names):
    n = rng.choice(names) if names else b"a"
    k = pick_weighted(rng, [(5, "dir"), (3, "strprefix"), (1, "name"), (1, "slash"), (1, "empty"), (1, "longer"), (1, "other"), (1, "rand")])
    if k == "dir":
        ps = comp_prefixes(n)
        return rng.choice(ps) if ps else n
    if k == "strprefix":
        return n[:rng.randrange(0, len(n) + 1)]
    if k == "name":
        return n
    if k == "slash":
        ps = comp_prefixes(n)
        return (rng.choice(ps) if ps else n) + b"/"
    if k == "empty":
        return b""
    if k == "longer":
        return n + rng.choice([b"x", b"/", b"/X"])
    if k == "other":
        return rng.choice(DIRS)
    return bytes(rng.choice(b"ab/X") for _ in range(rng.randrange(0, 5)))


class Skip(Suite):
    name = "skip"
    go_cmd = "c32"
    coq_imports = "From GoGit Require Import Model.SparseCheckout."
    quick_n = 200
    thorough_n = 4000

    def gen(self, rng, n, tier):
        cases = []
        for _ in range(n):
            names = [rname(rng) for _ in range(rng.randrange(1, 8))]
            dirs = [rpattern(rng, names) for _ in range(pick_weighted(rng, [(1, 0), (4, 1), (3, 2), (1, 3)]))]
            cases.append({"bucket": "skip", "kind": "skip", "names": [H(x) for x in names], "dirs": [H(x) for x in dirs],
                          "preskip": rng.random() < 0.5})
        if tier == "thorough":
            # small-scope exhaustion: one name, one pattern over {a,b,/} up to length 3 / 4
            from vf.gen import all_strings
            pats = list(all_strings(b"ab/", 3))
            names = [H(nm) for nm in all_strings(b"ab/", 4) if nm]
            for p in pats:
                cases.append({"bucket": "skip-exh", "kind": "skip", "names": names, "dirs": [H(p)], "preskip": True})
        return cases

    def model_expr(self, c):
        return "c32_skip %s %s %s" % (coq_list([coq_hex(bytes.fromhex(x)) for x in c["names"]]),
                                      coq_list([coq_hex(bytes.fromhex(x)) for x in c["dirs"]]), coq_bool(c["preskip"]))

    def nontrivial(self, c):
        names = [bytes.fromhex(x) for x in c["names"]]
        return any(n.startswith(bytes.fromhex(d)) for d in c["dirs"] for n in names)

    def oracle(self, ctx, cases, impl, model):
        fails = {}
        for c in cases:
            r = impl.get(c["id"])
            names = [bytes.fromhex(x) for x in c["names"]]
            D = [bytes.fromhex(x) for x in c["dirs"]]
            want = "( " + " ".join("false" if selected(D, n) else "true" for n in names) + " )"
            if r is None or r["out"] != want:
                got = (r or {}).get("out", "").strip("() ").split()
                bad = [n for n, g, w in zip(names, got, want.strip("() ").split()) if g != w]
                fails[c["id"]] = "SkipUnless(%r): wrong skip flag for %r" % (D, bad[:3])
        return fails

    def finding_class(self, case, reason, reply):
        return None


# ------------------------------------------------------------------ hist suite

def gen_tree(rng):
    n = rng.randrange(2, 8)
    t = {}
    dirs = rng.sample(DIRS, rng.randrange(2, 6))
    for _ in range(n):
        r = rng.random()
        name = (rng.choice(dirs) + b"/" + rng.choice(BASE)) if r < 0.85 else rng.choice(BASE)
        t[name] = b"A" + name
    return t


def mutate_tree(rng, a):
    b = dict(a)
    for name in list(b):
        r = rng.random()
        if r < 0.25:
            b[name] = b"BB" + name
        elif r < 0.4:
            del b[name]
    for _ in range(rng.randrange(0, 3)):
        name = rng.choice(DIRS) + b"/" + rng.choice(BASE)
        if name not in b:
            b[name] = b"BB" + name
    if not b:
        b[b"a/X"] = b"BBa/X"
    return b


def rdirs(rng, tree, other):
    out = []
    for _ in range(pick_weighted(rng, [(1, 0), (6, 1), (3, 2)])):
        k = pick_weighted(rng, [(8, "dir"), (2, "sibling"), (1, "missing"), (1, "file"), (1, "otherdir"), (1, "slash")])
        names = sorted(tree)
        ps = sorted({p for n in names for p in comp_prefixes(n)})
        if k == "dir" and ps:
            out.append(rng.choice(ps))
        elif k == "sibling" and ps:
            p = rng.choice(ps)
            out.append(p[:max(1, len(p) - 1)] if rng.random() < 0.5 else p)
        elif k == "missing":
            out.append(rng.choice([b"zz", b"a/zz", b"abcd"]))
        elif k == "file":
            out.append(rng.choice(names))
        elif k == "otherdir":
            po = sorted({p for n in other for p in comp_prefixes(n)})
            out.append(rng.choice(po) if po else b"b")
        elif k == "slash" and ps:
            out.append(rng.choice(ps) + b"/")
        elif ps:
            out.append(rng.choice(ps))
    return out


def gen_hist(rng, free=False):
    """free=False: only histories inside the modelled family (see Model/SparseCheckout.v header):
    once a sparse operation has been issued every later operation targets the same commit; a non-forced
    sparse operation is issued only first or when all earlier operations targeted that same commit (also after
    a failed sparse operation); plain writes go to never-tracked names.  free=True: anything (oracle-only suite)."""
    a = gen_tree(rng)
    b = mutate_tree(rng, a)
    untracked = {}
    for _ in range(pick_weighted(rng, [(2, 0), (2, 1), (1, 2)])):
        d = rng.choice(DIRS + [b""])
        nm = (d + b"/" if d else b"") + rng.choice([b"U1", b"U2"])
        untracked[nm] = b"U" + nm
    ops = []
    wcount = 0
    sparse_to = None
    targets = set()
    nrepo = 0
    for k in range(rng.randrange(1, 6)):
        to = rng.choice("ab")
        if sparse_to is not None and not free:
            to = sparse_to
        t, o = (a, b) if to == "a" else (b, a)
        kind = pick_weighted(rng, [(4, "cof"), (3, "co"), (3, "rh"), (1, "rm"), (1, "w"), (1, "m")])
        if k == 0 and rng.random() < 0.5:
            kind = "co"           # the usual first step after clone --no-checkout
        if kind in ("w", "m"):
            wcount += 1
            if kind == "m" or (free and rng.random() < 0.3):
                nm = rng.choice(sorted(set(a) | set(b)))
            else:
                nm = rng.choice(DIRS) + b"/" + rng.choice([b"U1", b"U3"])
            ops.append({"op": "modify" if kind == "m" else "write", "name": H(nm), "content": H(b"WWW" + b"w" * wcount + nm)})
            continue
        dirs = rdirs(rng, t, o)
        if dirs and kind in ("co", "rm") and not free and not (nrepo == 0 or targets == {to}):
            kind = "cof" if kind == "co" else "rh"
        if dirs and sparse_to is None:
            sparse_to = to
        targets.add(to)
        nrepo += 1
        if kind == "cof":
            ops.append({"op": "checkout", "to": to, "force": True, "dirs": [H(d) for d in dirs]})
        elif kind == "co":
            ops.append({"op": "checkout", "to": to, "force": False, "dirs": [H(d) for d in dirs]})
        elif kind == "rh":
            ops.append({"op": "reset", "to": to, "mode": "hard", "dirs": [H(d) for d in dirs], "sv": rng.random() < 0.3})
        else:
            ops.append({"op": "reset", "to": to, "mode": "merge", "dirs": [H(d) for d in dirs], "sv": rng.random() < 0.3})
    return {"bucket": "switch" if free else "hist", "kind": "hist", "a": [[H(k), H(v)] for k, v in sorted(a.items())],
            "b": [[H(k), H(v)] for k, v in sorted(b.items())],
            "untracked": [[H(k), H(v)] for k, v in sorted(untracked.items())], "ops": ops}


TOK = re.compile(r"\(|\)|[^\s()]+")


def parse_out(s):
    """parse the canonical observable text into nested lists / atoms"""
    toks = TOK.findall(s)
    pos = [0]

    def rd():
        t = toks[pos[0]]
        pos[0] += 1
        if t == "(":
            l = []
            while toks[pos[0]] != ")":
                l.append(rd())
            pos[0] += 1
            return l
        if t.startswith("x"):
            try:
                return bytes.fromhex(t[1:])
            except ValueError:
                return t
        return t
    return rd()


def pairs_expr(l):
    return coq_list(['("%s","%s")' % (k, v) for k, v in l])


class Hist(Suite):
    name = "hist"
    go_cmd = "c32"
    coq_imports = "From GoGit Require Import Model.SparseCheckout."
    quick_n = 200
    thorough_n = 3000
    coq_chunk = 100

    def gen(self, rng, n, tier):
        return [gen_hist(rng) for _ in range(n)]

    def model_expr(self, c):
        ops = []
        for o in c["ops"]:
            d = coq_list([coq_hex(bytes.fromhex(x)) for x in o.get("dirs", [])])
            if o["op"] == "checkout":
                ops.append("HCheckout %s %s %s" % (coq_bool(o["to"] == "b"), coq_bool(o["force"]), d))
            elif o["op"] == "reset":
                ops.append("HReset %s %s %s %s" % (coq_bool(o["to"] == "b"), "Hard" if o["mode"] == "hard" else "Merge", d, coq_bool(o["sv"])))
            else:
                ops.append('%s "%s" "%s"' % ("HWrite" if o["op"] == "write" else "HModify", o["name"], o["content"]))
        return "c32_hist %s %s %s %s" % (pairs_expr(c["a"]), pairs_expr(c["b"]), pairs_expr(c["untracked"]), coq_list(ops))

    def nontrivial(self, c):
        return any(o.get("dirs") for o in c["ops"])

    def check_case(self, c, out):
        """the property on the implementation's observations; -> (reason, class) or None"""
        trees = {"a": {bytes.fromhex(k): bytes.fromhex(v) for k, v in c["a"]},
                 "b": {bytes.fromhex(k): bytes.fromhex(v) for k, v in c["b"]}}
        tracked_paths = set(trees["a"]) | set(trees["b"])
        obs = parse_out(out)
        pre_idx = []
        pre_wt = {bytes.fromhex(k): bytes.fromhex(v) for k, v in c["untracked"]}
        for k, o in enumerate(c["ops"]):
            if k >= len(obs):
                break
            ob = obs[k]
            if len(ob) < 3:
                break                      # entry_not_found: history stopped
            st, idx, wt = ob[0], ob[1], {e[0]: e[1] for e in ob[2]}
            if o["op"] in ("write", "modify"):
                pre_wt = wt
                continue
            D = [bytes.fromhex(x) for x in o["dirs"]]
            merge = (o["op"] == "checkout" and not o["force"]) or (o["op"] == "reset" and o["mode"] == "merge")
            if st == "ok" and D:
                T = trees[o["to"]]
                cls = None
                if merge and pre_idx:
                    cls = "nonforced-sparse-switch"
                elif any(e[1] == "true" for e in pre_idx):
                    cls = "sparse-hidden-stale-index"
                for e in idx:
                    name, skip, data = e[0], e[1] == "true", e[2]
                    if skip != (not selected(D, name)):
                        return ("op %d dirs %r: entry %r has skip=%s" % (k, D, name, skip), None)
                    if skip and name in wt:
                        if merge and name not in {x[0] for x in pre_idx}:
                            continue      # an untracked file was already there: a non-forced checkout must leave it (git does too)
                        return ("op %d dirs %r: skip-worktree entry %r is present in the worktree" % (k, D, name), cls if merge else None)
                    if not skip and wt.get(name) != data:
                        return ("op %d dirs %r: selected entry %r not materialised (worktree has %r)" % (k, D, name, wt.get(name)),
                                cls if merge else None)
                for p, data in T.items():
                    if selected(D, p) and wt.get(p) != data:
                        return ("op %d dirs %r: file %r of the target commit lies inside a selected directory but the worktree has %r"
                                % (k, D, p, wt.get(p)), cls)
                for p, data in pre_wt.items():
                    if p not in tracked_paths and wt.get(p) != data:
                        return ("op %d: untracked file %r changed/removed" % (k, p), None)
            pre_idx, pre_wt = idx, wt
        return None

    def oracle(self, ctx, cases, impl, model):
        fails = {}
        self._cls = {}
        for c in cases:
            r = impl.get(c["id"])
            if r is None or r.get("panic"):
                fails[c["id"]] = "no reply / panic"
                continue
            try:
                res = self.check_case(c, r["out"])
            except Exception as e:     # malformed observation = harness fault, surfaced as a failure
                res = ("cannot parse observation: %r" % e, None)
            if res:
                fails[c["id"]] = res[0]
                self._cls[c["id"]] = res[1]
        return fails

    def finding_class(self, case, reason, reply):
        return getattr(self, "_cls", {}).get(case["id"])

    def extra(self, ctx, cases, impl, model):
        return spec_vs_git(ctx, cases)


def spec_vs_git(ctx, cases, limit=25):
    """C-git: S (inside, by components) vs git 2.39.5 with non-cone sparse patterns '/<dir>/' on tree a"""
    n = bad = 0
    env = dict(os.environ, GIT_CONFIG_GLOBAL="/dev/null", GIT_CONFIG_SYSTEM="/dev/null", GIT_AUTHOR_NAME="v", GIT_AUTHOR_EMAIL="v@v",
               GIT_COMMITTER_NAME="v", GIT_COMMITTER_EMAIL="v@v", GIT_AUTHOR_DATE="1700000000 +0000", GIT_COMMITTER_DATE="1700000000 +0000")
    for c in cases:
        if n >= limit:
            break
        tree = {bytes.fromhex(k): bytes.fromhex(v) for k, v in c["a"]}
        ps = sorted({p for nm in tree for p in comp_prefixes(nm)})
        D = [bytes.fromhex(x) for o in c["ops"] for x in o.get("dirs", [])]
        D = [d for d in D if d in ps][:2]
        if not D:
            continue
        n += 1
        d = os.path.join(ctx.tmp, "g%d" % n)
        os.makedirs(d)
        for nm, data in tree.items():
            p = os.path.join(d.encode(), nm)
            os.makedirs(os.path.dirname(p), exist_ok=True)
            open(p, "wb").write(data)
        script = "git init -q . && git add -A && git commit -q -m a && git sparse-checkout set --no-cone %s && git ls-files -t" % \
                 " ".join("'/%s/'" % x.decode() for x in D)
        p = subprocess.run(["/bin/sh", "-c", script], cwd=d, env=env, stdout=subprocess.PIPE, stderr=subprocess.PIPE, timeout=60)
        got = {}
        for line in p.stdout.splitlines():
            tag, nm = line.split(b" ", 1)
            got[nm] = (tag == b"S")
        want = {nm: not selected(D, nm) for nm in tree}
        onfs = {nm: os.path.exists(os.path.join(d.encode(), nm)) for nm in tree}
        if p.returncode != 0 or got != want or any(onfs[nm] == want[nm] for nm in tree):
            bad += 1
            ctx.notes.append("spec_mismatch inside() vs git sparse-checkout: dirs=%r tree=%r git=%r rc=%d %r" % (D, sorted(tree), got, p.returncode, p.stderr[:200]))
    return {"spec_vs_git_cases": n, "spec_mismatches": bad}


class Switch(Hist):
    """unrestricted histories (commit switches while SkipWorktree entries exist, non-forced switches on a populated
    worktree): outside the modelled family, checked with the direct oracle only"""
    name = "switch"
    quick_n = 120
    thorough_n = 2500

    def gen(self, rng, n, tier):
        return [gen_hist(rng, free=True) for _ in range(n)]

    def model_expr(self, c):
        return None

    def extra(self, ctx, cases, impl, model):
        return {}


SUITES = [Skip(), Hist(), Switch()]
