"""C45 Unified patches apply with git and reproduce the target (DESIGN.md §4.C45)."""
import difflib
import json
import os
import re
import subprocess
from vf import core
from vf.core import Suite
from vf.gen import pick_weighted
from props import _b17 as U

ID = "C45"
THEOREMS = ["C45_applies", "C45_lines_are_the_versions", "C45_applies_ctx0_refuted", "C45_applies_ctx0_partial",
            "C45_counts", "C45_changes_preserved", "C45_numstat", "C45_default_context"]
MODEL_FILES = ["Unified.v"]
MODELLED = ("plumbing/format/diff/unified_encoder.go: UnifiedEncoder.Encode, writeFilePatchHeader, appendPathLines, "
            "hunksGenerator.Generate/processHunk/addLineNumbers/processEqualsLines, splitLines, hunk.writeTo/AddOp, op.writeTo; "
            "plumbing/object/patch.go: getFileStatsFromFilePatches (Model/Unified.v); spec: strict-position application of "
            "unified hunks (Spec/HunkApply.v). The line-diff chunk list is an input of the model (section contract: "
            "old = concat(Equal+Delete), new = concat(Equal+Add)). Not modelled: colours, custom src/dst prefixes, "
            "object.filePatchWithContext / submoduleFilePatch (exercised by the tree suite only), sergi/go-diff")
TRUSTED = [
    "C-impl: diff.UnifiedEncoder + object.VerifFileStats on harness-built FilePatch values (harness/cmd/c45) vs Model/Unified c45_run on every case of the hunks suite",
    "direct oracle 1: python strict-position apply of the emitted text (props/C45.py strict_apply) must reproduce Dst(chunks)",
    "direct oracle 2: git apply --cached (git 2.39.5) of the emitted text on an index holding the old blobs must give the new blobs; --unidiff-zero for ctx = 0",
    "tree suite: Tree/Changes.Patch + UnifiedEncoder on in-memory trees; git apply --cached in a repository that holds only the old tree (plus new binary blobs); git diff-tree --numstat",
]
ASSUMPTIONS = ["the chunk list is consistent and normal (no empty chunk, adjacent chunks have different types) — checked on every go-diff answer seen by the check",
               "git apply is run with --unidiff-zero when ctx = 0, as git requires for context-free patches"]
RULE = ("hunks suite: one or more file patches from chunk lists {python difflib edits, go-diff answers, synthetic runs around "
        "ctx/2ctx/2ctx+1 gaps, edits at line 1 / last line, no final newline, CRLF, new/deleted files, mode changes, renames, "
        "abnormal streams (empty / repeated chunk types)} x ctx {0,1,2,3,5}; tree suite: tree pairs as in C44; "
        "non-trivial = at least one non-Equal chunk / differing trees; distinct by content")

OPS = {"equal": 0, "insert": 1, "delete": 2}


# ---------------------------------------------------------------- chunk lists

def chunks_difflib(old, new):
    a, b = U.split_keep(old), U.split_keep(new)
    sm = difflib.SequenceMatcher(None, a, b, autojunk=False)
    out = []
    for tag, i1, i2, j1, j2 in sm.get_opcodes():
        if tag == "equal":
            out.append([0, b"".join(a[i1:i2])])
        else:
            if i2 > i1:
                out.append([2, b"".join(a[i1:i2])])
            if j2 > j1:
                out.append([1, b"".join(b[j1:j2])])
    return out


def src_of(chunks):
    return b"".join(c for o, c in chunks if o != 1)


def dst_of(chunks):
    return b"".join(c for o, c in chunks if o != 2)


def is_normal(chunks):
    return all(c for _, c in chunks) and all(chunks[i][0] != chunks[i + 1][0] for i in range(len(chunks) - 1))


def is_aligned(chunks):
    """every chunk holds whole lines: only the last old-side / new-side chunk may lack the final newline"""
    for side in (2, 1):
        sel = [c for o, c in chunks if o in (0, side)]
        if any(not c.endswith(b"\n") for c in sel[:-1]):
            return False
    return True


def synthetic_chunks(rng, ctx):
    """alternating runs with equal-run lengths around ctx, 2ctx, 2ctx+1"""
    n = rng.randrange(1, 8)
    out = []
    gaps = [0, 1, ctx, ctx + 1, 2 * ctx - 1, 2 * ctx, 2 * ctx + 1, 2 * ctx + 2, 3 * ctx + 1, 12]
    k = 0
    start_equal = rng.random() < 0.6

    def lines(cnt, tag):
        nonlocal k
        res = b""
        for _ in range(cnt):
            k += 1
            res += (rng.choice([b"dup\n", b"x\n"]) if rng.random() < 0.25 else b"%s%d\n" % (tag, k))
        return res
    for i in range(n):
        if i > 0 or start_equal:
            g = max(0, rng.choice(gaps))
            if g > 0:
                out.append([0, lines(g, b"e")])
        kind = rng.choice(["del", "add", "rep", "rep"])
        if kind in ("del", "rep"):
            out.append([2, lines(rng.choice([1, 1, 2, 4]), b"d")])
        if kind in ("add", "rep"):
            out.append([1, lines(rng.choice([1, 1, 2, 4]), b"a")])
    if rng.random() < 0.6:
        g = rng.choice(gaps)
        if g > 0:
            out.append([0, lines(g, b"t")])
    # merge adjacent equal types (normal form)
    res = []
    for o, c in out:
        if res and res[-1][0] == o:
            res[-1][1] += c
        else:
            res.append([o, c])
    # sometimes drop the final newline of the last old / new line
    if res and rng.random() < 0.25:
        if res[-1][0] == 0:
            res[-1][1] = res[-1][1][:-1] or b"z"
        elif len(res) >= 2 and {res[-1][0], res[-2][0]} == {1, 2}:
            which = rng.choice([0, 1, 2])
            if which in (0, 2):
                res[-1][1] = res[-1][1][:-1] or b"z"
            if which in (1, 2):
                res[-2][1] = res[-2][1][:-1] or b"z"
        else:
            res[-1][1] = res[-1][1][:-1] or b"z"
    return res


def go_diff(pairs):
    """ask the implementation's utils/diff.Do (harness c45, mode diff) for its chunk lists"""
    cases = [{"id": i, "mode": "diff", "src": a.hex(), "dst": b.hex()} for i, (a, b) in enumerate(pairs)]
    r = core.run_impl("c45", cases)
    out = []
    for i in range(len(pairs)):
        ch = ((r.get(i) or {}).get("extra") or {}).get("chunks")
        out.append(None if ch is None else [[int(o), bytes.fromhex(c)] for o, c in ch])
    return out


# ---------------------------------------------------------------- S in python: strict application of the emitted text

HUNK_RE = re.compile(rb"^@@ -(\d+)(?:,(\d+))? \+(\d+)(?:,(\d+))? @@")


def parse_patch(text):
    """-> list of files: {"header": [lines], "hunks": [(fs, fc, ts, tc, [(op, line bytes)])]} ; raises ValueError"""
    lines = text.split(b"\n")
    if lines and lines[-1] == b"":
        lines.pop()
    files, i = [], 0
    cur = None
    while i < len(lines):
        l = lines[i]
        if l.startswith(b"diff --git "):
            cur = {"header": [l], "hunks": []}
            files.append(cur)
            i += 1
            continue
        m = HUNK_RE.match(l)
        if m and cur is not None:
            fs, fc, ts, tc = int(m.group(1)), m.group(2), int(m.group(3)), m.group(4)
            fc = 1 if fc is None else int(fc)
            tc = 1 if tc is None else int(tc)
            i += 1
            ops, nf, nt = [], 0, 0
            while (nf < fc or nt < tc) and i < len(lines):
                l = lines[i]
                if not l or l[0:1] not in b" +-":
                    raise ValueError("bad hunk line %r" % l[:40])
                op, body = l[0:1], l[1:] + b"\n"
                i += 1
                if i < len(lines) and lines[i].startswith(b"\\"):
                    body = body[:-1]
                    i += 1
                ops.append((op, body))
                if op in b" -":
                    nf += 1
                if op in b" +":
                    nt += 1
            if nf != fc or nt != tc:
                raise ValueError("hunk counts %d,%d do not match its body %d,%d" % (fc, tc, nf, nt))
            cur["hunks"].append((fs, fc, ts, tc, ops))
            continue
        if cur is None:
            i += 1
            continue
        cur["header"].append(l)
        i += 1
    return files


def strict_apply(hunks, old):
    """old: list of lines with terminators -> new lines; raises ValueError when a position or a line does not fit"""
    out, k = [], 0
    for fs, fc, ts, tc, ops in hunks:
        sf = fs - 1 if fc > 0 else fs
        st = ts - 1 if tc > 0 else ts
        if sf < k or sf > len(old):
            raise ValueError("strict: old-side position %d,%d of a hunk does not fit: %d old lines are consumed, the file has %d" % (fs, fc, k, len(old)))
        out += old[k:sf]
        k = sf
        if st != len(out):
            raise ValueError("strict: new-side position %d,%d of a hunk is wrong: %d lines precede it in the result" % (ts, tc, len(out)))
        for op, body in ops:
            if op in b" -":
                if k >= len(old) or old[k] != body:
                    raise ValueError("strict: context/deleted line does not match the old file at line %d" % (k + 1))
                k += 1
            if op in b" +":
                out.append(body)
    return out + old[k:]


# ---------------------------------------------------------------- git drivers

def git_apply_index(repo, tmp, tag, entries, patch, ctx0):
    """entries: {path: (mode, blob id)} -> ({path: (mode, id)} after git apply --cached, stderr) or (None, stderr)"""
    idx = os.path.join(tmp, "idx-%s" % tag)
    env = {"GIT_INDEX_FILE": idx}
    inp = b"".join(("%s %s\t" % (m, h)).encode() + p + b"\0" for p, (m, h) in entries.items())
    repo.git(["update-index", "-z", "--index-info"], input=inp, env=env, check=True)
    args = ["apply", "--cached", "--allow-empty", "--whitespace=nowarn"] + (["--unidiff-zero"] if ctx0 else [])
    p = repo.git(args + ["-"], input=patch, env=env)
    res = None
    if p.returncode == 0:
        q = repo.git(["ls-files", "-s", "-z"], env=env, check=True)
        res = {}
        for rec in q.stdout.split(b"\0"):
            if rec:
                meta, path = rec.split(b"\t", 1)
                m, h, _ = meta.decode().split(" ")
                res[path] = (m.lstrip("0"), h)
    try:
        os.remove(idx)
    except OSError:
        pass
    return res, p.stderr.decode("utf-8", "replace")


def git_apply_many(repo, tmp, items):
    """items: [(tag, {path: (mode, id)}, patch bytes, ctx0)] -> {tag: ({path: (mode, id)} | None, stderr)}
    one shared index, every case below its own directory (git apply --directory)"""
    idx = os.path.join(tmp, "idx-many")
    env = {"GIT_INDEX_FILE": idx}
    inp = b"".join(("%s %s\t" % (m, h)).encode() + b"c%s/" % str(tag).encode() + p + b"\0"
                   for tag, entries, _, _ in items for p, (m, h) in entries.items())
    repo.git(["update-index", "-z", "--index-info"], input=inp, env=env, check=True)
    res = {}
    for tag, entries, patch, ctx0 in items:
        args = ["apply", "--cached", "--allow-empty", "--whitespace=nowarn", "--directory=c%s" % tag] + (["--unidiff-zero"] if ctx0 else [])
        p = repo.git(args + ["-"], input=patch, env=env)
        res[tag] = ({} if p.returncode == 0 else None, p.stderr.decode("utf-8", "replace"))
    q = repo.git(["ls-files", "-s", "-z"], env=env, check=True)
    for rec in q.stdout.split(b"\0"):
        if rec:
            meta, path = rec.split(b"\t", 1)
            m, h, _ = meta.decode().split(" ")
            d, rest = path.split(b"/", 1)
            tag = d[1:].decode()
            for k in res:
                if str(k) == tag and res[k][0] is not None:
                    res[k][0][rest] = (m.lstrip("0"), h)
    try:
        os.remove(idx)
    except OSError:
        pass
    return res


def lcs_len(a, b):
    prev = [0] * (len(b) + 1)
    for x in a:
        cur = [0]
        for j, y in enumerate(b):
            cur.append(prev[j] + 1 if x == y else max(prev[j + 1], cur[j]))
        prev = cur
    return prev[-1]


# ---------------------------------------------------------------- suites

def dfile(path, mode, content):
    return {"path": path.hex(), "mode": mode, "hash": U.obj_id("blob", content)}


class Hunks(Suite):
    name = "hunks"
    go_cmd = "c45"
    coq_imports = "From GoGit Require Import Model.Unified."
    quick_n = 260
    thorough_n = 1500
    coq_chunk = 60

    def gen(self, rng, n, tier):
        cases = []
        buckets = [(4, "edit"), (4, "synthetic"), (3, "go-diff"), (1, "newfile"), (1, "delfile"), (1, "modechange"),
                   (1, "rename"), (1, "multi"), (1, "abnormal"), (1, "message"), (1, "binary-flag")]
        want_go = []
        for k in range(n):
            b = pick_weighted(rng, buckets)
            ctx = pick_weighted(rng, [(4, 3), (2, 1), (2, 0), (1, 2), (1, 5)])
            path = b"f%d" % k
            c = {"bucket": b, "mode": "hunks", "ctx": ctx, "msg": "", "files": []}
            nfiles = rng.choice([2, 3]) if b == "multi" else 1
            for j in range(nfiles):
                p = path + (b"-%d" % j if nfiles > 1 else b"")
                kind = b
                if b in ("multi", "message", "binary-flag"):
                    kind = rng.choice(["edit", "synthetic"])
                if kind == "synthetic":
                    ch = synthetic_chunks(rng, max(ctx, 1))
                elif kind == "newfile":
                    t = U.rand_text(rng, rng.choice(["short", "mid", "nofinal", "oneline", "crlf"]))
                    ch = [[1, t]] if t else []
                elif kind == "delfile":
                    t = U.rand_text(rng, rng.choice(["short", "mid", "nofinal", "oneline"]))
                    ch = [[2, t]] if t else []
                elif kind == "abnormal":
                    ch = synthetic_chunks(rng, max(ctx, 1))
                    r = rng.random()
                    if r < 0.35 and ch:
                        i = rng.randrange(len(ch) + 1)
                        ch.insert(i, [rng.choice([0, 1, 2]), b""])                        # empty chunk
                    elif r < 0.7 and ch:
                        i = rng.randrange(len(ch))
                        ls = U.split_keep(ch[i][1])
                        if len(ls) > 1:
                            cut = rng.randrange(1, len(ls))
                            ch[i:i + 1] = [[ch[i][0], b"".join(ls[:cut])], [ch[i][0], b"".join(ls[cut:])]]   # repeated type
                    else:
                        ch = [[1 if o == 2 else (2 if o == 1 else 0), t] for o, t in ch]     # Add before Delete
                        ch2 = []
                        for o, t in ch:
                            ch2.append([o, t])
                        ch = ch2
                else:
                    old = U.rand_text(rng, rng.choice(["short", "mid", "long", "nofinal", "crlf", "dup", "oneline", "empty"]))
                    new = U.mutate_text(rng, old)
                    if new == old and nfiles > 1:
                        new = old + (b"" if old.endswith(b"\n") or not old else b"\n") + b"extra\n"
                    if b"\0" in old or b"\0" in new:
                        old, new = b"a\nb\n", b"a\nc\n"
                    ch = chunks_difflib(old, new)
                    if kind == "go-diff":
                        want_go.append((c, len(c["files"]), old, new))
                src, dst = src_of(ch), dst_of(ch)
                fm = "100644"
                tm = "100755" if kind == "modechange" else "100644"
                tp = p + b".new" if kind == "rename" else p
                fr = None if kind == "newfile" else dfile(p, fm, src)
                to = None if kind == "delfile" else dfile(tp, tm, dst)
                binary = (b == "binary-flag" and rng.random() < 0.5)
                c["files"].append({"from": fr, "to": to, "binary": binary, "chunks": [[o, t.hex()] for o, t in ch]})
            if b == "message":
                c["msg"] = rng.choice([b"subject\n", b"no newline", b"two\nlines\n", b"\n"]).hex()
            cases.append(c)
        if want_go:
            answers = go_diff([(o, nw) for _, _, o, nw in want_go])
            for (c, fi, old, new), ch in zip(want_go, answers):
                if ch is not None:
                    c["files"][fi]["chunks"] = [[o, t.hex()] for o, t in ch]
        return cases

    @staticmethod
    def chunks_of(f):
        return [[int(o), bytes.fromhex(t)] for o, t in f["chunks"]]

    def model_expr(self, c):
        if c["mode"] != "hunks":
            return None
        fps = []
        for f in c["files"]:
            def df(x):
                return "None" if x is None else '(Some (mk_file "%s" %d%%N "%s"))' % (x["path"], int(x["mode"], 8), x["hash"])
            chs = "[" + "; ".join('(%d%%N, "%s")' % (int(o), t) for o, t in f["chunks"]) + "]"
            fps.append("mk_fp %s %s %s %s" % (df(f["from"]), df(f["to"]), "true" if f.get("binary") else "false", chs))
        return 'c45_run %d%%N "%s" [%s]' % (c["ctx"], c.get("msg", ""), "; ".join(fps))

    def nontrivial(self, c):
        if c["mode"] != "hunks":
            return True
        return any(int(o) != 0 for f in c["files"] for o, _ in f["chunks"])

    def checkable(self, f):
        ch = self.chunks_of(f)
        return is_normal(ch) and is_aligned(ch) and not f.get("binary")

    def oracle(self, ctx, cases, impl, model):
        fails = {}
        repo = U.Repo(os.path.join(ctx.tmp, "c45-hunks-%d" % len(cases)))
        stats = {"strict_checked": 0, "git_applied": 0, "abnormal_skipped": 0}
        pending = []
        for c in cases:
            if c["mode"] != "hunks":
                continue
            r = impl.get(c["id"])
            if r is None or r.get("panic"):
                continue
            e = r.get("extra") or {}
            if "patch" not in e:
                fails[c["id"]] = "no patch produced: %s" % e.get("error")
                continue
            text = bytes.fromhex(e["patch"])
            files = c["files"]
            if not all(self.checkable(f) for f in files):
                stats["abnormal_skipped"] += 1
                continue
            msg = bytes.fromhex(c.get("msg", ""))
            if msg and not msg.endswith(b"\n"):
                msg += b"\n"
            body = text[len(msg):] if text.startswith(msg) else text
            why = None
            try:
                parsed = parse_patch(body)
            except ValueError as ex:
                parsed, why = None, "emitted text is not a well-formed unified diff: %s" % ex
            if parsed is not None and len(parsed) != len(files):
                why = "expected %d file sections, found %d" % (len(files), len(parsed))
            if why is None:
                for f, pf in zip(files, parsed):
                    ch = self.chunks_of(f)
                    old, new = U.split_keep(src_of(ch)), U.split_keep(dst_of(ch))
                    try:
                        got = strict_apply(pf["hunks"], old)
                    except ValueError as ex:
                        why = str(ex)
                        break
                    if got != new:
                        why = "strict: applying the hunks gives a different text than the new version"
                        break
                    na = sum(1 for h in pf["hunks"] for op, _ in h[4] if op == b"+")
                    nd = sum(1 for h in pf["hunks"] for op, _ in h[4] if op == b"-")
                    st = [s for s in e.get("stats") or [] if bytes.fromhex(s["name"]).split(b" => ")[0] in
                          ([bytes.fromhex((f["from"] or f["to"])["path"])])]
                    if len(st) != 1 or (st[0]["add"], st[0]["del"]) != (na, nd):
                        why = "file stats %r differ from the +/- lines of the patch (%d, %d)" % (st, na, nd)
                        break
                stats["strict_checked"] += 1
            if why is None:
                # git apply on an index with the old blobs (batched below)
                entries, want = {}, {}
                for f in files:
                    ch = self.chunks_of(f)
                    if f["from"] is not None:
                        h = U.obj_id("blob", src_of(ch))
                        repo.put(h, "blob", src_of(ch))
                        entries[bytes.fromhex(f["from"]["path"])] = (f["from"]["mode"], h)
                    if f["to"] is not None:
                        want[bytes.fromhex(f["to"]["path"])] = (f["to"]["mode"], U.obj_id("blob", dst_of(ch)))
                pending.append((c, body, entries, want))
            if why:
                fails[c["id"]] = why

        def run_group(group, tag):
            """one git apply for many cases with pairwise disjoint paths; bisect when git refuses"""
            if not group:
                return
            entries, body = {}, b""
            for c, b, en, w in group:
                entries.update(en)
                body += b
            got, err = git_apply_index(repo, ctx.tmp, tag, entries, body, group[0][0]["ctx"] == 0)
            stats["git_applied"] += 1
            if got is None and len(group) > 1:
                if os.environ.get("B17_DEBUG"):
                    print("group of", len(group), "refused:", err[-300:])
                    if len(group) == 2:
                        print(body.decode("utf-8", "replace")[:1500])
                h = len(group) // 2
                run_group(group[:h], tag + "a")
                run_group(group[h:], tag + "b")
                return
            for c, b, en, w in group:
                if got is None:
                    fails[c["id"]] = "git apply refuses the patch: %s" % err.strip().split("\n")[-1][:200]
                else:
                    mine = {p: v for p, v in got.items() if p in w or p in en}
                    if mine != w:
                        fails[c["id"]] = "git apply gives other files than the new versions: %r" % sorted(set(mine.items()) ^ set(w.items()))[:3]

        for zero in (True, False):
            group, used = [], set()
            k = 0
            for item in [x for x in pending if (x[0]["ctx"] == 0) == zero]:
                paths = set(item[2]) | set(item[3])
                if b"\n@@ " not in item[1] and b"\nnew file" not in item[1] and b"\ndeleted file" not in item[1]:
                    # no hunks (identical versions / mode change / pure rename): a section git would not
                    # emit this way in the middle of a patch series — applied on its own
                    run_group([item], "s%s" % item[0]["id"])
                    continue
                if paths & used:
                    run_group(group, "g%d%d" % (zero, k))
                    k += 1
                    group, used = [], set()
                group.append(item)
                used |= paths
            run_group(group, "g%d%d" % (zero, k))
        self.stats = stats
        return fails

    def finding_class(self, case, reason, reply):
        if case.get("mode") == "hunks" and case.get("ctx") == 0:
            # narrow: context-free patch with a hunk that replaces lines (a Delete chunk directly followed by an Add
            # chunk: the new-side start is one too small; the mirror image for Add followed by Delete)
            if reason.startswith("strict: new-side position") or reason.startswith("strict: old-side position"):
                for f in case["files"]:
                    ch = self.chunks_of(f)
                    if any({ch[i][0], ch[i + 1][0]} == {1, 2} for i in range(len(ch) - 1)):
                        return "ctx0-replace-newpos"
        return None

    def extra(self, ctx, cases, impl, model):
        # contract check: every go-diff answer seen is consistent, normal and line aligned
        bad = 0
        for c in cases:
            if c.get("bucket") == "go-diff":
                for f in c["files"]:
                    ch = self.chunks_of(f)
                    if not (is_normal(ch) and is_aligned(ch)):
                        bad += 1
                        ctx.notes.append("go-diff answer violates the chunk contract in case %s" % c["id"])
        return dict(getattr(self, "stats", {}), go_diff_contract_violations=bad)


def type_class(m):
    return {"100644": "file", "100755": "file", "100664": "file", "120000": "link", "160000": "gitlink"}.get(m, m)


class Trees(Suite):
    name = "trees"
    go_cmd = "c45"
    quick_n = 80
    thorough_n = 600

    def gen(self, rng, n, tier):
        cases = []
        for _ in range(n):
            b = pick_weighted(rng, [(5, "mixed"), (1, "empty-a"), (1, "empty-b"), (1, "unrelated"), (1, "slash-order"), (2, "same-content")])
            a, bb = U.rand_tree_pair(rng, b)
            cases.append({"bucket": b, "mode": "tree", "ctx": pick_weighted(rng, [(5, 3), (1, 1), (1, 0), (1, 5)]),
                          "renames": rng.random() < 0.4, "a": a, "b": bb})
        return cases

    def nontrivial(self, c):
        return U.flatten(c["a"]) != U.flatten(c["b"])

    @staticmethod
    def typechanges(c):
        fa, fb = U.flatten(c["a"]), U.flatten(c["b"])
        return [p for p in fa if p in fb and type_class(fa[p][0]) != type_class(fb[p][0])]

    def oracle(self, ctx, cases, impl, model):
        fails = {}
        repo = U.Repo(os.path.join(ctx.tmp, "c45-trees-%d" % len(cases)))
        full = U.Repo(os.path.join(ctx.tmp, "c45-trees-full-%d" % len(cases)))
        stats = {"git_applied": 0, "numstat_files": 0, "numstat_nonminimal": 0, "numstat_differs_from_git": 0}
        pairs = [(full.put_tree(c["a"]), full.put_tree(c["b"])) for c in cases]
        inp = "".join("%s %s\n" % p for p in pairs).encode()
        ns = full.git(["diff-tree", "-r", "-z", "--numstat", "--no-renames", "--stdin"], input=inp, check=True).stdout
        pos = 0
        gstats, items = {}, []
        for c, (ha, hb) in zip(cases, pairs):
            hdr = ("%s %s\n" % (ha, hb)).encode()
            assert ns[pos:pos + len(hdr)] == hdr
            pos += len(hdr)
            gstat = {}
            while pos < len(ns) and not re.match(rb"[0-9a-f]{40} [0-9a-f]{40}\n", ns[pos:pos + 82]):
                e = ns.index(b"\0", pos)
                a_, d_, p_ = ns[pos:e].split(b"\t", 2)
                pos = e + 1
                gstat[p_] = (a_.decode(), d_.decode())
            gstats[c["id"]] = gstat
            r = impl.get(c["id"])
            if r is None or r.get("panic"):
                continue
            e = r.get("extra") or {}
            if "patch" not in e:
                fails[c["id"]] = "no patch produced: %s" % e.get("error")
                continue
            # the receiving repository: the old tree, and the new versions of binary files (a text patch cannot carry them)
            repo.put_tree(c["a"])
            olds = U.contents(c["a"])
            isbin = lambda x: x is not None and b"\0" in x[:8000]
            for p, body in U.contents(c["b"]).items():
                if isbin(body) or any(isbin(x) for x in olds.values()):
                    repo.put(U.obj_id("blob", body), "blob", body)
            items.append((c["id"], U.flatten(c["a"]), bytes.fromhex(e["patch"]), c["ctx"] == 0))
        applied = git_apply_many(repo, ctx.tmp, items)
        stats["git_applied"] = len(items)
        for c in cases:
            if c["id"] not in applied:
                continue
            gstat = gstats[c["id"]]
            e = impl[c["id"]].get("extra") or {}
            fa, fb = U.flatten(c["a"]), U.flatten(c["b"])
            ca, cb = U.contents(c["a"]), U.contents(c["b"])
            got, err = applied[c["id"]]
            nm = lambda d: {p: (U.norm_mode(v[0]), v[1]) for p, v in d.items()}
            if got is None:
                fails[c["id"]] = "git apply refuses the patch: %s" % err.strip().split("\n")[0][:200]
                continue
            if nm(got) != nm(fb):
                fails[c["id"]] = "git apply gives another tree than the second one: %r" % sorted(set(nm(got).items()) ^ set(nm(fb).items()))[:3]
                continue
            if c["renames"]:
                continue
            # line statistics
            st = {bytes.fromhex(s["name"]): (s["add"], s["del"]) for s in e.get("stats") or []}
            tc = set(self.typechanges(c))
            for p, (ga, gd) in gstat.items():
                if p in tc or type_class((fa.get(p) or fb.get(p))[0]) == "gitlink" or type_class((fb.get(p) or fa.get(p))[0]) == "gitlink":
                    continue
                stats["numstat_files"] += 1
                if ga == "-":
                    if p in st:
                        fails[c["id"]] = "line statistics for the binary file %r" % p
                    continue
                if p not in st:
                    fails[c["id"]] = "no line statistics for %r (git diff --numstat: %s %s)" % (p, ga, gd)
                    continue
                a, d = st[p]
                old, new = U.split_keep(ca.get(p, b"")), U.split_keep(cb.get(p, b""))
                l = lcs_len(old, new)
                if a - d != len(new) - len(old) or a < len(new) - l:
                    fails[c["id"]] = "line statistics (%d, %d) of %r are impossible for these versions (git: %s %s)" % (a, d, p, ga, gd)
                elif (str(a), str(d)) != (ga, gd):
                    stats["numstat_differs_from_git"] += 1
                    if a > len(new) - l:
                        stats["numstat_nonminimal"] += 1
            for p in st:
                if p not in gstat:
                    fails[c["id"]] = "line statistics for %r which git diff --numstat does not list" % p
        self.stats = stats
        return fails

    def finding_class(self, case, reason, reply):
        if case.get("mode") == "tree" and reason.startswith("git apply refuses") and "does not match old mode" in reason and self.typechanges(case):
            return "typechange-as-mode-change"
        if case.get("mode") == "tree" and reason.startswith("git apply refuses") and "lacks filename information" in reason:
            fa, fb = U.flatten(case["a"]), U.flatten(case["b"])
            if any(b'"' in p for p in set(fa) | set(fb) if fa.get(p) != fb.get(p)):
                return "unquoted-doublequote-path"
        return None

    def extra(self, ctx, cases, impl, model):
        return getattr(self, "stats", {})


SUITES = [Hunks(), Trees()]
