"""helpers shared by props/C44.py, C45.py, C46.py (batch b17): git object construction in python,
tree specs, a scratch repository with loose objects written directly, batch git drivers"""
import hashlib
import os
import subprocess
import zlib

GIT = "/usr/bin/git"
GITENV = dict(os.environ, GIT_CONFIG_NOSYSTEM="1", HOME="/nonexistent", GIT_CONFIG_GLOBAL="/dev/null",
              GIT_AUTHOR_NAME="a", GIT_AUTHOR_EMAIL="a@x", GIT_COMMITTER_NAME="c", GIT_COMMITTER_EMAIL="c@x",
              LC_ALL="C", TZ="UTC")


def obj_id(kind, body):
    return hashlib.sha1(kind.encode() + b" " + str(len(body)).encode() + b"\0" + body).hexdigest()


# ---- tree specs:  entry = {"n": hexname, "m": "100644", "c": hexcontent} | {"n","m":"40000","t":[...]} | {"n","m":"160000","h":hex}

def F(name, content, mode="100644"):
    if isinstance(name, str):
        name = name.encode()
    if isinstance(content, str):
        content = content.encode()
    return {"n": name.hex(), "m": mode, "c": content.hex()}


def D(name, children):
    if isinstance(name, str):
        name = name.encode()
    return {"n": name.hex(), "m": "40000", "t": canon(children)}


def L(name, commit_hex):
    if isinstance(name, str):
        name = name.encode()
    return {"n": name.hex(), "m": "160000", "h": commit_hex}


def is_dir(e):
    return "t" in e


def sort_key(e):
    n = bytes.fromhex(e["n"])
    return n + b"/" if is_dir(e) else n


def canon(entries):
    """git's canonical entry order (base_name_compare)"""
    return sorted(entries, key=sort_key)


def entry_hash(e, sink=None):
    if "t" in e:
        return tree_id(e["t"], sink)
    if "h" in e:
        return e["h"]
    body = bytes.fromhex(e["c"])
    h = obj_id("blob", body)
    if sink is not None:
        sink[h] = ("blob", body)
    return h


def tree_body(entries, sink=None):
    out = b""
    for e in entries:
        out += e["m"].encode() + b" " + bytes.fromhex(e["n"]) + b"\0" + bytes.fromhex(entry_hash(e, sink))
    return out


def tree_id(entries, sink=None):
    body = tree_body(entries, sink)
    h = obj_id("tree", body)
    if sink is not None:
        sink[h] = ("tree", body)
    return h


def flatten(entries, prefix=b""):
    """-> {path bytes: (mode str, hash hex)} for non-directory entries"""
    m = {}
    for e in entries:
        p = prefix + bytes.fromhex(e["n"])
        if "t" in e:
            m.update(flatten(e["t"], p + b"/"))
        else:
            m[p] = (e["m"], entry_hash(e))
    return m


def contents(entries, prefix=b""):
    """-> {path: content bytes} for blobs"""
    m = {}
    for e in entries:
        p = prefix + bytes.fromhex(e["n"])
        if "t" in e:
            m.update(contents(e["t"], p + b"/"))
        elif "c" in e:
            m[p] = bytes.fromhex(e["c"])
    return m


def norm_mode(m):
    return "100644" if m == "100664" else m


def map_diff(fa, fb):
    """the abstract spec: set of (kind, path, from, to) between two flattened trees"""
    out = set()
    for p, v in fa.items():
        if p not in fb:
            out.add(("D", p, v, None))
        else:
            w = fb[p]
            if (norm_mode(v[0]), v[1]) != (norm_mode(w[0]), w[1]):
                out.add(("M", p, v, w))
    for p, w in fb.items():
        if p not in fa:
            out.add(("A", p, None, w))
    return out


class Repo:
    """scratch repository; objects are written as loose files by python (no process per object)"""

    def __init__(self, path, bare=True):
        self.path = path
        os.makedirs(path, exist_ok=True)
        subprocess.run([GIT, "init", "-q"] + (["--bare"] if bare else []) + [path], check=True, env=GITENV,
                       stdout=subprocess.DEVNULL, stderr=subprocess.DEVNULL)
        self.gitdir = path if bare else os.path.join(path, ".git")
        self.have = set()

    def put(self, h, kind, body):
        if h in self.have:
            return
        self.have.add(h)
        d = os.path.join(self.gitdir, "objects", h[:2])
        os.makedirs(d, exist_ok=True)
        p = os.path.join(d, h[2:])
        if not os.path.exists(p):
            with open(p, "wb") as f:
                f.write(zlib.compress(kind.encode() + b" " + str(len(body)).encode() + b"\0" + body, 1))

    def put_tree(self, entries):
        sink = {}
        h = tree_id(entries, sink)
        for k, (kind, body) in sink.items():
            self.put(k, kind, body)
        return h

    def put_commit(self, tree, parents, when, msg=b"m\n", who=b"A U Thor <a@x>"):
        body = b"tree " + tree.encode() + b"\n"
        for p in parents:
            body += b"parent " + p.encode() + b"\n"
        body += b"author " + who + b" " + str(when).encode() + b" +0000\n"
        body += b"committer " + who + b" " + str(when).encode() + b" +0000\n\n" + msg
        h = obj_id("commit", body)
        self.put(h, "commit", body)
        return h

    def git(self, args, input=None, cwd=None, check=False, env=None):
        e = dict(GITENV)
        if env:
            e.update(env)
        p = subprocess.run([GIT] + args, input=input, cwd=cwd or self.path, env=e,
                           stdout=subprocess.PIPE, stderr=subprocess.PIPE, timeout=300)
        if check and p.returncode != 0:
            raise RuntimeError("git %r failed: %s" % (args, p.stderr[-500:]))
        return p

    def diff_tree_batch(self, pairs, extra_args=("--no-renames",)):
        """pairs: list of (tree a, tree b) -> list of sets of (status, path, (mode,hash)|None, (mode,hash)|None)"""
        if not pairs:
            return []
        inp = "".join("%s %s\n" % (a, b) for a, b in pairs).encode()
        p = self.git(["diff-tree", "-r", "-z", "--raw", "--no-abbrev"] + list(extra_args) + ["--stdin"], input=inp, check=True)
        buf = p.stdout
        res = []
        pos = 0
        zero = "0" * 40
        for a, b in pairs:
            hdr = ("%s %s\n" % (a, b)).encode()
            if buf[pos:pos + len(hdr)] != hdr:
                raise RuntimeError("diff-tree --stdin: unexpected output at %d: %r" % (pos, buf[pos:pos + 100]))
            pos += len(hdr)
            cur = set()
            res.append(cur)
            while pos < len(buf) and buf[pos:pos + 1] == b":":
                e = buf.index(b"\0", pos)
                f = buf[pos + 1:e].split(b" ")
                pos = e + 1
                e = buf.index(b"\0", pos)
                path = buf[pos:e]
                pos = e + 1
                m1, m2, h1, h2, st = f[0].decode(), f[1].decode(), f[2].decode(), f[3].decode(), f[4].decode()
                path2 = None
                if st[0] in "RC":
                    e = buf.index(b"\0", pos)
                    path2 = buf[pos:e]
                    pos = e + 1
                frm = None if m1 == "000000" else (m1.lstrip("0"), h1)
                to = None if m2 == "000000" else (m2.lstrip("0"), h2)
                cur.add((st[0], path, frm, to, path2))
        return res


# ---------------------------------------------------------------- generators (all randomness from rng)

NAMES = [b"a", b"a.b", b"a-b", b"a0", b"ab", b"b", b"c", b"d", b"e.txt", b"Z", b"_", b"lib", b"src", b"a b", b"x",
         b'a"b', "\u00fc".encode(), b"trail ", b"-dash"]
WORDS = [b"alpha", b"beta", b"gamma", b"delta", b"", b"x", b"}", b"return", b"  foo();", b"end"]
FAKE_COMMITS = ["%040x" % (0x1234567890abcdef * (i + 3) % (1 << 160)) for i in range(3)]


def rand_lines(rng, n, distinct=False, tag=b""):
    if distinct:
        return [tag + b"L%d" % rng.randrange(10 ** 6) + b"-%d" % i for i in range(n)]
    return [rng.choice(WORDS) + (b"" if rng.random() < 0.6 else b"%d" % rng.randrange(4)) for _ in range(n)]


def join_lines(lines, eol=b"\n", final=True):
    if not lines:
        return b""
    s = eol.join(lines)
    return s + eol if final else s


def rand_text(rng, kind=None):
    kind = kind or rng.choice(["short", "short", "mid", "long", "empty", "nofinal", "crlf", "binary", "oneline", "dup"])
    if kind == "empty":
        return b""
    if kind == "binary":
        return bytes(rng.randrange(256) for _ in range(rng.randrange(1, 40))) + b"\0" + b"tail\n"
    if kind == "oneline":
        return rng.choice([b"x", b"x\n", b"\n", b"\r\n", b"only line"])
    n = {"short": rng.randrange(1, 6), "mid": rng.randrange(5, 20), "long": rng.randrange(20, 60)}.get(kind, rng.randrange(1, 12))
    lines = rand_lines(rng, n, distinct=(kind not in ("dup", "short") and rng.random() < 0.5))
    if kind == "dup":
        lines = [rng.choice([b"same", b"same", b"other"]) for _ in range(n)]
    return join_lines(lines, b"\r\n" if kind == "crlf" else b"\n", final=(kind != "nofinal" and rng.random() < 0.9))


def split_keep(s):
    """lines with their terminators (Go strings.SplitAfter without the empty tail)"""
    out = s.split(b"\n")
    res = [x + b"\n" for x in out[:-1]]
    if out[-1] != b"":
        res.append(out[-1])
    return res


def mutate_text(rng, s):
    """a few line edits: delete / insert / replace ranges at the start, middle, end; toggle the final newline"""
    lines = split_keep(s)
    k = rng.choice([1, 1, 2, 3, 5])
    for _ in range(k):
        op = rng.choice(["del", "ins", "rep", "eof", "dupl", "move"])
        n = len(lines)
        pos = rng.choice([0, n, rng.randrange(n + 1), max(0, n - 1)])
        cnt = rng.choice([1, 1, 2, 4])
        new = [x + b"\n" for x in rand_lines(rng, cnt, distinct=rng.random() < 0.5)]
        if lines and not lines[-1].endswith(b"\n") and pos >= n and op in ("ins", "rep"):
            lines[-1] += b"\n"
        if op == "del":
            del lines[pos:pos + cnt]
        elif op == "ins":
            lines[pos:pos] = new
        elif op == "rep":
            lines[pos:pos + cnt] = new
        elif op == "dupl" and lines:
            j = rng.randrange(len(lines))
            l = lines[j] if lines[j].endswith(b"\n") else lines[j] + b"\n"
            lines[pos:pos] = [l]
            if pos >= n and n and not lines[n - 1].endswith(b"\n"):
                lines[n - 1] += b"\n"
        elif op == "move" and len(lines) > 1:
            j = rng.randrange(len(lines))
            l = lines.pop(j)
            if not l.endswith(b"\n"):
                l += b"\n"
            lines.insert(rng.randrange(len(lines) + 1), l)
            for i in range(len(lines) - 1):
                if not lines[i].endswith(b"\n"):
                    lines[i] += b"\n"
        elif op == "eof" and lines:
            if lines[-1].endswith(b"\n"):
                lines[-1] = lines[-1][:-1]
                if lines[-1] == b"":
                    lines.pop()
            else:
                lines[-1] += b"\n"
    return b"".join(lines)


def rand_entry(rng, name, depth, pool):
    r = rng.random()
    if r < 0.22 and depth > 0:
        return D(name, rand_children(rng, depth - 1, pool))
    if r < 0.30:
        return F(name, rng.choice([b"a", b"../x", b"target"]), "120000")
    if r < 0.36:
        return L(name, rng.choice(FAKE_COMMITS))
    mode = "100755" if rng.random() < 0.15 else "100644"
    return F(name, rng.choice(pool), mode)


def rand_children(rng, depth, pool, lo=0, hi=5):
    names = rng.sample(NAMES, rng.randrange(lo, hi + 1))
    return canon([rand_entry(rng, n, depth, pool) for n in names])


def mutate_children(rng, entries, depth, pool, rate=0.4):
    out = []
    for e in entries:
        r = rng.random()
        name = bytes.fromhex(e["n"])
        if r > rate:
            out.append(e)
        elif r < rate * 0.2:
            pass                                                   # delete
        elif r < rate * 0.4:
            out.append(rand_entry(rng, name, depth, pool))         # replace (type change possible)
        elif r < rate * 0.55 and "c" in e:
            out.append(dict(e, m=rng.choice(["100644", "100755", "120000"])))   # mode change
        elif r < rate * 0.75 and "c" in e:
            out.append(dict(e, c=mutate_text(rng, bytes.fromhex(e["c"])).hex()))
        elif "t" in e:
            out.append(D(name, mutate_children(rng, e["t"], depth - 1, pool, rate=min(0.9, rate * 1.5))))
        elif r < rate * 0.9:
            free = [n for n in NAMES if n not in [bytes.fromhex(x["n"]) for x in entries + out]]
            out.append(dict(e, n=rng.choice(free).hex()) if free else e)      # rename within the directory
        else:
            out.append(e)
            free = [n for n in NAMES if n not in [bytes.fromhex(x["n"]) for x in entries + out]]
            if free:
                out.append(dict(e, n=rng.choice(free).hex()))                     # copy
    used = [bytes.fromhex(x["n"]) for x in out]
    for _ in range(rng.choice([0, 0, 1, 2])):
        free = [n for n in NAMES if n not in used]
        if free:
            n = rng.choice(free)
            used.append(n)
            out.append(rand_entry(rng, n, depth, pool))
    # a path has one entry only
    seen, res = set(), []
    for e in out:
        if e["n"] not in seen:
            seen.add(e["n"])
            res.append(e)
    return canon(res)


def rand_tree_pair(rng, bucket="mixed"):
    pool = [rand_text(rng) for _ in range(rng.randrange(2, 6))] + [b""]
    if bucket == "empty-a":
        return [], rand_children(rng, 2, pool, 1)
    if bucket == "empty-b":
        return rand_children(rng, 2, pool, 1), []
    if bucket == "equal":
        a = rand_children(rng, 2, pool, 1)
        return a, a
    if bucket == "unrelated":
        return rand_children(rng, 2, pool, 1), rand_children(rng, 2, pool, 1)
    if bucket == "slash-order":
        ns = [b"a", b"a.b", b"a-b", b"a0", b"ab", b"a b"]
        def side():
            es = []
            for n in rng.sample(ns, rng.randrange(2, len(ns) + 1)):
                es.append(D(n, rand_children(rng, 1, pool, 0, 3)) if rng.random() < 0.5 else F(n, rng.choice(pool)))
            return canon(es)
        return side(), side()
    if bucket == "same-content":
        c = rng.choice(pool)
        def side():
            es = []
            for n in rng.sample(NAMES, rng.randrange(1, 6)):
                if rng.random() < 0.3:
                    es.append(D(n, canon([F(m, c, rng.choice(["100644", "100644", "100755"])) for m in rng.sample(NAMES, rng.randrange(1, 4))])))
                else:
                    es.append(F(n, c if rng.random() < 0.8 else rng.choice(pool), rng.choice(["100644", "100644", "100755"])))
            return canon(es)
        return side(), side()
    a = rand_children(rng, 3, pool, 1, 6)
    return a, mutate_children(rng, a, 3, pool, rate=rng.choice([0.2, 0.5, 0.9]))


def unflatten(flat):
    """{path: (mode, hash)} -> canonical tree spec with 'h' leaves (ids only; for computing the tree id)"""
    root = {}
    for p, (m, h) in flat.items():
        parts = p.split(b"/")
        d = root
        for q in parts[:-1]:
            d = d.setdefault(q, {})
        d[parts[-1]] = (m, h)

    def build(d):
        es = []
        for n, v in d.items():
            if isinstance(v, dict):
                es.append({"n": n.hex(), "m": "40000", "t": build(v)})
            else:
                es.append({"n": n.hex(), "m": v[0], "h": v[1]})
        return canon(es)
    return build(root)


# ---------------------------------------------------------------- histories of one file (C46)

def gen_history(rng, bucket):
    """-> {"commits": [{"parents": [...], "when": t, "content": hex|None}], "head": i, "distinct": bool}
    bucket "distinct*": every version is a sub-sequence of one global ordered universe of pairwise distinct
    lines (so the alignment between any two versions is unique); other buckets duplicate / move / re-add lines."""
    distinct = bucket.startswith("distinct")
    if "twin" in bucket:
        return gen_twin_history(rng, bucket)
    n = rng.choice([2, 3, 3, 4, 5, 6, 7]) if "big" not in bucket else rng.randrange(6, 11)
    merges = "merge" in bucket
    counter = [0]

    def fresh(k):
        out = []
        for _ in range(k):
            counter[0] += 1
            out.append(b"line %d %s" % (counter[0], rng.choice(WORDS)))
        return out

    commits = []        # each: parents, when, ver (list of (rank, text)) or None
    t = 1000000000
    for i in range(n):
        if i == 0:
            parents = []
        elif merges and i >= 2 and rng.random() < 0.4:
            parents = rng.sample(range(i), rng.choice([2, 2, 3]) if i >= 3 else 2)
        elif bucket.endswith("linear") or rng.random() < 0.6:
            parents = [i - 1]
        else:
            parents = [rng.randrange(i)]
        if "equaltime" in bucket:
            when = t
        elif "skew" in bucket and rng.random() < 0.4:
            when = t - rng.randrange(1, 5000)
        else:
            t += rng.randrange(1, 1000)
            when = t
        if not parents:
            ver = [(rng.random(), x) for x in fresh(rng.choice([0, 1, 2, 4, 8, 15]))]
            ver.sort()
        else:
            pv = [commits[p]["ver"] or [] for p in parents]
            if len(parents) == 1:
                base = list(pv[0])
            else:
                r = rng.random()
                if r < 0.25:
                    base = list(pv[rng.randrange(len(pv))])          # identical to one parent
                else:
                    uni = {}
                    for v in pv:
                        for rk, x in v:
                            uni[(rk, x)] = 1
                    keep_all = r < 0.6
                    base = sorted(k for k in uni if keep_all or rng.random() < 0.7)
            # edits
            r = rng.random()
            if r < 0.15:
                ver = base                                            # unchanged
            else:
                ver = list(base)
                for _ in range(rng.choice([1, 1, 2, 3])):
                    op = rng.choice(["del", "ins", "rep"] + ([] if distinct else ["dup", "move", "readd", "same"]))
                    m = len(ver)
                    pos = rng.choice([0, m, rng.randrange(m + 1)])
                    cnt = rng.choice([1, 1, 2, 3])
                    if op in ("del", "rep"):
                        del ver[pos:pos + cnt]
                    if op in ("ins", "rep"):
                        lo = ver[pos - 1][0] if pos > 0 and ver else 0.0
                        hi = ver[pos][0] if pos < len(ver) else 1.0
                        new = sorted((lo + (hi - lo) * rng.random(), x) for x in fresh(cnt))
                        ver[pos:pos] = new
                    if op == "dup" and ver:
                        ver.insert(pos, ver[rng.randrange(len(ver))])
                    if op == "move" and len(ver) > 1:
                        x = ver.pop(rng.randrange(len(ver)))
                        ver.insert(rng.randrange(len(ver) + 1), x)
                    if op == "readd":
                        old = [y for c in commits if c["ver"] for y in c["ver"] if y not in ver]
                        if old:
                            ver.insert(pos, rng.choice(old))
                    if op == "same":
                        ver.insert(pos, (0.5, b"same"))
            if "absent" in bucket and rng.random() < 0.15:
                ver = None
        commits.append({"parents": parents, "when": when, "ver": ver})
    final_nl = rng.random() < 0.85
    out = []
    for c in commits:
        if c["ver"] is None:
            content = None
        else:
            content = join_lines([x for _, x in c["ver"]], b"\n", final=final_nl).hex()
        out.append({"parents": c["parents"], "when": c["when"], "content": content})
    if out[-1]["content"] is None:
        out[-1]["content"] = b"last\n".hex()
    return {"commits": out, "head": n - 1, "distinct": distinct}


def gen_twin_history(rng, bucket):
    """two (or three) branches add the SAME line independently, then are merged: the line survives in several
    parents with different origins, so the parent order decides (git: the first parent that has it).
    Every version stays a sub-sequence of one universe of pairwise distinct lines."""
    k = rng.randrange(0, 5)
    root = sorted((rng.random(), b"root %d" % i) for i in range(k))
    twin = [(rng.random(), b"twin %d" % i) for i in range(rng.choice([1, 1, 2]))]
    nb = rng.choice([2, 2, 3])
    t = 1000000000
    commits = [{"parents": [], "when": t, "ver": root}]
    tips = []
    for b in range(nb):
        own = [(rng.random(), b"own %d.%d" % (b, i)) for i in range(rng.choice([0, 0, 1, 2]))]
        t += rng.randrange(1, 500) if "equaltime" not in bucket else 0
        ver = sorted(root + twin + own)
        if rng.random() < 0.3 and root:
            ver.remove(rng.choice(root))
        commits.append({"parents": [0], "when": t, "ver": ver})
        tips.append(len(commits) - 1)
        if rng.random() < 0.3:
            t += rng.randrange(1, 500)
            ver2 = sorted(ver + [(rng.random(), b"later %d" % b)])
            commits.append({"parents": [tips[-1]], "when": t, "ver": ver2})
            tips[-1] = len(commits) - 1
    order = list(tips)
    rng.shuffle(order)
    t += rng.randrange(1, 500)
    r = rng.random()
    if r < 0.35:
        mver = list(commits[order[rng.randrange(len(order))]]["ver"])      # identical to one parent
    else:
        uni = {}
        for p in order:
            for x in commits[p]["ver"]:
                uni[x] = 1
        mver = sorted(uni)
        if r > 0.8:
            mver = sorted(mver + [(rng.random(), b"merge line")])
    commits.append({"parents": order, "when": t, "ver": mver})
    if rng.random() < 0.4:
        t += rng.randrange(1, 500)
        commits.append({"parents": [len(commits) - 1], "when": t, "ver": sorted(mver + [(rng.random(), b"top")])})
    final_nl = rng.random() < 0.85
    out = [{"parents": c["parents"], "when": c["when"],
            "content": join_lines([x for _, x in c["ver"]], b"\n", final=final_nl).hex()} for c in commits]
    return {"commits": out, "head": len(out) - 1, "distinct": True}
