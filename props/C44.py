"""C44 Tree diffs are complete and agree with git (DESIGN.md §4.C44)."""
import os
from vf.core import Suite, coq_list
from vf.gen import pick_weighted
from props import _b17 as U

ID = "C44"
THEOREMS = ["C44_eq_spec", "C44_complete", "C44_change_meaning", "C44_nodup", "C44_object_layer", "C44_renames_conserve",
            "C44_content_projection_oracle_free", "C44_decode_mode_canonical"]
MODEL_FILES = ["DiffTree.v"]
MODELLED = ("utils/merkletrie: DiffTree/diffNodes/diffNodesSameName/diffDirs, doubleIter + Iter + frame (as the recursive "
            "merge of name-sorted children), Changes.AddRecursiveInsert/Delete; plumbing/object: treeNoder.Hash/IsDir, "
            "newChanges, DiffTreeWithOptions, DetectRenames (detectExactRenames, bestNameMatch, nameSimilarityScore, "
            "similarityMatrix order, claim loops, compactChanges, rename limit) in Model/DiffTree.v; spec map_diff of the "
            "flattened trees in Spec/MapDiff.v. Not modelled: Merkle hashes (structural equality instead, no collisions), "
            "Skip() noders, context cancellation, malformed trees (empty / duplicate names), the content similarity "
            "scoring (similarityIndex) — a parameter of the model, the theorem holds for every score oracle; "
            "index and filesystem noders are not exercised by this check")
TRUSTED = [
    "C-impl: object.DiffTreeWithOptions on in-memory trees (harness/cmd/c44) vs Model/DiffTree c44_plain/c44_exact/c44_content on every case",
    "C-git: git diff-tree -r --no-renames --stdin on the same trees written as loose objects by props/_b17.py (exact set equality, T = modify)",
    "python map_diff over flattened trees (props/_b17.py) as a second, independent oracle; tree ids computed by python must equal go-git's and git's",
]
ASSUMPTIONS = ["tree object ids are collision free (directory hash equality is modelled as structural equality)",
               "trees are well formed: non-empty names, names distinct within a directory (boolean guard tree_ok)"]
RULE = ("case = pair of trees from buckets {mixed edits, empty side, equal, unrelated, names sorting around '/', identical "
        "contents at several paths, type changes file/dir/symlink/gitlink, deprecated mode 100664} x mode {plain, exact "
        "renames, content renames with score/limit grids}; non-trivial = the trees differ; distinct by content")

MODES = {"100644": 0o100644, "100755": 0o100755, "120000": 0o120000, "160000": 0o160000, "40000": 0o40000, "100664": 0o100664}


def tin(entries):
    out = []
    for e in entries:
        if "t" in e:
            out.append('TD "%s" %s' % (e["n"], tin(e["t"])))
        else:
            out.append('TF "%s" %d%%N "%s"' % (e["n"], int(e["m"], 8), U.entry_hash(e)))
    return "[" + "; ".join(out) + "]"


def parse_changes(reply):
    """impl extra -> list of (from|None, to|None) with entries (path bytes, mode str, hash)"""
    res = []
    for ch in (reply.get("extra") or {}).get("changes") or []:
        f, t = ch["from"], ch["to"]
        res.append(((bytes.fromhex(f["path"]), f["mode"], f["hash"]) if f else None,
                    (bytes.fromhex(t["path"]), t["mode"], t["hash"]) if t else None))
    return res


class Main(Suite):
    name = "main"
    go_cmd = "c44"
    coq_imports = "From GoGit Require Import Model.DiffTree."
    quick_n = 200
    thorough_n = 1500
    coq_chunk = 60

    def gen(self, rng, n, tier):
        cases = []
        buckets = [(5, "mixed"), (1, "empty-a"), (1, "empty-b"), (1, "equal"), (1, "unrelated"), (2, "slash-order"),
                   (2, "same-content"), (1, "deprecated-mode")]
        for _ in range(n):
            b = pick_weighted(rng, buckets)
            if b == "deprecated-mode":
                a, bb = U.rand_tree_pair(rng, "mixed")
                def dep(es):
                    return [dict(e, t=dep(e["t"])) if "t" in e else
                            (dict(e, m="100664") if e["m"] == "100644" and rng.random() < 0.5 else e) for e in es]
                a, bb = dep(a), dep(bb)
            else:
                a, bb = U.rand_tree_pair(rng, b)
            cases.append({"bucket": b, "mode": "plain", "a": a, "b": bb})
        return cases

    def model_expr(self, c):
        if c["mode"] == "plain":
            return "c44_plain %s %s" % (tin(c["a"]), tin(c["b"]))
        if c["mode"] == "exact":
            return "c44_exact %d%%N %s %s" % (c.get("limit", 0), tin(c["a"]), tin(c["b"]))
        return "c44_content %d%%N %s %s" % (c.get("limit", 0), tin(c["a"]), tin(c["b"]))

    def nontrivial(self, c):
        return U.flatten(c["a"]) != U.flatten(c["b"])

    def show(self, c):
        return c

    def oracle(self, ctx, cases, impl, model):
        fails = {}
        repo = U.Repo(os.path.join(ctx.tmp, "c44-%s-%d" % (self.name, len(cases))))
        pairs = [(repo.put_tree(c["a"]), repo.put_tree(c["b"])) for c in cases]
        gits = repo.diff_tree_batch(pairs)
        self.stats = {"git_pairs": len(pairs), "git_changes": sum(len(g) for g in gits)}
        for c, (ha, hb), g in zip(cases, pairs, gits):
            r = impl.get(c["id"])
            if r is None or r.get("panic"):
                continue
            e = r.get("extra") or {}
            if e.get("a") != ha or e.get("b") != hb:
                fails[c["id"]] = "tree ids differ: go-git %s %s, git %s %s" % (e.get("a"), e.get("b"), ha, hb)
                continue
            if "error" in e:
                fails[c["id"]] = "DiffTree failed on well-formed trees: " + e["error"]
                continue
            fa, fb = U.flatten(c["a"]), U.flatten(c["b"])
            spec = U.map_diff(fa, fb)
            nmv = lambda v: (U.norm_mode(v[0]), v[1]) if v else None
            want = set((("M" if s == "T" else s), p, nmv(f), nmv(t)) for s, p, f, t, _ in g)
            spec_n = set((k, p, nmv(f), nmv(t)) for k, p, f, t in spec)
            if spec_n != want:
                ctx.notes.append("spec_mismatch map_diff vs git diff-tree on case %s" % c["id"])
            chs = parse_changes(r)
            if c["mode"] == "plain":
                got = set()
                for f, t in chs:
                    k = "M" if f and t else ("D" if f else "A")
                    if f and t and f[0] != t[0]:
                        k = "R"
                    got.add((k, (t or f)[0], nmv((f[1], f[2])) if f else None, nmv((t[1], t[2])) if t else None))
                if len(got) != len(chs):
                    fails[c["id"]] = "duplicate changes reported"
                elif got != want:
                    fails[c["id"]] = "changes differ from git diff-tree -r --no-renames: only go-git %r, only git %r" % (
                        sorted(got - want)[:3], sorted(want - got)[:3])
                else:
                    # completeness: applying the changes to flatten(a) gives flatten(b)
                    m = dict(fa)
                    for f, t in chs:
                        if f:
                            m.pop(f[0], None)
                    for f, t in chs:
                        if t:
                            m[t[0]] = (t[1], t[2])
                    nm = lambda d: {p: (U.norm_mode(v[0]), v[1]) for p, v in d.items()}
                    if nm(m) != nm(fb):
                        fails[c["id"]] = "applying the reported changes to the first tree does not give the second"
            else:
                # conservation: From sides = deletions + modify-froms of the plain diff, To sides likewise,
                # every pairing of different paths joins a plain deletion with a plain insertion
                dels = {p: f for k, p, f, t in spec if k == "D"}
                adds = {p: t for k, p, f, t in spec if k == "A"}
                mods = {p: (f, t) for k, p, f, t in spec if k == "M"}
                want_from = sorted([(p, v) for p, v in dels.items()] + [(p, v[0]) for p, v in mods.items()])
                want_to = sorted([(p, v) for p, v in adds.items()] + [(p, v[1]) for p, v in mods.items()])
                got_from = sorted((f[0], (f[1], f[2])) for f, t in chs if f)
                got_to = sorted((t[0], (t[1], t[2])) for f, t in chs if t)
                why = None
                def delta(want, got):
                    import collections
                    w, g = collections.Counter(want), collections.Counter(got)
                    return "lost %r invented or used twice %r" % (sorted((w - g).elements())[:3], sorted((g - w).elements())[:3])
                if got_from != want_from:
                    why = "From sides are not the deletions+modifications of the plain diff: " + delta(want_from, got_from)
                elif got_to != want_to:
                    why = "To sides are not the insertions+modifications of the plain diff: " + delta(want_to, got_to)
                else:
                    for f, t in chs:
                        if f and t and f[0] != t[0]:
                            if f[0] not in dels or t[0] not in adds:
                                why = "rename %r -> %r does not pair a deletion with an insertion" % (f[0], t[0])
                            elif c["mode"] == "exact" and f[2] != t[2]:
                                why = "exact rename %r -> %r joins different contents" % (f[0], t[0])
                        elif f and t and f[0] not in mods:
                            why = "modification of %r is not in the plain diff" % f[0]
                if why:
                    fails[c["id"]] = why
        return fails

    def finding_class(self, case, reason, reply):
        return None

    def extra(self, ctx, cases, impl, model):
        return getattr(self, "stats", {})


class Renames(Main):
    name = "renames"
    quick_n = 160
    thorough_n = 1500

    def gen(self, rng, n, tier):
        cases = []
        buckets = [(3, "mixed"), (3, "same-content"), (2, "moved"), (2, "many-same"), (1, "unrelated"), (1, "mode-differs"),
                   (3, "edited-move")]
        for _ in range(n):
            b = pick_weighted(rng, buckets)
            if b in ("moved", "many-same", "mode-differs"):
                a, bb = self.moved(rng, b)
            elif b == "edited-move":
                a, bb = self.edited_move(rng)
            else:
                a, bb = U.rand_tree_pair(rng, b)
            mode = pick_weighted(rng, [(3, "exact"), (2, "content")])
            limit = pick_weighted(rng, [(5, 0), (1, 1), (1, 2), (1, 4)])
            score = pick_weighted(rng, [(4, 60), (1, 0), (1, 30), (1, 100)])
            cases.append({"bucket": b, "mode": mode, "score": score, "limit": limit, "a": a, "b": bb})
        return cases

    @staticmethod
    def edited_move(rng):
        """files renamed AND slightly edited (content-similarity phase), several similar candidates per file"""
        base = [U.rand_text(rng, "long") for _ in range(rng.choice([1, 2, 2, 3]))]
        names = [b"a.go", b"b.go", b"c.go", b"d.go", b"e.go", b"f.go", b"g.go"]
        def side(k):
            es = []
            for n in rng.sample(names, k):
                t = rng.choice(base)
                if rng.random() < 0.8:
                    t = U.mutate_text(rng, t)
                es.append(U.F(n, t))
            return es
        a = side(rng.randrange(1, 5))
        b = side(rng.randrange(1, 5))
        if rng.random() < 0.5:
            b = [U.D(b"pkg", b)]
        return U.canon(a), U.canon(b)

    @staticmethod
    def moved(rng, bucket):
        """files with few distinct contents moved between root and directories (exercises every exact-rename branch)"""
        pool = [U.rand_text(rng, "mid") for _ in range(rng.choice([1, 1, 2, 3]))]
        if bucket == "many-same":
            pool = pool[:1]
        names = [b"a", b"b", b"c", b"x.go", b"y.go", b"main.go", b"lib"]
        dirs = [None, None, b"d", b"e", b"d"]

        def side():
            root, sub = [], {}
            for _ in range(rng.randrange(1, 6)):
                d = rng.choice(dirs)
                n = rng.choice(names)
                m = "100755" if (bucket == "mode-differs" and rng.random() < 0.4) else "100644"
                e = U.F(n, rng.choice(pool), m)
                if d is None:
                    if n not in [bytes.fromhex(x["n"]) for x in root]:
                        root.append(e)
                else:
                    sub.setdefault(d, [])
                    if n not in [bytes.fromhex(x["n"]) for x in sub[d]]:
                        sub[d].append(e)
            for d, es in sub.items():
                if d not in [bytes.fromhex(x["n"]) for x in root]:
                    root.append(U.D(d, es))
            return U.canon(root)
        return side(), side()


SUITES = [Main(), Renames()]
