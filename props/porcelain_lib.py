"""Shared by C25 / C29 / C30: case generator, Coq model expression and step
iteration for the `porcelain` harness command (harness/cmd/porcelain).

A case is a repository recipe
  commits: [{"tree": [[path, kind, content], ...]}, ...]     kind: f regular, x executable, l symlink
  refs:    [[full ref name, commit number], ...]            a number >= len(commits) dangles
  head:    ["sym", ref name] | ["det", commit number]
  index, wt: [[path, kind, content], ...]
  ops:     [{"op": "checkout", branch, hash, create, force, keep} | {"op": "reset", commit, mode}
            | {"op": "write", path, kind, content} | {"op": "rm", path}]        hash/commit -1 = zero hash
Paths and contents are plain ASCII (no quotes), so witnesses stay readable.
"""
import hashlib
from vf.core import Suite
from vf.gen import pick_weighted

COQ_IMPORTS = ("From GoGit Require Import Model.Porcelain.\n"
               "Definition u := unhex.\n")

# a directory/file-conflict-free universe (no path is a directory prefix of another) …
PATHS = ["a", "ab", "b", "d/x", "d/y", "d/e/z", "k.txt", "z"]
# … and extra paths that conflict with it (file where a directory is, and the reverse)
DF_PATHS = ["d", "a/b", "ab/c", "d/e"]
CONTENTS = ["A\n", "B\n", "C\n", "", "line1\nline2\n", "x"]
LINKS = ["a", "d/x", "nowhere", "../out"]
BRANCHES = ["refs/heads/master", "refs/heads/other", "refs/heads/f/x", "refs/tags/t"]
MODES = ["mixed", "hard", "merge", "soft", "keep"]
KCOQ = {"f": "KReg", "x": "KExec", "l": "KLink"}


def hx(s):
    return '(u "%s")' % s.encode().hex()


def coq_fmap(ents):
    return "[" + "; ".join("(%s, (%s, %s))" % (hx(p), KCOQ[k], hx(c)) for p, k, c in ents) + "]"


def coq_Z(n):
    return "(%d)%%Z" % n


def coq_op(o):
    if o["op"] == "checkout":
        return "OCheckout (mkCopts %s %s %s %s %s)" % (
            hx(o.get("branch", "")), coq_Z(o.get("hash", -1)), str(bool(o.get("create"))).lower(),
            str(bool(o.get("force"))).lower(), str(bool(o.get("keep"))).lower())
    if o["op"] == "reset":
        return "OReset %s %s" % (coq_Z(o.get("commit", -1)), o["mode"].capitalize())
    if o["op"] == "write":
        return "OWrite %s (%s, %s)" % (hx(o["path"]), KCOQ[o["kind"]], hx(o["content"]))
    if o["op"] == "rm":
        return "ORm %s" % hx(o["path"])
    raise ValueError(o)


def all_paths(c):
    ps = set()
    ps.update(o["path"] for o in c["ops"] if o["op"] == "add")
    for cm in c["commits"]:
        ps.update(e[0] for e in cm["tree"])
    ps.update(e[0] for e in c["index"])
    ps.update(e[0] for e in c["wt"])
    ps.update(o["path"] for o in c["ops"] if o["op"] in ("write", "rm"))
    return ps


def df_free(c):
    """no path of the case is a directory prefix of another one (then a flattened
    merkletrie diff is the per-path comparison the model uses)"""
    ps = sorted(all_paths(c))
    for i, p in enumerate(ps):
        for q in ps[i + 1:]:
            if q.startswith(p + "/"):
                return False
    return True


def in_model(c):
    if not df_free(c):
        return False
    for e in [e for cm in c["commits"] for e in cm["tree"]] + c["index"] + c["wt"]:
        if e[1] not in KCOQ:
            return False
    if c.get("noobject") or c.get("nocommit") or any(o["op"] in ("add", "commit") for o in c["ops"]):
        return False          # corrupt blobs / nested trees, Add and Commit: direct oracle only
    for p in all_paths(c):
        if p == ".gitignore" or p.endswith("/.gitignore") or p.startswith(".git/") or p == ".git":
            return False
    return True


def model_expr(c):
    if not in_model(c):
        return None
    head = "HSym %s" % hx(c["head"][1]) if c["head"][0] == "sym" else "HDet %s" % coq_Z(c["head"][1])
    st = "(mkState [%s] [%s] (%s) %s %s [%s])" % (
        "; ".join(coq_fmap(cm["tree"]) for cm in c["commits"]),
        "; ".join("(%s, %s)" % (hx(n), coq_Z(k)) for n, k in c["refs"]),
        head, coq_fmap(c["index"]), coq_fmap(c["wt"]), "; ".join(coq_Z(k) for k in c.get("notree", [])))
    return "porcelain_run %s [%s]" % (st, "; ".join(coq_op(o) for o in c["ops"]))


# ------------------------------------------------------------------ generator

def rent(rng, p):
    k = pick_weighted(rng, [(6, "f"), (2, "x"), (2, "l")])
    return [p, k, rng.choice(LINKS) if k == "l" else rng.choice(CONTENTS)]


def rtree(rng, paths, density=0.6):
    return [rent(rng, p) for p in paths if rng.random() < density]


def mutate(rng, tree, paths, rate=0.5):
    """a tree derived from `tree`: per path keep / modify content / change mode / swap type / delete / add"""
    cur = {e[0]: e for e in tree}
    out = []
    for p in paths:
        e = cur.get(p)
        r = rng.random()
        if e is None:
            if r < 0.25 * rate * 2:
                out.append(rent(rng, p))
            continue
        if r > rate:
            out.append(list(e))
            continue
        a = pick_weighted(rng, [(4, "mod"), (2, "mode"), (1, "swap"), (3, "del")])
        if a == "mod":
            n = rent(rng, p)
            n[1] = e[1]
            if e[1] == "l":
                n[2] = rng.choice(LINKS)
            elif n[2] in LINKS and n[2] not in CONTENTS:
                n[2] = rng.choice(CONTENTS)
            out.append(n)
        elif a == "mode":
            out.append([p, {"f": "x", "x": "f", "l": "l"}[e[1]], e[2]])
        elif a == "swap":
            out.append([p, "l", rng.choice(LINKS)] if e[1] != "l" else [p, "f", rng.choice(CONTENTS)])
    return out


def norm(ents):
    return sorted(({e[0]: e for e in ents}).values(), key=lambda e: e[0])


def gen_case(rng, bucket, weights=None):
    """one case of the given scenario bucket"""
    df = bucket == "df"
    paths = PATHS + (rng.sample(DF_PATHS, rng.randrange(1, 3)) if df else [])
    ncom = rng.randrange(2, 5)
    trees = [rtree(rng, PATHS if not df else paths)]
    for _ in range(ncom - 1):
        trees.append(mutate(rng, rng.choice(trees), paths, 0.5))
    if df:
        trees = [drop_df(rng, t) for t in trees]
    refs = [["refs/heads/master", rng.randrange(ncom)]]
    for b in BRANCHES[1:]:
        if rng.random() < 0.6:
            refs.append([b, rng.randrange(ncom)])
    if bucket == "errors" and rng.random() < 0.4:
        refs.append(["refs/heads/dangling", ncom + 5])
    r = rng.random()
    if bucket == "errors" and r < 0.15:
        head = ["sym", "refs/heads/unborn"]
    elif bucket == "errors" and r < 0.25:
        head = ["det", ncom + 5]
    elif r < 0.8:
        head = ["sym", rng.choice([x[0] for x in refs if x[0].startswith("refs/heads/") and x[1] < ncom])]
    else:
        head = ["det", rng.randrange(ncom)]
    hc = head[1] if head[0] == "det" else dict((a, b) for a, b in refs).get(head[1])
    htree = trees[hc] if hc is not None and hc < ncom else []
    # pick the target of the main op
    target = rng.randrange(ncom)
    ttree = trees[target]
    index = [list(e) for e in htree]
    wt = None
    tpaths = [e[0] for e in ttree]
    hpaths = [e[0] for e in htree]
    free = [p for p in paths if p not in hpaths]

    def staged_new():
        cand = [p for p in free if p not in [e[0] for e in index]]
        if cand:
            index.append(rent(rng, rng.choice(cand)))

    def staged_mod():
        if index:
            i = rng.randrange(len(index))
            index[i] = rent(rng, index[i][0])

    def staged_del():
        if index:
            index.pop(rng.randrange(len(index)))

    if bucket in ("staged", "random", "keep", "df", "hard"):
        for _ in range(rng.randrange(0, 3)):
            rng.choice([staged_new, staged_mod, staged_del])()
    if bucket == "staged":
        rng.choice([staged_new, staged_mod])()
    if bucket == "rmcached":
        # a path of HEAD that the target lacks is dropped from the index only
        cand = [i for i, e in enumerate(index) if e[0] not in tpaths] or list(range(len(index)))
        if cand:
            index.pop(rng.choice(cand))
    wt = [list(e) for e in index]
    if bucket == "rmcached":
        wt = [list(e) for e in htree]
        if rng.random() < 0.5 and wt:
            i = rng.randrange(len(wt))
            wt[i] = rent(rng, wt[i][0])
    if bucket in ("unstaged", "random", "keep", "df", "hard", "errors"):
        k = rng.randrange(1, 3) if bucket == "unstaged" else rng.randrange(0, 2)
        for _ in range(k):
            if wt:
                i = rng.randrange(len(wt))
                if rng.random() < 0.25:
                    wt.pop(i)
                else:
                    wt[i] = rent(rng, wt[i][0])
    if bucket in ("untracked", "random", "keep", "df", "hard", "staged", "rmcached"):
        k = rng.randrange(1, 3) if bucket == "untracked" else rng.randrange(0, 2)
        for _ in range(k):
            have = [e[0] for e in wt]
            cand = [p for p in paths if p not in have and p not in [e[0] for e in index]]
            if bucket == "untracked":
                pref = [p for p in cand if p in tpaths]
                if pref and rng.random() < 0.7:
                    cand = pref
            if cand:
                p = rng.choice(cand)
                e = rent(rng, p)
                if p in tpaths and rng.random() < 0.2:
                    e = list([t for t in ttree if t[0] == p][0])   # identical to what the target would write
                wt.append(e)
    if df:
        index = drop_df(rng, index)
        wt = drop_df(rng, wt)
    ops = []
    if rng.random() < 0.15:
        ops.append(rand_edit(rng, paths if not df else PATHS, wt))
    ops.append(main_op(rng, bucket, refs, ncom, target, weights))
    if rng.random() < 0.35:
        if rng.random() < 0.4:
            ops.append(rand_edit(rng, PATHS, wt))
        ops.append(main_op(rng, "random", refs, ncom, rng.randrange(ncom), weights))
    c = {"bucket": bucket, "commits": [{"tree": norm(t)} for t in trees], "refs": sorted(refs), "head": head,
         "index": norm(index), "wt": norm(wt), "ops": ops}
    if not df and not df_free(c):
        # a direct edit introduced a conflict: drop the edits
        c["ops"] = [o for o in ops if o["op"] in ("checkout", "reset")]
    return c


MISSING_KINDS = ["head-missing", "head-missing", "head-branch-missing", "head-nonbranch", "head-unborn", "target-noncommit",
                 "target-notree", "head-notree", "target-missing", "noobject", "addcommit"]


def same_tree(c, k):
    t = norm(c["commits"][k]["tree"])
    return [i for i, cm in enumerate(c["commits"]) if norm(cm["tree"]) == t]


def gen_missing(rng, weights=None, kind=None, kinds=None):
    """refusals of the 'missing object' family: HEAD's commit gone, HEAD on a missing / non-branch ref, target that
    is no commit, target or HEAD commit without its tree, deleted blob / nested tree, Add / Commit that must refuse"""
    kind = kind or rng.choice(kinds or MISSING_KINDS)
    c = gen_case(rng, rng.choice(["random", "staged", "hard", "untracked"]), weights)
    c["bucket"] = "missing:" + kind
    ncom = len(c["commits"])
    refs = dict((a, b) for a, b in c["refs"])
    if rng.random() < 0.6:
        c["wt"] = [list(e) for e in c["index"]]        # clean: the refusal must come from the missing object
    target = rng.randrange(ncom)
    names = [n for n in refs if n.startswith("refs/heads/")]

    def ops(n_ops=None):
        out = []
        for _ in range(n_ops or rng.randrange(1, 3)):
            o = main_op(rng, "random", c["refs"], ncom, target, weights)
            if o["op"] == "checkout" and rng.random() < 0.35:
                o.update({"create": True, "branch": "refs/heads/new%d" % len(out), "hash": -1 if rng.random() < 0.7 else target})
            out.append(o)
        return out

    c["ops"] = ops()
    if kind == "head-missing":
        c["head"] = ["det", ncom + 5]
    elif kind == "head-branch-missing":
        b = rng.choice(names)
        refs[b] = ncom + 5
        c["head"] = ["sym", b]
    elif kind == "head-nonbranch":
        refs.setdefault("refs/tags/t", rng.randrange(ncom))
        c["head"] = ["sym", "refs/tags/t"]
    elif kind == "head-unborn":
        c["head"] = ["sym", "refs/heads/unborn"]
    elif kind == "target-noncommit":
        for o in c["ops"]:
            if o["op"] == "reset":
                o["commit"] = rng.choice([100, 101])
            else:
                o["hash"] = rng.choice([100, 101])
                if not o["create"]:
                    o["branch"] = ""
    elif kind == "target-notree":
        cand = [k for k in range(ncom) if c["commits"][k]["tree"]]
        if cand:
            target = rng.choice(cand)
            c["notree"] = same_tree(c, target)
            c["ops"] = ops()
            for o in c["ops"]:
                if o["op"] == "reset" and rng.random() < 0.8:
                    o["commit"] = target
                elif o["op"] == "checkout" and rng.random() < 0.8:
                    if o["create"] or rng.random() < 0.5:
                        o["hash"] = target
                        if not o["create"]:
                            o["branch"] = ""
                    else:
                        tn = [n for n, k in refs.items() if k == target]
                        if tn:
                            o["branch"], o["hash"] = rng.choice(tn), -1
    elif kind == "head-notree":
        hc = c["head"][1] if c["head"][0] == "det" else refs.get(c["head"][1])
        if hc is not None and hc < ncom and c["commits"][hc]["tree"]:
            c["notree"] = same_tree(c, hc)
    elif kind == "target-missing":
        for o in c["ops"]:
            if o["op"] == "reset":
                o["commit"] = ncom + 7
            elif rng.random() < 0.5:
                o["hash"] = ncom + 7
                if not o["create"]:
                    o["branch"] = ""
            else:
                refs["refs/heads/dangling"] = ncom + 5
                o.update({"branch": "refs/heads/dangling", "hash": -1, "create": False})
    elif kind == "noobject":
        cand = [(k, e[0]) for k in range(ncom) for e in c["commits"][k]["tree"]]
        if cand:
            k, p = rng.choice(cand)
            if "/" in p and rng.random() < 0.3:
                p = p.split("/")[0]
            c["noobject"] = [[k, p]]
            target = k
            c["ops"] = ops()
    elif kind == "addcommit":
        c["ops"] = []
        r = rng.random()
        if r < 0.3:
            c["head"] = ["det", ncom + 5]
        elif r < 0.45:
            c["head"] = ["sym", "refs/heads/unborn"]
        for _ in range(rng.randrange(1, 3)):
            if rng.random() < 0.5:
                c["ops"].append({"op": "add", "path": rng.choice(["nosuch", "d/nosuch", "../x", ".git/config", rng.choice(PATHS)])})
            else:
                c["ops"].append({"op": "commit", "all": rng.random() < 0.3})
    c["refs"] = sorted([a, b] for a, b in refs.items())
    if not df_free(c):
        c["ops"] = [o for o in c["ops"] if o["op"] not in ("write", "rm")]
    return c


def drop_df(rng, ents):
    """make ONE map internally consistent (a path cannot be both file and directory inside a map)"""
    ents = list(ents)
    rng.shuffle(ents)
    keep = []
    for e in ents:
        if any(e[0].startswith(k[0] + "/") or k[0].startswith(e[0] + "/") or k[0] == e[0] for k in keep):
            continue
        keep.append(e)
    return keep


def rand_edit(rng, paths, wt):
    if rng.random() < 0.3 and wt:
        return {"op": "rm", "path": rng.choice(wt)[0]}
    e = rent(rng, rng.choice(paths))
    return {"op": "write", "path": e[0], "kind": e[1], "content": e[2]}


def main_op(rng, bucket, refs, ncom, target, weights=None):
    w = weights or {}
    names = [r[0] for r in refs]
    kind = pick_weighted(rng, [(w.get("checkout", 5), "checkout"), (w.get("reset", 4), "reset")])
    if bucket == "keep":
        kind = "reset"
    if bucket == "errors" and rng.random() < 0.5:
        kind = "checkout"
    if kind == "reset":
        mode = pick_weighted(rng, [(w.get("mixed", 1), "mixed"), (w.get("hard", 3), "hard"), (w.get("merge", 3), "merge"),
                                   (w.get("soft", 1), "soft"), (w.get("keep", 3), "keep")])
        if bucket == "keep":
            mode = "keep"
        if bucket == "hard":
            mode = "hard"
        commit = target
        r = rng.random()
        if r < 0.1:
            commit = -1
        elif bucket == "errors" and r < 0.4:
            commit = ncom + 7
        return {"op": "reset", "commit": commit, "mode": mode}
    o = {"op": "checkout", "branch": "", "hash": -1, "create": False, "force": False, "keep": False}
    style = pick_weighted(rng, [(4, "branch"), (3, "hash"), (2, "create"), (1, "createhash")])
    tnames = [r[0] for r in refs if r[1] == target] or names
    if style == "branch":
        o["branch"] = rng.choice(tnames)
    elif style == "hash":
        o["hash"] = target
    elif style == "create":
        o["create"] = True
        o["branch"] = "refs/heads/new"
    else:
        o["create"] = True
        o["branch"] = "refs/heads/new"
        o["hash"] = target
    fm = pick_weighted(rng, [(w.get("force", 3), "force"), (w.get("plain", 4), "plain"), (w.get("ckeep", 1), "keep")])
    if bucket == "hard":
        fm = "force"
    o["force"] = fm == "force"
    o["keep"] = fm == "keep"
    if bucket == "errors":
        r = rng.random()
        if r < 0.15:
            o["branch"], o["hash"] = rng.choice(names), target           # branch and hash without create
        elif r < 0.3:
            o["create"], o["branch"] = True, ""                           # create without a name
        elif r < 0.45:
            o["create"], o["branch"] = True, rng.choice(names)           # existing branch
        elif r < 0.6:
            o["branch"], o["hash"], o["create"] = "refs/heads/nosuch", -1, False
        elif r < 0.75:
            o["hash"] = ncom + 7                                          # missing object
            if rng.random() < 0.5:
                o["create"], o["branch"] = True, "refs/heads/new"
            else:
                o["branch"] = ""
        elif r < 0.85 and "refs/heads/dangling" in names:
            o["branch"], o["hash"], o["create"] = "refs/heads/dangling", -1, False
    return o


# ------------------------------------------------------------------ helpers for the oracles

def blob_sha1(content):
    b = content.encode()
    return hashlib.sha1(b"blob %d\0" % len(b) + b).hexdigest()


def fmap(ents):
    return {e[0]: (e[1], e[2]) for e in ents or []}


def steps_of(case, reply):
    """[(op, pre snapshot, step)] for every op of the case; snapshots as dicts of dicts"""
    ex = (reply or {}).get("extra") or {}
    steps = ex.get("steps") or []
    res = []
    for i, o in enumerate(case["ops"]):
        if i + 1 >= len(steps):
            break
        res.append((o, steps[i]["snap"], steps[i + 1]))
    return res


def head_commit(snap):
    h = snap["head"]
    if h[0] == "det":
        return h[1]
    if h[0] == "sym":
        return dict((a, b) for a, b in (snap.get("refs") or [])).get(h[1])
    return None


def tree(case, n):
    if n is None or n < 0 or n >= len(case["commits"]):
        return None
    return fmap(case["commits"][n]["tree"])


def target_commit(case, op, pre):
    """the commit a successful checkout/reset lands on (commit number)"""
    refs = dict((a, b) for a, b in (pre.get("refs") or []))
    if op["op"] == "reset":
        return head_commit(pre) if op.get("commit", -1) == -1 else op["commit"]
    if op.get("hash", -1) != -1:
        return op["hash"]
    if op.get("create"):
        return head_commit(pre)
    return refs.get(op.get("branch") or "refs/heads/master")


def parse_status_v2(s):
    """git status --porcelain=v2 --branch -z -> (head oid or None, [(kind, XY, path)])
    kind: '1' ordinary change, '2' rename/copy, 'u' unmerged, '?' untracked"""
    oid, out = None, []
    toks = s.split("\0")
    i = 0
    while i < len(toks):
        t = toks[i]
        i += 1
        if not t:
            continue
        if t.startswith("# branch.oid "):
            oid = t[len("# branch.oid "):]
            if oid == "(initial)":
                oid = None
        elif t.startswith("#"):
            continue
        elif t.startswith("1 "):
            f = t.split(" ", 8)
            out.append(("1", f[1], f[8]))
        elif t.startswith("2 "):
            f = t.split(" ", 9)
            out.append(("2", f[1], f[9]))
            i += 1
        elif t.startswith("u "):
            f = t.split(" ", 10)
            out.append(("u", f[1], f[10]))
        elif t.startswith("? "):
            out.append(("?", "??", t[2:]))
    return oid, out


GITMODE = {"f": "100644", "x": "100755", "l": "120000"}


class PorcelainSuite(Suite):
    """common part of the three suites: command, model expression, non-triviality"""
    go_cmd = "porcelain"
    coq_imports = COQ_IMPORTS
    coq_chunk = 60
    buckets = [(1, "random")]
    weights = None
    # C25 / C30 quantify over intact object stores: only the modelled kinds; C29 takes all (None)
    missing_kinds = [k for k in MISSING_KINDS if k not in ("noobject", "addcommit")]

    def gen(self, rng, n, tier):
        out = []
        for _ in range(n):
            b = pick_weighted(rng, self.buckets)
            out.append(gen_missing(rng, self.weights, kinds=self.missing_kinds) if b == "missing" else gen_case(rng, b, self.weights))
        return out

    def model_expr(self, c):
        return model_expr(c)

    def nontrivial(self, c):
        return any(o["op"] in ("checkout", "reset") for o in c["ops"]) and bool(c["commits"])
