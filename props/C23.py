"""C23 Concurrent reads on shared storage are correct and race-free (DESIGN.md §4.C23) — partial by design."""
import os
from vf import core
from vf.core import Suite, coq_list
from vf.gen import pick_weighted
from props.C18 import parse_out

ID = "C23"
THEOREMS = ["C23_lookup_stable", "C23_snapshot_consistent", "C23_published_forever", "C23_no_leak",
            "C23_refs_exact", "C23_refs_unclear_refuted"]
MODEL_FILES = ["IndexPublish.v", "IdxRefs.v"]
MODELLED = ("storage/filesystem/object.go: requireIndex (RLock check, singleflight, re-check, publish under Lock or close the loser's "
            "indexes), Reindex (populate, swap under Lock), packfileWriter's Notify (copy-on-grow append), findObjectInPackfile's snapshot "
            "of s.packs — as an interleaving model (Model/IndexPublish.v: every muI critical section one atomic step, everything else "
            "split), with other instances adding packs / loose objects; plumbing/format/idxfile/lazy_index.go lazyPrefixIter "
            "(EntriesWithPrefix / Next with its eager release / Close) and plain readers on one internal/sharedfile SharedFile (refs, guard at "
            "zero, ReleaseNow latch) under pool eviction — Model/IdxRefs.v, reference accounting exact in every interleaving. NOT modelled, only exercised: freedom from data races in the Go "
            "memory model, sharedfile / packhandle / fdpool descriptor sharing under pressure (C24), LazyIndex I/O, reference and index "
            "file reads; deletion of packs by another instance (repack) is outside the model")
TRUSTED = [
    "sync.RWMutex, singleflight and atomic.Int32 behave as specified (a critical section is one atomic step of the model)",
    "C-impl: harness/cmd/c23 runs the scenario's goroutines (lookups, Reindex, PackfileWriter on the same instance, a second instance adding "
    "packs/loose objects, background readers of objects+references+index under fd pool capacities 0/1/2/default) with seeded jitter and "
    "compares the projected lookup answers with Model/IndexPublish.c23_run under a generated schedule",
    "thorough tier: the same harness built with `go build -race`; a reported DATA RACE is a failing case",
    "reference accounting observed directly (hooks of build tag verif: LazyIndex.VerifIdxRefs/VerifRevRefs/VerifPinIdx, "
    "ObjectStorage.VerifLazyIndexes): after every scenario no reference is left on any published .idx/.rev, and with one harness pin "
    "per .idx every prefix search leaves exactly the pin; suite `iter` drives EntriesWithPrefix/Next/Close step by step and compares "
    "answer + reference count with Model/IdxRefs.c23_iter_run",
]
ASSUMPTIONS = ["other instances only add packs and loose objects while this instance reads (no concurrent repack/prune)",
               "Go's race detector and the schedules actually produced bound what is observed about data races: absence is not proved"]
RULE = ("universe = 24 blobs whose ids share four fan-out buckets; scenario = initial repository (general: loose set + <= 3 packs; "
        "multipack-prefix: 4-6 packs, lazy index, pool capacity 1/2/3) + 3-10 threads (lookups by get/has/size, prefix resolvers with 2-4 byte "
        "prefixes of existing ids and near-miss prefixes that stop at a larger non-matching hash, Reindex, same-instance pack writer, external "
        "pack / loose writers, external git repack) + background readers (objects, prefix searches, references, index) + options + a model "
        "schedule; suite iter = (packs, pack, prefix of an own / near-miss / other-bucket / beyond-the-bucket kind, 0-2 pins, a script of "
        "Next / Close incl. early, after exhaustion and repeated Close); non-trivial = at least two lookups and one writer or Reindex, resp. "
        "an iterator that acquired a reference and >= 2 steps; distinct by content")
LEVEL_NOTE = ("partial: the publication protocol is proved for all interleavings of the model; data-race freedom and descriptor-pressure "
              "behaviour are exercised (stress + race detector), not proved")

NOBJ = 24
BUCKETS = [0x3a, 0x3b, 0x7c, 0xe1]


def _universe():
    """the 24 blob ids of harness/cmd/c23 (same rule): six ids in each of four fan-out buckets"""
    import hashlib
    ids, count, i = [], {}, 0
    while len(ids) < NOBJ:
        data = (b"object-%d\n" % i) * (1 + i % 5)
        h = hashlib.sha1(b"blob %d\0" % len(data) + data).digest()
        i += 1
        if h[0] not in BUCKETS or count.get(h[0], 0) >= NOBJ // len(BUCKETS):
            continue
        count[h[0]] = count.get(h[0], 0) + 1
        ids.append(h)
    return ids


IDS = _universe()


def prefix_of(k, n, miss):
    p = bytearray(IDS[k][:n])
    if miss:
        p[n - 1] = (p[n - 1] - 1) % 256
    return bytes(p)


def miss_ok(k, n):
    """the near-miss prefix of (k, n) is carried by no id of the universe"""
    p = prefix_of(k, n, True)
    return not any(h.startswith(p) for h in IDS)


def iter_shape(mask, prefix):
    """what LazyIndex.EntriesWithPrefix(prefix) does on the pack holding the objects of mask:
    (acquires a reference?, matching entries, what follows them)"""
    ids = sorted(IDS[k] for k in range(NOBJ) if mask >> k & 1)
    bucket = [h for h in ids if h[0] == prefix[0]]
    if not bucket:
        return False, 0, "TEnd"
    target = prefix + b"\0" * (20 - len(prefix))
    rest = [h for h in bucket if h >= target]
    if not rest:
        return True, 0, "TBeyond"
    m = 0
    while m < len(rest) and rest[m].startswith(prefix):
        m += 1
    return True, m, ("TMismatch" if m < len(rest) else "TEnd")


def rmask(rng, p):
    m = 0
    for k in range(NOBJ):
        if rng.random() < p:
            m |= 1 << k
    return m


def thread_coq(t):
    k = t["kind"]
    if k == "lookup":
        return "lookup %d%%N" % t["k"]
    if k == "prefix":
        # same visibility rule as a lookup (snapshot of the index + loose listing); a near-miss prefix = an object nobody stores
        return "lookup %d%%N" % (63 if t["miss"] else t["k"])
    if k == "reindex":
        return "TReFlight"
    if k == "notify":
        return "notify %d%%N" % t["p"]
    if k == "extpack":
        return "TExtPack %d%%N" % t["p"]
    if k == "extloose":
        return "TExtLoose %d%%N" % t["k"]
    raise ValueError(k)


class Main(Suite):
    name = "main"
    go_cmd = "c23"
    coq_imports = "From GoGit Require Import Model.IndexPublish."
    quick_n = 130
    thorough_n = 1500

    def gen(self, rng, n, tier):
        cases = []
        for i in range(n):
            # two repository shapes: the general one, and 4-6 packs read through the LAZY index under a pool of
            # capacity 1..3 by prefix resolvers (2..4-byte prefixes, existing and near-miss) next to object readers
            multi = rng.random() < 0.5
            if multi:
                loose = rmask(rng, 0.1)
                packs = sorted(set(m for m in (rmask(rng, 0.35) for _ in range(rng.randrange(4, 7))) if m))
            else:
                loose = rmask(rng, 0.2)
                packs = sorted(set(m for m in (rmask(rng, 0.3) for _ in range(rng.randrange(0, 4))) if m))
            init = loose
            for p in packs:
                init |= p
            present = [k for k in range(NOBJ) if init >> k & 1]
            threads = []
            repack = (not multi) and rng.random() < 0.12   # a few scenarios: another process repacks (outside the model)
            for _ in range(rng.randrange(4, 11) if multi else rng.randrange(3, 10)):
                kind = pick_weighted(rng, [(4, "lookup"), (5 if multi else 2, "prefix"), (1, "reindex"), (1, "notify"), (1, "extpack"), (1, "extloose")])
                if kind == "extpack" and repack and not any(t["kind"] == "extrepack" for t in threads):
                    kind = "extrepack"
                k = rng.choice(present) if present and rng.random() < 0.7 else rng.randrange(NOBJ)
                if kind == "lookup":
                    threads.append({"kind": "lookup", "k": k, "op": rng.choice(["get", "has", "size"])})
                elif kind == "prefix":
                    nb = rng.choice([2, 2, 3, 4])
                    miss = rng.random() < 0.45 and miss_ok(k, nb)
                    threads.append({"kind": "prefix", "k": k, "n": nb, "miss": miss, "op": "prefix"})
                elif kind in ("reindex", "extrepack"):
                    threads.append({"kind": kind})
                elif kind in ("notify", "extpack"):
                    threads.append({"kind": kind, "p": rmask(rng, 0.2) or 1})
                else:
                    threads.append({"kind": "extloose", "k": rng.randrange(NOBJ)})
            sched = [rng.randrange(len(threads)) for _ in range(rng.randrange(0, 40))]
            if multi:
                opts = {"pool": rng.choice([1, 2, 3]), "memidx": False, "lot": rng.choice([0, 0, 16]), "cache": rng.choice(["", "tiny"])}
            else:
                opts = {"pool": rng.choice([-1, 0, 1, 1, 2]), "memidx": rng.random() < 0.4, "lot": rng.choice([0, 0, 16]), "cache": rng.choice(["", "tiny"])}
            cases.append({"bucket": "multipack-prefix" if multi else "scenario", "loose": loose, "packs": packs, "threads": threads, "sched": sched,
                          "bg": rng.choice([1, 2, 4]) if multi else rng.choice([0, 1, 2, 4]), "jitter": rng.randrange(1 << 30),
                          "norefs": any(t["kind"] == "extrepack" for t in threads), "opts": opts})
        return cases

    def model_expr(self, c):
        if any(t["kind"] == "extrepack" for t in c["threads"]):
            return None          # packs disappear: outside the model (disk only grows there)
        return "c23_run %s %d%%N %s %s" % (coq_list(["%d%%N" % p for p in c["packs"]]), c["loose"],
                                           coq_list([thread_coq(t) for t in c["threads"]]),
                                           coq_list(["%d%%nat" % i for i in c["sched"]]))

    def nontrivial(self, c):
        ks = [t["kind"] for t in c["threads"]]
        return ks.count("lookup") + ks.count("prefix") >= 2 and any(k not in ("lookup", "prefix") for k in ks)

    def oracle(self, ctx, cases, impl, model):
        """on the implementation alone: an object of the initial repository is found, an object nobody ever
        stores is not found, nothing fails (no error, no panic, background readers always succeed)"""
        fails = {}
        for c in cases:
            r = impl.get(c["id"])
            if r is None or r.get("panic"):
                continue
            errs = (r.get("extra") or {}).get("errs") or []
            if errs:
                rep = any(t["kind"] == "extrepack" for t in c["threads"]) and not any(e.startswith("harness:") for e in errs)
                fails[c["id"]] = "spurious failure under concurrency%s: %s" % (" [while another process repacks]" if rep else "", "; ".join(errs[:3]))
                continue
            outs = parse_out(r["out"])
            init = c["loose"]
            for p in c["packs"]:
                init |= p
            final = init
            for t in c["threads"]:
                if t["kind"] in ("notify", "extpack"):
                    final |= t["p"]
                elif t["kind"] == "extloose":
                    final |= 1 << t["k"]
            looks = [t for t in c["threads"] if t["kind"] in ("lookup", "prefix")]
            if len(outs) != 1 + len(looks):
                fails[c["id"]] = "reply has %d answers for %d lookups" % (len(outs) - 1, len(looks))
                continue
            for t, o in zip(looks, outs[1:]):
                k = t["k"]
                if t["kind"] == "prefix" and t["miss"]:
                    if o != "false":
                        fails[c["id"]] = "HashesWithPrefix(near-miss prefix of object %d, %d bytes) = %s" % (k, t["n"], o)
                    continue
                if init >> k & 1 and o != "true":
                    fails[c["id"]] = "%s of stored object %d = %s while other goroutines read / add packs" % (t["op"], k, o)
                elif not (final >> k & 1) and o != "false":
                    fails[c["id"]] = "%s of absent object %d = %s" % (t["op"], k, o)
        self.race_scan(ctx, cases, fails)
        return fails

    def race_scan(self, ctx, cases, fails):
        """thorough tier: the same scenarios under Go's race detector (search aid: a report is a genuine data race,
        absence proves nothing).  A report fails the first scenario of the batch that produced it."""
        import json
        import re
        import subprocess
        self.race = {"race_build": "skipped"}
        if ctx.tier != "thorough" or os.environ.get("VERIF_NO_RACE") == "1":
            return
        args = ["go", "build", "-race", "-tags", "verif"]
        alt = os.path.join(core.HARNESS, "alt.mod")
        if os.path.realpath(core.REPO) != "/repo" and os.path.exists(alt):
            args += ["-modfile", alt]
        args += ["-o", os.path.join("bin", "c23race"), "./cmd/c23"]
        rc, out = core.sh(args, cwd=core.HARNESS, env=dict(core.GOENV, CGO_ENABLED="1"), timeout=900)
        if rc != 0:
            ctx.notes.append("race build unavailable: " + out[-300:])
            self.race = {"race_build": "unavailable"}
            return
        sub = cases[:300]
        reports = 0
        for i in range(0, len(sub), 25):
            batch = sub[i:i + 25]
            data = "".join(json.dumps(c) + "\n" for c in batch).encode()
            try:
                p = subprocess.run([os.path.join(core.HARNESS, "bin", "c23race")], input=data, stdout=subprocess.PIPE,
                                   stderr=subprocess.PIPE, timeout=900, env=dict(core.GOENV, GORACE="halt_on_error=0"))
            except subprocess.TimeoutExpired:
                ctx.notes.append("race run timed out on cases %d.." % batch[0]["id"])
                continue
            err = p.stderr.decode("utf-8", "replace")
            n = err.count("WARNING: DATA RACE")
            if n:
                reports += n
                frames = re.findall(r"\n  (\S+)\(\)\n      (\S+)", err)[:6]
                why = "data race reported by the race detector (%d reports in scenarios %d..%d): %s" % (
                    n, batch[0]["id"], batch[-1]["id"], " <- ".join(f[0].split("/")[-1] + "@" + f[1].split("/")[-1] for f in frames))
                fails.setdefault(batch[0]["id"], why)
        self.race = {"race_build": "ok", "race_cases": len(sub), "race_reports": reports}

    def extra(self, ctx, cases, impl, model):
        return dict(getattr(self, "race", {}))

    def finding_class(self, case, reason, reply):
        if "[while another process repacks]" in reason:
            return "external-repack-stale-index"
        return None


class IterRefs(Suite):
    """ONE goroutine drives LazyIndex.EntriesWithPrefix on one pack step by step (Next ... until and beyond EOF,
    Close early / after exhaustion / repeatedly) while the harness holds 0-2 references: after every step the answer
    and the reference count of the .idx must be the model's (Model/IdxRefs.v)"""
    name = "iter"
    go_cmd = "c23"
    coq_imports = "From GoGit Require Import Model.IdxRefs."
    quick_n = 120
    thorough_n = 2500

    def gen(self, rng, n, tier):
        cases = []
        while len(cases) < n:
            packs = sorted(set(m for m in (rmask(rng, rng.choice([0.2, 0.4, 0.7])) for _ in range(rng.randrange(1, 4))) if m))
            if not packs:
                continue
            pi = rng.randrange(len(packs))
            k = rng.randrange(NOBJ)
            nb = rng.choice([1, 2, 2, 3, 4, 20])
            kind = rng.choice(["own", "own", "miss", "miss", "other-bucket", "beyond"])
            if kind == "own":
                prefix = prefix_of(k, nb, False)
            elif kind == "miss":
                prefix = prefix_of(k, max(nb, 2), True)
            elif kind == "other-bucket":
                prefix = bytes([rng.choice([0x00, 0x3c, 0xff, IDS[k][0]])]) + IDS[k][1:nb]
            else:
                prefix = bytes([IDS[k][0], 0xff, 0xff])[:max(2, min(nb, 3))]
            acq, m, tl = iter_shape(packs[pi], prefix)
            ops = []
            for _ in range(rng.randrange(0, m + 4)):
                ops.append("next")
                if rng.random() < 0.12:
                    ops.append("close")
            ops += ["close"] * rng.randrange(0, 3) + ["next"] * rng.randrange(0, 2)
            cases.append({"bucket": "iter-" + (tl if acq else "empty-bucket"), "mode": "iter", "packs": packs, "pi": pi, "prefix": prefix.hex(),
                          "pins": rng.choice([0, 1, 1, 2]), "pool": rng.choice([-1, 1, 2, 3]), "ops": ops,
                          "shape": [acq, m, tl]})
        return cases

    def model_expr(self, c):
        acq, m, tl = c["shape"]
        return "c23_iter_run %d %d %s %s %s" % (c["pins"], m, tl, "true" if acq else "false",
                                                coq_list(["INext" if o == "next" else "IClose" for o in c["ops"]]))

    def nontrivial(self, c):
        return c["shape"][0] and len(c["ops"]) >= 2

    def oracle(self, ctx, cases, impl, model):
        """exact accounting on the implementation alone: whatever was done to the iterator, once it is closed (or its
        run ended) only the harness pins remain; the count never drops below the pins"""
        fails = {}
        for c in cases:
            r = impl.get(c["id"])
            if r is None or r.get("panic"):
                continue
            try:
                outs = parse_out(r["out"])
            except Exception:
                fails[c["id"]] = "unparsable reply"
                continue
            if not isinstance(outs, list) or outs[:1] == ["err"]:
                fails[c["id"]] = "iterator could not be driven: %s / %s" % (r["out"], r.get("extra"))
                continue
            closed = False
            for i, (o, step) in enumerate(zip(["made"] + c["ops"], outs)):
                ans, refs = step[0], int(step[1])
                if ans == "bad":
                    fails[c["id"]] = "step %d (%s): unexpected answer" % (i, o)
                    break
                closed = closed or o == "close"
                if refs < c["pins"]:
                    fails[c["id"]] = "step %d (%s): the .idx holds %d references but the harness alone holds %d: a reference was released twice" % (i, o, refs, c["pins"])
                    break
                if closed and refs != c["pins"]:
                    fails[c["id"]] = "step %d (%s): %d references after Close, want %d (the pins): leaked" % (i, o, refs, c["pins"])
                    break
        return fails


SUITES = [Main(), IterRefs()]
