"""C23 Concurrent reads on shared storage are correct and race-free (DESIGN.md §4.C23) — partial by design."""
import os
from vf import core
from vf.core import Suite, coq_list
from vf.gen import pick_weighted
from props.C18 import parse_out

ID = "C23"
THEOREMS = ["C23_lookup_stable", "C23_snapshot_consistent", "C23_published_forever", "C23_no_leak"]
MODEL_FILES = ["IndexPublish.v"]
MODELLED = ("storage/filesystem/object.go: requireIndex (RLock check, singleflight, re-check, publish under Lock or close the loser's "
            "indexes), Reindex (populate, swap under Lock), packfileWriter's Notify (copy-on-grow append), findObjectInPackfile's snapshot "
            "of s.packs — as an interleaving model (Model/IndexPublish.v: every muI critical section one atomic step, everything else "
            "split), with other instances adding packs / loose objects. NOT modelled, only exercised: freedom from data races in the Go "
            "memory model, sharedfile / packhandle / fdpool descriptor sharing under pressure (C24), LazyIndex I/O, reference and index "
            "file reads; deletion of packs by another instance (repack) is outside the model")
TRUSTED = [
    "sync.RWMutex, singleflight and atomic.Int32 behave as specified (a critical section is one atomic step of the model)",
    "C-impl: harness/cmd/c23 runs the scenario's goroutines (lookups, Reindex, PackfileWriter on the same instance, a second instance adding "
    "packs/loose objects, background readers of objects+references+index under fd pool capacities 0/1/2/default) with seeded jitter and "
    "compares the projected lookup answers with Model/IndexPublish.c23_run under a generated schedule",
    "thorough tier: the same harness built with `go build -race`; a reported DATA RACE is a failing case",
]
ASSUMPTIONS = ["other instances only add packs and loose objects while this instance reads (no concurrent repack/prune)",
               "Go's race detector and the schedules actually produced bound what is observed about data races: absence is not proved"]
RULE = ("scenario = initial repository (<= 10 objects: loose set, <= 3 packs) + 3-9 threads (lookups by get/has/size of present / absent / "
        "concurrently-added objects, Reindex, same-instance pack writer, external pack / loose writers) + 0-4 background readers + options "
        "(pool 0/1/2/default, lazy / in-memory idx, LargeObjectThreshold, tiny cache) + a model schedule; non-trivial = at least two "
        "lookups and one writer or Reindex; distinct by content")
LEVEL_NOTE = ("partial: the publication protocol is proved for all interleavings of the model; data-race freedom and descriptor-pressure "
              "behaviour are exercised (stress + race detector), not proved")

NOBJ = 10


def rmask(rng, p):
    m = 0
    for k in range(NOBJ):
        if rng.random() < p:
            m |= 1 << k
    return m


def thread_coq(t):
    k = t["kind"]
    if k == "lookup":
        return "lookup %d%%N" % t["k"]
    if k == "reindex":
        return "TReFlight"
    if k == "notify":
        return "notify %d%%N" % t["p"]
    if k == "extpack":
        return "TExtPack %d%%N" % t["p"]
    if k == "extloose":
        return "TExtLoose %d%%N" % t["k"]
    raise ValueError(k)


class Main(Suite):
    name = "main"
    go_cmd = "c23"
    coq_imports = "From GoGit Require Import Model.IndexPublish."
    quick_n = 160
    thorough_n = 1500

    def gen(self, rng, n, tier):
        cases = []
        for i in range(n):
            loose = rmask(rng, 0.2)
            packs = sorted(set(m for m in (rmask(rng, 0.3) for _ in range(rng.randrange(0, 4))) if m))
            init = loose
            for p in packs:
                init |= p
            threads = []
            repack = rng.random() < 0.12          # a few scenarios: another process repacks (outside the model)
            for _ in range(rng.randrange(3, 10)):
                kind = pick_weighted(rng, [(6, "lookup"), (1, "reindex"), (1, "notify"), (1, "extpack"), (1, "extloose")])
                if kind == "extpack" and repack and not any(t["kind"] == "extrepack" for t in threads):
                    kind = "extrepack"
                if kind == "lookup":
                    present = [k for k in range(NOBJ) if init >> k & 1]
                    k = rng.choice(present) if present and rng.random() < 0.6 else rng.randrange(NOBJ)
                    threads.append({"kind": "lookup", "k": k, "op": rng.choice(["get", "has", "size"])})
                elif kind in ("reindex", "extrepack"):
                    threads.append({"kind": kind})
                elif kind in ("notify", "extpack"):
                    threads.append({"kind": kind, "p": rmask(rng, 0.3) or 1})
                else:
                    threads.append({"kind": "extloose", "k": rng.randrange(NOBJ)})
            sched = [rng.randrange(len(threads)) for _ in range(rng.randrange(0, 40))]
            cases.append({"bucket": "scenario", "loose": loose, "packs": packs, "threads": threads, "sched": sched,
                          "bg": rng.choice([0, 1, 2, 4]), "jitter": rng.randrange(1 << 30),
                          "opts": {"pool": rng.choice([-1, 0, 1, 1, 2]), "memidx": rng.random() < 0.4,
                                   "lot": rng.choice([0, 0, 16]), "cache": rng.choice(["", "tiny"])}})
        return cases

    def model_expr(self, c):
        if any(t["kind"] == "extrepack" for t in c["threads"]):
            return None          # packs disappear: outside the model (disk only grows there)
        return "c23_run %s %d%%N %s %s" % (coq_list(["%d%%N" % p for p in c["packs"]]), c["loose"],
                                           coq_list([thread_coq(t) for t in c["threads"]]),
                                           coq_list(["%d%%nat" % i for i in c["sched"]]))

    def nontrivial(self, c):
        ks = [t["kind"] for t in c["threads"]]
        return ks.count("lookup") >= 2 and any(k != "lookup" for k in ks)

    def oracle(self, ctx, cases, impl, model):
        """on the implementation alone: an object of the initial repository is found, an object nobody ever
        stores is not found, nothing fails (no error, no panic, background readers always succeed)"""
        fails = {}
        for c in cases:
            r = impl.get(c["id"])
            if r is None or r.get("panic"):
                continue
            errs = (r.get("extra") or {}).get("errs") or []
            if errs:
                rep = any(t["kind"] == "extrepack" for t in c["threads"]) and not any(e.startswith("harness:") for e in errs)
                fails[c["id"]] = "spurious failure under concurrency%s: %s" % (" [while another process repacks]" if rep else "", "; ".join(errs[:3]))
                continue
            outs = parse_out(r["out"])
            init = c["loose"]
            for p in c["packs"]:
                init |= p
            final = init
            for t in c["threads"]:
                if t["kind"] in ("notify", "extpack"):
                    final |= t["p"]
                elif t["kind"] == "extloose":
                    final |= 1 << t["k"]
            looks = [t for t in c["threads"] if t["kind"] == "lookup"]
            if len(outs) != 1 + len(looks):
                fails[c["id"]] = "reply has %d answers for %d lookups" % (len(outs) - 1, len(looks))
                continue
            for t, o in zip(looks, outs[1:]):
                k = t["k"]
                if init >> k & 1 and o != "true":
                    fails[c["id"]] = "%s of stored object %d = %s while other goroutines read / add packs" % (t["op"], k, o)
                elif not (final >> k & 1) and o != "false":
                    fails[c["id"]] = "%s of absent object %d = %s" % (t["op"], k, o)
        self.race_scan(ctx, cases, fails)
        return fails

    def race_scan(self, ctx, cases, fails):
        """thorough tier: the same scenarios under Go's race detector (search aid: a report is a genuine data race,
        absence proves nothing).  A report fails the first scenario of the batch that produced it."""
        import json
        import re
        import subprocess
        self.race = {"race_build": "skipped"}
        if ctx.tier != "thorough" or os.environ.get("VERIF_NO_RACE") == "1":
            return
        args = ["go", "build", "-race", "-tags", "verif"]
        alt = os.path.join(core.HARNESS, "alt.mod")
        if os.path.realpath(core.REPO) != "/repo" and os.path.exists(alt):
            args += ["-modfile", alt]
        args += ["-o", os.path.join("bin", "c23race"), "./cmd/c23"]
        rc, out = core.sh(args, cwd=core.HARNESS, env=dict(core.GOENV, CGO_ENABLED="1"), timeout=900)
        if rc != 0:
            ctx.notes.append("race build unavailable: " + out[-300:])
            self.race = {"race_build": "unavailable"}
            return
        sub = cases[:300]
        reports = 0
        for i in range(0, len(sub), 25):
            batch = sub[i:i + 25]
            data = "".join(json.dumps(c) + "\n" for c in batch).encode()
            try:
                p = subprocess.run([os.path.join(core.HARNESS, "bin", "c23race")], input=data, stdout=subprocess.PIPE,
                                   stderr=subprocess.PIPE, timeout=900, env=dict(core.GOENV, GORACE="halt_on_error=0"))
            except subprocess.TimeoutExpired:
                ctx.notes.append("race run timed out on cases %d.." % batch[0]["id"])
                continue
            err = p.stderr.decode("utf-8", "replace")
            n = err.count("WARNING: DATA RACE")
            if n:
                reports += n
                frames = re.findall(r"\n  (\S+)\(\)\n      (\S+)", err)[:6]
                why = "data race reported by the race detector (%d reports in scenarios %d..%d): %s" % (
                    n, batch[0]["id"], batch[-1]["id"], " <- ".join(f[0].split("/")[-1] + "@" + f[1].split("/")[-1] for f in frames))
                fails.setdefault(batch[0]["id"], why)
        self.race = {"race_build": "ok", "race_cases": len(sub), "race_reports": reports}

    def extra(self, ctx, cases, impl, model):
        return dict(getattr(self, "race", {}))

    def finding_class(self, case, reason, reply):
        if "[while another process repacks]" in reason:
            return "external-repack-stale-index"
        return None


SUITES = [Main()]
