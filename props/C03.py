"""C03 Signature verification payload equals git's (DESIGN.md §4.C03)."""
import re
from vf.core import Suite
from vf.gen import pick_weighted
from props import _objgen as G
from props._gitobj import GitRepo

ID = "C03"
THEOREMS = ["C03_payload_commit_refuted", "C03_sig_commit_refuted", "C03_strip_commit_partial", "C03_payload_commit_partial",
            "C03_sig_commit_partial", "C03_accepts_iff_commit", "C03_verify_commit",
            "C03_payload_commit_sha256_partial", "C03_sig_commit_sha256_partial", "C03_accepts_iff_commit_sha256_refuted",
            "C03_accepts_iff_commit_sha256_partial",
            "C03_fresh_matches_source", "C03_mutated_commit", "C03_mutated_tag",
            "C03_payload_tag_refuted", "C03_strip_tag_partial", "C03_payload_tag_partial",
            "C03_sig_tag_refuted", "C03_sig_tag_partial", "C03_nosig_tag_partial", "C03_accepts_iff_tag"]
MODEL_FILES = ["ObjLines.v", "Ident.v", "Commit.v", "Tag.v", "SigPayload.v"]
MODELLED = ("plumbing/object/signature.go: isSignatureHeader, stripHeaderSignatures, stripObjectSignatures, parseSignedBytes, "
            "countSignatureBlocks, typeForSignature; commit.go/tag.go: EncodeWithoutSignature, matchesSource, signatureEqual, Commit.Verify / "
            "Tag.Verify (multi-block refusal, which field is handed to the verifier), and the scanners that fill Commit.Signature / "
            "Commit.SignatureSHA256 / Tag.Signature (Model/SigPayload.v on top of Model/Commit.v, Model/Tag.v, Model/Ident.v). "
            "S: Spec/GitSig.v = git 2.39 commit.c parse_buffer_signed_by_header with the signature header of the repository's object format "
            "(gpgsig in SHA-1, gpgsig-sha256 in SHA-256 repositories; verify-commit), gpg-interface.c parse_signed_buffer + parse_signature "
            "with commit.c's two-slot remove_signature (verify-tag, format independent). Not modelled: the OpenPGP check itself (a verifier "
            "is any function of payload and signature; exercised with a real key by the cverify/tverify cases), key-ring parsing")
TRUSTED = [
    "C-impl: EncodeWithoutSignature / Signature fields of decoded (and mutated) commits and tags through harness/cmd/c03 vs Model/SigPayload on every case",
    "C-git: Spec/GitSig (S) vs the payload and signature git 2.39.5 hands to gpg.program / gpg.x509.program / gpg.ssh.program "
    "(a script that dumps stdin and the signature file) during `git verify-commit` / `git verify-tag`, on the same stored objects, "
    "in a SHA-1 and in a SHA-256 repository (objects with 64-digit ids)",
    "cverify/tverify: Commit.Verify / Tag.Verify run with a throw-away OpenPGP key (ProtonMail/go-crypto) on objects carrying a real "
    "signature over a chosen payload; git's verdict is derived from the (payload, signature) pair the git binary hands to gpg.program: "
    "accept when it is exactly (signed payload, that signature), reject when the payload differs or the signature is absent, no verdict otherwise",
    "the known-finding classes are decided by the boolean guards of Spec/SigGuards (the hypotheses of the _partial theorems), evaluated by Coq",
]
ASSUMPTIONS = ["git verifies the `gpgsig` header of commits in a SHA-1 repository, the `gpgsig-sha256` header in a SHA-256 repository, and "
               "the inline trailing signature of tags in both",
               "a signature buffer with several armored blocks is refused by git (gpg prints one status per block, parse_gpg_output "
               "refuses the second) — modelled on go-git's side only (countSignatureBlocks), not compared with a real gpg",
               "git only calls the verifier for signatures starting with a known armor line; other objects are not compared",
               "three or more gpgsig regions in a tag header are undefined behaviour in git 2.39 (it aborts): excluded"]
RULE = ("case = stored commit/tag bytes with 0..4 signature headers in any header position, continuation lines, gpgsig-prefixed other "
        "headers, inline PGP/SSH/X509 blocks (buckets sigs, canonical, permuted, dups, oddident, oddhdr, eofhdr, trunc, junk), optionally one "
        "exported field mutated after Decode, or (cverify/tverify) a template with a real OpenPGP signature in the gpgsig / gpgsig-sha256 "
        "header or inline; plus, on every run, a grid `*-long-<kind>-<L>` of commits and tags with one line of exactly L bytes, L = 4095, 4096, "
        "4097 (thorough: also 8191, 8192, 8193, 12288: the multiples of the 4096-byte bufio buffer stripHeaderSignatures reads with, +-1), as "
        "an extra header / a continuation line / the author-committer-tagger line before or after the signature header, or as a continuation "
        "line inside the gpgsig value, and a cverify/tverify case with a real signature after such a line; ids of 40 or 64 hex digits (fmt); non-trivial = contains a gpgsig header or an armor line, or is a mutation / "
        "verify case; distinct by content")

VISIBLE_C = ["msg", "tree", "addparent", "enc", "addextra", "a.name", "a.email", "a.ts", "a.tz", "c.name", "c.email", "c.ts", "c.tz", "hash"]
INVISIBLE_C = ["none", "sig", "sig256", "a.nsec", "c.nsec"]
VISIBLE_T = ["msg", "name", "target", "type", "t.name", "t.email", "t.ts", "t.tz", "hash"]
INVISIBLE_T = ["none", "sig", "sig256", "t.nsec"]


TOKEN = b"-----BEGIN PGP SIGNATURE-----\n\nTOKEN\n-----END PGP SIGNATURE-----\n"      # stands for the real signature in the model
FAKE = b"-----BEGIN PGP SIGNATURE-----\n\nFAKE\n-----END PGP SIGNATURE-----\n"


def embed(where, sig):
    """an armored block as a header value (continuation lines) or inline — mirrors harness/cmd/c03 embed"""
    if where == "inline":
        return sig
    return where.encode() + b" " + sig[:-1].replace(b"\n", b"\n ") + b"\n"


def flat(groups):
    return b"".join(b"".join(ls) for _, ls in groups)


# ---- header lines at and around the 4096-byte buffer of the pooled bufio.Reader stripHeaderSignatures reads with
# (a reader that hands a long line back in buffer-sized pieces re-classifies each piece as a new line: a lone-LF leftover
# looks like the header/body separator, a tail piece of a gpgsig continuation line looks like an ordinary header)
LONG_QUICK = [4095, 4096, 4097]
LONG_THOROUGH = [4095, 4096, 4097, 8191, 8192, 8193, 12288]
LONG_KINDS_C = ["hdr-before", "hdr-after", "cont-before", "sigcont", "ident-before", "hdr-before-2sig"]
LONG_KINDS_T = ["hdr-before", "hdr-after", "cont-before", "sigcont", "ident-before"]
PADS = [b"A", b"abcXYZ019+/=", b"abc def", b"g ps-"]


def long_line(rng, prefix, L):
    """one LF-terminated line of exactly L bytes before the LF, starting with prefix; the padding never ends in a blank"""
    n = L - len(prefix)
    pad = G.rbytes(rng, n, rng.choice(PADS)) if n > 0 else b""
    if pad.endswith(b" "):
        pad = pad[:-1] + b"z"
    return prefix + pad + b"\n"


def long_groups(rng, g, kind, L, sigkeys, first_pos):
    """header groups g + one line of length L placed relative to the signature header(s) as kind says"""
    g = list(g)
    sigs = []
    for key in sigkeys:
        body = G.sig_body(rng) + [b""]
        ls = G.multiline_header(key, body)
        if kind == "sigcont":
            k = rng.randrange(1, len(ls))
            ls.insert(k, long_line(rng, b" ", L))
        sigs.append(("sig", ls))
    if kind == "ident-before":
        who = b"tagger " if any(k == "object" for k, _ in g) else rng.choice([b"author ", b"committer "])
        tail = b" <" + G.email(rng) + b"> " + G.ts_canon(rng) + b" " + rng.choice(G.ZONES)
        line = long_line(rng, who, L - len(tail))[:-1] + tail + b"\n"
        g = [(k, ls) for k, ls in g if k != who.strip().decode()]
        at = min(len(g), 3 if who == b"tagger " else 1 + sum(1 for k, _ in g if k == "parent") + (who == b"committer "))
        g.insert(at, (who.strip().decode(), [line]))
        return g + sigs
    if kind == "sigcont":
        at = rng.randrange(first_pos, len(g) + 1)
        return g[:at] + sigs + g[at:]
    if kind == "cont-before":
        longg = ("extra", [b"mergetag v\n", long_line(rng, b" ", L)] + ([b" tail\n"] if rng.random() < 0.5 else []))
    else:
        longg = ("extra", [long_line(rng, rng.choice([b"x-long ", b"mergetag ", b"note "]), L)])
    at = rng.randrange(first_pos, len(g) + 1)
    if kind == "hdr-after":
        return g[:at] + sigs + [longg] + g[at:]
    between = [("extra", [b"x-mid v\n"])] if rng.random() < 0.4 else []
    return g[:at] + [longg] + between + sigs + g[at:]


def long_commit(rng, kind, L, hl=40):
    G.DEFAULT_HL[0] = hl
    try:
        g = G.commit_headers(rng, nsig=0, n256=0)
        primary = b"gpgsig" if hl == 40 else b"gpgsig-sha256"
        keys = [b"gpgsig", b"gpgsig-sha256"] if kind.endswith("-2sig") else [primary]
        g = long_groups(rng, g, kind[:-5] if kind.endswith("-2sig") else kind, L, keys, 1)
        return G.assemble(g, G.message(rng, rng.choice(["plain", "plain", "nolf", "headerlike"])))
    finally:
        G.DEFAULT_HL[0] = 40


def long_tag(rng, kind, L, hl=40):
    G.DEFAULT_HL[0] = hl
    try:
        g = long_groups(rng, G.tag_headers(rng), kind, L, [rng.choice([b"gpgsig-sha256", b"gpgsig-sha256", b"gpgsig"])], 3)
        return G.assemble(g, G.tag_body(rng, nsigblocks=1))
    finally:
        G.DEFAULT_HL[0] = 40


def long_grid(rng, tier):
    """every kind x every length, for commits and tags (SHA-1 ids; in the thorough tier also 64-digit ids), and one
    real-signature verify case per length"""
    cases = []
    for L in (LONG_QUICK if tier == "quick" else LONG_THOROUGH):
        for hl in ((40,) if tier == "quick" else (40, 64)):
            fmt, sfx = ("sha1", "") if hl == 40 else ("sha256", "-256")
            for kind in LONG_KINDS_C:
                cases.append({"op": "cpay", "bucket": "cpay-long-%s-%d%s" % (kind, L, sfx), "fmt": fmt, "raw": long_commit(rng, kind, L, hl).hex()})
            for kind in LONG_KINDS_T:
                cases.append({"op": "tpay", "bucket": "tpay-long-%s-%d%s" % (kind, L, sfx), "fmt": fmt, "raw": long_tag(rng, kind, L, hl).hex()})
        cases.append({"op": "strip", "bucket": "strip-long-%d" % L,
                      "raw": (long_commit(rng, "hdr-before", L) if rng.random() < 0.5 else long_tag(rng, "sigcont", L)).hex()})
        cases.append(verify_case(rng, "cverify", long=L))
        cases.append(verify_case(rng, "tverify", long=L))
    return cases


def verify_case(rng, op, long=None):
    """a template around ONE real signature: pre ++ embed(where, sig) ++ post, and the payload that gets signed (git's
    payload of the finished object unless the scenario says otherwise)"""
    fmt = "sha256" if rng.random() < 0.4 else "sha1"
    if long and op == "cverify":
        fmt = "sha1"        # Commit.Verify never looks at gpgsig-sha256 (known finding): the verdicts are comparable in SHA-1 repositories
    G.DEFAULT_HL[0] = 64 if fmt == "sha256" else 40
    try:
        if op == "cverify":
            g = G.commit_headers(rng, nsig=0, n256=0)
            msg = G.message(rng)
        else:
            g = G.tag_headers(rng)
            msg = G.message(rng, rng.choice(["plain", "plain", "blanktail", "headerlike", "empty"]))
            if msg and not msg.endswith(b"\n"):
                msg += b"\n"
    finally:
        G.DEFAULT_HL[0] = 40
    fake = lambda key: ("sig", G.multiline_header(key, FAKE[:-1].split(b"\n")))
    if op == "cverify":
        primary, other = ("gpgsig", "gpgsig-sha256") if fmt == "sha1" else ("gpgsig-sha256", "gpgsig")
        scen = pick_weighted(rng, [(5, "good"), (2, "other-header"), (2, "both"), (1, "foreign"), (2, "two-blocks"), (1, "tampered")])
        if long:
            scen = "longhdr%d" % long
            g.insert(rng.randrange(1, len(g) + 1), ("extra", [long_line(rng, b"x-long ", long)]))
        where = other if scen == "other-header" else primary
        payload = G.assemble(g, msg)
        groups = list(g)
        if scen == "both":
            groups.insert(rng.randrange(1, len(groups) + 1), fake(other.encode()))
        elif scen == "foreign":
            groups.insert(rng.randrange(1, len(groups) + 1), ("sig", [b"gpgsigx y\n"] + ([b" cont\n"] if rng.random() < 0.5 else [])))
        elif scen == "two-blocks":
            groups.insert(rng.randrange(1, len(groups) + 1), fake(where.encode()))
        elif scen == "tampered":
            payload = payload[:-1] + b"X" if payload else b"X"
        pos = rng.randrange(1, len(groups) + 1)
        if long:        # the real signature header follows the long line
            pos = rng.randrange(1 + max(i for i, x in enumerate(groups) if x[0] == "extra" and len(x[1][0]) > 4000), len(groups) + 1)
        pre, post = flat(groups[:pos]), flat(groups[pos:]) + b"\n" + msg
    else:
        scen = pick_weighted(rng, [(5, "good"), (2, "hdr256"), (1, "hdr-gpgsig"), (1, "two-inline"), (1, "tampered"), (1, "adjacent"), (1, "marker-hdr")])
        where = "inline"
        groups = list(g)
        body = msg
        if long:        # a long header line, then a gpgsig-sha256 header git removes from the payload of the inline signature
            scen = "longhdr%d" % long
            groups.append(("extra", [long_line(rng, b"x-long ", long)]))
            groups.append(fake(b"gpgsig-sha256"))
        if scen == "hdr256":
            groups.append(fake(b"gpgsig-sha256"))
        elif scen == "hdr-gpgsig":
            groups.insert(rng.randrange(3, len(groups) + 1), fake(b"gpgsig"))
        elif scen == "adjacent":
            groups += [("sig", [b"gpgsig a\n"]), ("sig", [b"gpgsig-sha256 b\n"])]
        elif scen == "marker-hdr":
            groups.insert(rng.randrange(3, len(groups) + 1), ("marker", [rng.choice(G.MARKERS) + b"\n"]))
        elif scen == "two-inline":
            body = msg + FAKE
        payload = G.assemble([x for x in groups if x[0] != "sig"], body)
        if scen == "tampered":
            payload = payload[:-1] + b"X"
        pre, post = flat(groups) + b"\n" + body, b""
    return {"op": op, "bucket": "%s-%s-%s" % (op, scen, fmt), "fmt": fmt, "scen": scen, "where": where, "pre": pre.hex(), "post": post.hex(),
            "payload": payload.hex()}


def model_raw(c):
    return bytes.fromhex(c["pre"]) + embed(c["where"], TOKEN) + bytes.fromhex(c["post"])


def cb(h):
    return '(unhex "%s")' % h


def coq_imut(what, c):
    if what == "name":
        return "(IName %s)" % cb(c["val"])
    if what == "email":
        return "(IEmail %s)" % cb(c["val"])
    if what == "ts":
        return "(ITs (%d)%%Z)" % c["n"]
    if what == "tz":
        return "(ITz (%d)%%Z)" % c["n"]
    return "INsec"


def coq_cmut(c):
    m = c["mut"]
    simple = {"none": "CNone", "dropparents": "CDropParents", "dropextras": "CDropExtras", "hash": "CHash"}
    if m in simple:
        return simple[m]
    if m in ("tree", "addparent"):
        return "(%s %s)" % ({"tree": "CTree", "addparent": "CAddParent"}[m], cb(bytes.fromhex(c["val"]).decode()))
    if m in ("msg", "enc", "addextra", "sig", "sig256"):
        return "(%s %s)" % ({"msg": "CMsg", "enc": "CEnc", "addextra": "CAddExtra", "sig": "CSig", "sig256": "CSig256"}[m], cb(c["val"]))
    who, what = m.split(".")
    return "(%s %s)" % ("CAuthor" if who == "a" else "CCommitter", coq_imut(what, c))


def coq_tmut(c):
    m = c["mut"]
    if m == "none":
        return "TNone"
    if m == "hash":
        return "THash"
    if m == "target":
        return "(TTarget %s)" % cb(bytes.fromhex(c["val"]).decode())
    if m in ("msg", "name", "type", "sig", "sig256"):
        return "(%s %s)" % ({"msg": "TMsg", "name": "TName", "type": "TType", "sig": "TSig", "sig256": "TSig256"}[m], cb(c["val"]))
    return "(TTaggerM %s)" % coq_imut(m.split(".")[1], c)


def parse_ok(out):
    """'( ok xAA xBB 3 )' -> list of items (bytes for x-items, int for numbers, str for symbols) or None"""
    if not out or not out.startswith("( ok "):
        return None
    items = []
    for t in out[5:-2].split():
        if t.startswith("x"):
            items.append(bytes.fromhex(t[1:]))
        elif re.fullmatch(r"-?\d+", t):
            items.append(int(t))
        else:
            items.append(t)
    return items


def header_lines(raw):
    ls = raw.split(b"\n")
    lines = [l + b"\n" for l in ls[:-1]] + ([ls[-1]] if ls[-1] else [])
    out = []
    for l in lines:
        if l == b"\n":
            break
        out.append(l)
    return out


def is_sig_hdr(l):
    return l.startswith(b"gpgsig ") or l.startswith(b"gpgsig-sha256 ")


def last_marker(raw):
    pos, m = 0, None
    for l in raw.split(b"\n"):
        if any(l.startswith(k) for k in G.MARKERS):
            m = pos
        pos += len(l) + 1
    return m


def commit_class(raw):
    """known-finding class of a commit on which go-git's payload/signature differs from git's, by input shape"""
    h = header_lines(raw)
    if any(l.startswith(b"gpgsig") and not is_sig_hdr(l) for l in h):
        return "commit-gpgsig-prefixed-header"
    if h and not h[-1].endswith(b"\n") and b"\n\n" not in raw:
        # the object ends inside the header, on an unterminated line of a gpgsig region
        i = len(h) - 1
        while i > 0 and h[i].startswith(b" "):
            i -= 1
        if h[i].startswith(b"gpgsig ") or h[i].startswith(b"gpgsig-sha256 "):
            return "commit-gpgsig-unterminated"
    return None


def tag_class(raw):
    m = last_marker(raw)
    buf = raw if m is None else raw[:m]
    h = header_lines(buf)
    if m is not None and m < sum(len(l) for l in header_lines(raw)):
        return "tag-marker-in-header"
    if any(l.startswith(b"gpgsig") and not is_sig_hdr(l) for l in h):
        return "tag-gpgsig-prefixed-header"
    insig = False
    for l in h:
        if insig and l.startswith(b" "):
            continue
        if is_sig_hdr(l):
            if insig:
                return "tag-gpgsig-adjacent"
            insig = True
        else:
            insig = False
    return None


def known_class(op, raw, guards, what):
    """class of a payload/signature mismatch.  The boolean guards of the C03 `_partial` theorems (Spec/SigGuards,
    evaluated by Coq) decide WHETHER it is a known divergence; the input shape only names it."""
    if op in ("cpay", "cmut"):
        if not guards[0]:
            return "commit-gpgsig-prefixed-header"
        if not guards[1] and what == "sig":
            return commit_class(raw)
        return None
    if not guards[1] and what == "sig":
        return "tag-marker-in-header"
    if not guards[0]:
        return tag_class(raw)
    if not guards[1]:
        return "tag-marker-in-header"
    return None


class Main(Suite):
    name = "main"
    go_cmd = "c03"
    coq_imports = "From GoGit Require Import Model.ObjLines Model.Ident Model.Commit Model.Tag Model.SigPayload Spec.GitSig Spec.SigGuards."
    quick_n = 340
    thorough_n = 3000

    def gen(self, rng, n, tier):
        cases = []
        for _ in range(n):
            op = pick_weighted(rng, [(6, "cpay"), (6, "tpay"), (2, "cmut"), (2, "tmut"), (1, "psb"), (1, "strip"), (2, "cverify"), (1, "tverify")])
            fmt = "sha256" if op in ("cpay", "tpay") and rng.random() < 0.3 else "sha1"
            hl = 64 if fmt == "sha256" else 40
            if op in ("cverify", "tverify"):
                c = verify_case(rng, op)
            elif op in ("cpay", "cmut"):
                b = pick_weighted(rng, [(4, "sigs"), (3, "canonical"), (1, "permuted"), (1, "dups"), (1, "oddident"), (2, "oddhdr"), (1, "eofhdr"), (1, "trunc"), (1, "junk")]) if op == "cpay" else \
                    pick_weighted(rng, [(4, "canonical"), (3, "sigs"), (1, "dups"), (1, "oddident")])
                c = {"op": op, "bucket": op + "-" + b + ("-256" if hl == 64 else ""), "fmt": fmt, "raw": G.raw_commit(rng, b, hl).hex()}
                if op == "cmut":
                    self.mutation(rng, c, VISIBLE_C, INVISIBLE_C)
            elif op in ("tpay", "tmut"):
                b = pick_weighted(rng, [(4, "canonical"), (4, "sigs"), (1, "oddident"), (2, "oddhdr"), (1, "eofhdr"), (1, "trunc"), (1, "junk")]) if op == "tpay" else \
                    pick_weighted(rng, [(4, "canonical"), (2, "sigs"), (1, "oddident")])
                c = {"op": op, "bucket": op + "-" + b + ("-256" if hl == 64 else ""), "fmt": fmt, "raw": G.raw_tag(rng, b, hl).hex()}
                if op == "tmut":
                    self.mutation(rng, c, VISIBLE_T, INVISIBLE_T)
            elif op == "psb":
                c = {"op": op, "bucket": "psb", "raw": (G.tag_body(rng) if rng.random() < 0.7 else G.raw_tag(rng, "junk")).hex()}
            else:
                c = {"op": op, "bucket": "strip", "raw": (G.raw_commit(rng, "sigs") if rng.random() < 0.6 else G.raw_tag(rng, "sigs")).hex()}
            cases.append(c)
        return cases + long_grid(rng, tier)

    def mutation(self, rng, c, visible, invisible):
        m = rng.choice(visible) if rng.random() < 0.65 else rng.choice(invisible)
        c["mut"] = m
        c["val"] = ""
        c["n"] = 0
        what = m.split(".")[-1]
        if m in ("tree", "addparent", "target"):
            c["val"] = G.rhash(rng).hex()
        elif m == "type":
            c["val"] = b"ref-delta".hex()      # never produced by the generators, so always a change
        elif what in ("msg", "name", "email", "enc", "addextra", "sig", "sig256"):
            c["val"] = (b"verif-" + G.word(rng) + (b"\n" if what in ("msg", "sig", "sig256") else b"")).hex()
        elif what == "ts":
            c["n"] = rng.choice([77, 4102444800 + rng.randrange(1000)])
        elif what == "tz":
            c["n"] = rng.choice([17, -17, 601])
        elif what == "nsec":
            c["n"] = rng.randrange(1, 999999999)

    def model_expr(self, c):
        op = c["op"]
        if op in ("cpay", "tpay", "psb", "strip"):
            return 'c03_%s "%s"' % (op, c["raw"])
        if op == "cmut":
            return 'c03_cmut "%s" %s' % (c["raw"], coq_cmut(c))
        if op == "tmut":
            return 'c03_tmut "%s" %s' % (c["raw"], coq_tmut(c))
        if op in ("cverify", "tverify"):
            return 'c03_%s "%s" "%s" "%s"' % (op, model_raw(c).hex(), c["payload"], TOKEN.hex())

    def nontrivial(self, c):
        if c["op"] in ("cmut", "tmut", "cverify", "tverify"):
            return True
        return b"gpgsig" in bytes.fromhex(c["raw"]) or b"-----BEGIN" in bytes.fromhex(c["raw"])

    def kind_of(self, c):
        return "commit" if c["op"] in ("cpay", "cmut", "cverify") else "tag"

    def sides(self, ctx, cases, impl):
        """-> (git: {id: (payload, sig) | (None, reason)}, guards {id: [bool, bool]} from Spec/SigGuards, S outputs).
        Objects are stored in a repository of their object format (fmt); verify cases store the object the harness built."""
        if getattr(self, "_cache", None) and self._cache[0] is cases:
            return self._cache[1]
        cs = [c for c in cases if c["op"] in ("cpay", "tpay", "cmut", "tmut", "cverify", "tverify")]
        exprs = []
        for c in cs:
            k = self.kind_of(c)
            raw = model_raw(c).hex() if c["op"] in ("cverify", "tverify") else c["raw"]
            sp = "commit256" if k == "commit" and c.get("fmt") == "sha256" else k
            exprs.append('OList [c03_guards_%s "%s"; c03_spec_%s "%s"]' % (k, raw, sp, raw))
        outs = ctx.coq_eval(self.coq_imports, exprs)
        guards, spec = {}, {}
        for c, o in zip(cs, outs):
            if o is None:
                continue
            mm = re.match(r"^\( \( (true|false) (true|false) \) (.*) \)$", o)
            guards[c["id"]] = [mm.group(1) == "true", mm.group(2) == "true"]
            spec[c["id"]] = mm.group(3)
        git = {}
        for fmt in ("sha1", "sha256"):
            fc = [c for c in cs if c.get("fmt", "sha1") == fmt]
            if not fc:
                continue
            repo = GitRepo(ctx.tmp, "c03ref%s-%d" % (fmt, len(cases)), fmt)
            for kind in ("commit", "tag"):
                ks, raws = [], []
                for c in fc:
                    if self.kind_of(c) != kind:
                        continue
                    if c["op"] in ("cverify", "tverify"):
                        ex = (impl.get(c["id"]) or {}).get("extra") or {}
                        if "raw" not in ex:
                            continue
                        raws.append(bytes.fromhex(ex["raw"]))
                    else:
                        raws.append(bytes.fromhex(c["raw"]))
                    ks.append(c)
                oids = repo.store(kind, raws)
                # quick tier: git is asked about every object S expects a signature in, and a sample of the others
                ask = [ctx.tier != "quick" or c["op"] in ("cverify", "tverify") or spec.get(c["id"], "") != "nosig" or n % 4 == 0
                       for n, c in enumerate(ks)]
                outs = repo.pmap(lambda oa: repo.verify(kind, oa[0]) if oa[1] else (None, "unasked"), list(zip(oids, ask)))
                for c, o in zip(ks, outs):
                    git[c["id"]] = o
        self._cache = (cases, (git, guards, spec))
        return self._cache[1]

    def oracle(self, ctx, cases, impl, model):
        """the property on the implementation: payload and signature handed to a verifier == git's; with a real key,
        Verify accepts exactly when git's (payload, signature) pair is the signed one"""
        fails = {}
        git, guards, spec = self.sides(ctx, cases, impl)
        self._vstats = {"git_accepts": 0, "git_rejects": 0, "no_verdict": 0, "agree": 0}
        for c in cases:
            i, op = c["id"], c["op"]
            if op not in ("cpay", "tpay", "cmut", "tmut", "cverify", "tverify") or i not in guards:
                continue
            r = impl.get(i)
            if r is None:
                fails[i] = "no reply"
                continue
            got = parse_ok(r["out"])
            gp, gs = git.get(i, (None, "unasked"))
            if op in ("cverify", "tverify"):
                if got is None or gs == "unasked":
                    continue
                ex = r.get("extra") or {}
                raw, sig, signed = bytes.fromhex(ex["raw"]), bytes.fromhex(ex["sig"]), bytes.fromhex(c["payload"])
                go_ok = got[0] == "true"
                if gp is not None and gp == signed and gs == sig:
                    git_ok = True
                elif gp is None and gs in ("nosig", "badformat") or gp is not None and (gp != signed or sig not in gs):
                    git_ok = False
                else:
                    self._vstats["no_verdict"] += 1
                    continue        # several blocks in git's signature buffer, git refuses the object ...: no verdict
                self._vstats["git_accepts" if git_ok else "git_rejects"] += 1
                self._vstats["agree"] += go_ok == git_ok
                if go_ok != git_ok:
                    cls = None
                    if op == "cverify" and c["fmt"] == "sha256" and (c["where"], go_ok) in (("gpgsig-sha256", False), ("gpgsig", True)):
                        cls = "commit-sha256-verify-field"
                    elif op == "cverify":
                        cls = known_class("cpay", raw, guards[i], "payload")
                    else:
                        cls = known_class("tpay", raw, guards[i], "payload" if gp is not None and gp != signed or git_ok else "sig")
                    fails[i] = "Verify %s a signature git %s (%s, %s) [class=%s]" % (
                        "accepts" if go_ok else "rejects", "accepts" if git_ok else "rejects", c["scen"], c["fmt"], cls)
                continue
            if op in ("cmut", "tmut"):
                if got is None:
                    continue
                vis = c["mut"] in (VISIBLE_C if op == "cmut" else VISIBLE_T)
                if vis and got[0] == "true":
                    fails[i] = "a changed exported field (%s) is ignored: the raw source payload is used" % c["mut"]
                elif not vis and got[0] == "false":
                    fails[i] = "mutation %s (not part of the payload) switched to the struct encoding" % c["mut"]
                elif not vis and gp is not None and got[1] != gp:
                    fails[i] = "payload of an unmutated decoded object differs from git's [class=%s]" % (
                        known_class(op, bytes.fromhex(c["raw"]), guards[i], "payload"))
                continue
            if gp is None:
                continue        # git does not verify this object (no signature / refuses it / crashes): nothing to compare
            raw = bytes.fromhex(c["raw"])
            if got is None:
                continue        # go-git does not decode the object: C02's business (git verify-tag does not parse the tag at all)
            elif got[0] != gp:
                fails[i] = "payload differs from git's: %r vs %r [class=%s]" % (got[0][-80:], gp[-80:], known_class(op, raw, guards[i], "payload"))
            elif op == "cpay" and c.get("fmt") == "sha256":
                # SHA-256 repository: git's signature is the gpgsig-sha256 header; Commit.Verify hands Commit.Signature to the verifier
                if got[2] != gs:
                    fails[i] = "SignatureSHA256 differs from git's signature: %r vs %r [class=%s]" % (got[2][-60:], gs[-60:], known_class(op, raw, guards[i], "sig"))
                elif got[1] != gs:
                    fails[i] = "signature handed to the verifier differs from git's (sha256 repository): %r vs %r [class=commit-sha256-verify-field]" % (got[1][-60:], gs[-60:])
            elif got[1] != gs:
                fails[i] = "signature differs from git's: %r vs %r [class=%s]" % (got[1][-60:], gs[-60:], known_class(op, raw, guards[i], "sig"))
        return fails

    def finding_class(self, case, reason, reply):
        m = re.search(r"\[class=([a-z0-9-]+)\]", reason)
        return m.group(1) if m and m.group(1) != "None" else None

    def extra(self, ctx, cases, impl, model):
        """C-git: S (Spec/GitSig) vs the git binary on the same objects"""
        git, guards, spec = self.sides(ctx, cases, impl)
        cs = [c for c in cases if c["op"] in ("cpay", "tpay") and c["id"] in spec]
        outs = [spec[c["id"]] for c in cs]
        bad = compared = undefined = compared256 = 0
        stats = {}
        for c, o in zip(cs, outs):
            gp, gs = git.get(c["id"], (None, "unasked"))
            if gp is None and gs == "unasked":
                continue
            k = "dumped" if gp is not None else gs.split(":")[0]
            stats[k] = stats.get(k, 0) + 1
            if o is None:
                bad += 1
                ctx.notes.append("spec evaluation failed on %s" % c["raw"][:80])
                continue
            if c.get("fmt") == "sha256" and (gp is not None or gs == "nosig"):
                compared256 += 1
            if gp is not None:
                compared += 1
                want = "( ok x%s x%s )" % (gp.hex(), gs.hex())
                if o != want:
                    bad += 1
                    ctx.notes.append("spec_mismatch S vs git on %s %s: S=%s git=%s" % (c["op"], c["raw"], o[:200], want[:200]))
            elif gs == "nosig":
                compared += 1
                if o != "nosig":
                    bad += 1
                    ctx.notes.append("spec_mismatch S vs git (git: no signature) on %s %s: S=%s" % (c["op"], c["raw"], o[:200]))
            elif gs == "crash":
                undefined += 1
                if o != "undefined":
                    ctx.notes.append("git crashed where S is defined on %s %s: S=%s" % (c["op"], c["raw"], o[:120]))
        nver = sum(1 for c in cases if c["op"] in ("cverify", "tverify"))
        acc = sum(1 for c in cases if c["op"] in ("cverify", "tverify") and (parse_ok((impl.get(c["id"]) or {}).get("out", "")) or [""])[0] == "true")
        return {"spec_vs_git_cases": compared, "spec_vs_git_cases_sha256": compared256, "spec_mismatches": bad, "git_outcomes": stats,
                "git_crashes": undefined, "verify_cases": nver, "verify_accepted_by_go_git": acc,
                "verify_verdicts": getattr(self, "_vstats", None)}


SUITES = [Main()]
