"""C14 Reference and reflog storage cannot escape the refs namespace (DESIGN.md §4.C14)."""
import re
from vf.core import Suite
from vf.gen import rbytes, pick_weighted, all_strings

ID = "C14"
THEOREMS = ["C14_refused", "C14_confined", "C14_guard_sound", "C14_hfs_fold_spec", "C14_ntfs_fold_spec"]
MODEL_FILES = ["RefStrings.v", "RefName.v", "RefGuard.v", "RefStore.v", "RefPaths.v"]
MODELLED = ("plumbing/reference.go ReferenceName.IsSafe; storage/filesystem/dotgit validReferenceName with internal/pathutil IsHFSDot(part, \".\") "
            "and IsNTFSDot(part, \".\", \"\") (Model/RefGuard.v; the rune loop of IsHFSDot as a byte loop over the UTF-8 encodings of the sixteen "
            "ignorable code points); the paths SetRef, Ref, RemoveRef, Refs, PackRefs, ReflogReader, ReflogWriter, DeleteReflog hand to the "
            "filesystem for a name (Model/RefPaths.v). Spec: lexical path resolution (Spec/PathRes.v). Not modelled: the operating system's own "
            "resolution of symbolic links inside refs/ or logs/ (exercised separately), billy's choice of temp directory and suffix")
TRUSTED = [
    "C-impl: a recording billy.Filesystem (harness/cmd/c14 recfs over memfs) under dotgit.DotGit; observable = the set of path arguments "
    "of every filesystem call of one operation, or the refusal, vs Model/RefPaths.footprint on every case",
    "direct oracle: every recorded raw path is resolved lexically in python (no empty, '.', '..' component, none that NTFS or HFS+ folds to "
    "'..', no backslash, first component refs / logs / packed-refs / an all-caps pseudo-ref / the packed-refs temp file), and a refusal must "
    "come before any filesystem call",
]
ASSUMPTIONS = ["paths are resolved lexically by the filesystem: no component inside refs/ or logs/ is a symbolic link (the OS resolver is outside the model)",
               "NTFS treats trailing spaces/periods and ':stream' suffixes, HFS+ the sixteen ignorable code points, as in git's is_ntfs_dot_generic / is_hfs_dot_generic",
               "filepath.Join/Clean leave a path without empty, '.' and '..' components unchanged"]
RULE = ("case = (name, entry point, repository state); names: dot-dot and absolute escapes, backslashes, NTFS disguises ('.. ', '...', '..:x'), "
        "HFS+ disguises (ignorable code points around the dots, also invalid UTF-8 look-alikes), control bytes, lower-case one-level names "
        "(config, index, objects/..), pseudo-refs, names with spaces, random strings over the path alphabet, small-scope exhaustive "
        "enumeration over {a . / \\\\ space :} (length <= 3 quick, <= 5 thorough); non-trivial = the name is not a plain refs/heads/<word>; "
        "distinct by content")

OPS = ["set", "cas", "ref", "rm", "list", "pack", "logread", "logwrite", "logdel"]
ZW = [b"\xe2\x80\x8c", b"\xe2\x80\x8d", b"\xe2\x80\x8e", b"\xe2\x80\x8f", b"\xe2\x80\xaa", b"\xe2\x80\xae", b"\xe2\x81\xaa", b"\xe2\x81\xaf", b"\xef\xbb\xbf"]
NEAR_ZW = [b"\xe2\x80\x8b", b"\xe2\x80\x90", b"\xe2\x80\xa9", b"\xe2\x80\xaf", b"\xe2\x81\xa9", b"\xe2\x81\xb0", b"\xef\xbb\xbe", b"\xe2\x80", b"\xe2", b"\xc0\xae", b"\xef\xbf\xbd"]
KEY = [b"refs/heads/a", b"refs/heads/a/b", b"refs/tags/v1", b"refs/x", b"refs/remotes/origin/HEAD", b"HEAD", b"FETCH_HEAD", b"ORIG_HEAD", b"MERGE_HEAD", b"A", b"_",
       b"..", b"../config", b"../../etc/passwd", b"refs/..", b"refs/../config", b"refs/heads/../../config", b"refs/heads/../../../x", b"refs/heads/..",
       b"refs/heads/a/..", b"refs/./heads/a", b"refs/heads/.", b"refs/heads/./a", b".", b"./refs/heads/a", b"/etc/passwd", b"/refs/heads/a", b"//refs", b"C:/x",
       b"C:\\x", b"refs\\..\\config", b"refs/heads\\..\\..\\config", b"refs/heads/a\\b", b"..\\config", b"refs/heads/..\\x",
       b"refs/heads/.. ", b"refs/heads/...", b"refs/heads/.. . .", b"refs/heads/..:stream", b"refs/heads/.. :x", b"refs/heads/..a", b"refs/heads/. ", b"refs/heads/. .",
       b"refs/heads/a.", b"refs/heads/a ", b"refs/heads/ ..", b"refs/.. /config", b"refs/...", b"refs/heads/..:", b"refs/heads/..::$DATA/x",
       b"config", b"index", b"objects", b"objects/ab/cd", b"hooks/pre-commit", b"packed-refs", b"shallow", b"logs/HEAD", b"logs/refs/heads/a", b"info/exclude",
       b"head", b"Head", b"HEAD/x", b"HEAD ", b"HEAD.", b"Config", b"CONFIG", b"INDEX", b"refs", b"refs/", b"refs//a", b"refs/heads//a", b"refs/heads/a/", b"",
       b"refs/heads/a b", b"refs/heads/a\tb", b"refs/heads/a\nb", b"refs/heads/a\x7f", b"refs/heads/\x01", b"refs/heads/a\x00b", b"refs/heads/\xff\xfe",
       b"refs/heads/a.lock", b"refs/heads/@", b"refs/heads/~", b"refs/heads/*", b"REFS/heads/a", b"Refs/heads/a", b"refsx/heads/a", b"ref/heads/a"]


def hfs_names():
    out = []
    for z in ZW + NEAR_ZW:
        for shape in (z + b"..", b"." + z + b".", b".." + z, z + b"." + z + b"." + z, b"." + z, z + b".", b".." + z + b"a", z + z + b".."):
            out.append(b"refs/heads/" + shape)
            out.append(b"refs/" + shape + b"/config")
    return out


ALPHA = [b"a", b".", b"/", b"\\", b" ", b":", b"..", b"refs", b"heads", b"HEAD", b"A", b"_", b"\xe2\x80\x8c", b"\x7f", b"\x01", b"-", b"config"]


def resolve_violation(p):
    """None when the raw path stays inside the allowed slots under lexical resolution on POSIX, NTFS and HFS+; else the reason"""
    if p == b"<tmp>":
        return None
    if b"\\" in p:
        return "backslash in %r" % p
    comps = p.split(b"/")
    for c in comps:
        if c in (b"", b".", b".."):
            return "component %r in %r" % (c, p)
        # NTFS: '..' followed only by spaces/periods, optionally an alternate data stream
        if c.startswith(b".."):
            stem = c[2:].split(b":")[0]
            if all(ch in b" ." for ch in stem):
                return "component %r is '..' on NTFS in %r" % (c, p)
        # HFS+: ignorable code points vanish
        t = c.decode("utf-8", errors="replace")
        t = "".join(ch for ch in t if ord(ch) not in (0x200c, 0x200d, 0x200e, 0x200f, 0x202a, 0x202b, 0x202c, 0x202d, 0x202e,
                                                      0x206a, 0x206b, 0x206c, 0x206d, 0x206e, 0x206f, 0xfeff))
        if t == "..":
            return "component %r is '..' on HFS+ in %r" % (c, p)
    if comps[0] == b"logs":
        comps = comps[1:]
        if not comps:
            return None
    if comps == [b"packed-refs"]:
        return None
    if comps[0] == b"refs":
        return None
    if len(comps) == 1 and re.fullmatch(rb"[A-Z_]+", comps[0]):
        return None
    return "%r is outside refs/**, logs/**, packed-refs and the all-caps pseudo-ref slots" % p


class Main(Suite):
    name = "main"
    go_cmd = "c14"
    coq_imports = "From GoGit Require Import Model.RefPaths."
    quick_n = 250
    thorough_n = 8000
    coq_chunk = 300

    def gen(self, rng, n, tier):
        cases = []
        for nm in KEY:
            for op in OPS:
                cases.append({"bucket": "key", "name": nm.hex(), "op": op, "pop": rng.random() < 0.5})
        hn = hfs_names()
        for nm in (hn if tier == "thorough" else rng.sample(hn, 150)):
            cases.append({"bucket": "hfs", "name": nm.hex(), "op": rng.choice(OPS), "pop": rng.random() < 0.5})
        for _ in range(n):
            b = pick_weighted(rng, [(4, "alpha"), (2, "mutkey"), (1, "bytes")])
            if b == "alpha":
                nm = rng.choice([b"refs/", b"refs/heads/", b"", b"refs/heads/a/"]) + b"".join(rng.choice(ALPHA) for _ in range(rng.randrange(1, 6)))
            elif b == "mutkey":
                s = bytearray(rng.choice(KEY))
                pos = rng.randrange(len(s) + 1)
                s[pos:pos] = rng.choice(ALPHA + ZW)
                nm = bytes(s)
            else:
                nm = rng.choice([b"refs/heads/", b""]) + bytes(rng.randrange(256) for _ in range(rng.randrange(1, 8)))
            cases.append({"bucket": b, "name": nm.hex(), "op": rng.choice(OPS), "pop": rng.random() < 0.5})
        depth = 5 if tier == "thorough" else 3
        for s in all_strings(b"a./\\ :", depth):
            for pre in (b"refs/", b"refs/heads/"):
                if tier != "thorough" and len(s) == 3 and rng.random() < 0.5:
                    continue
                cases.append({"bucket": "exhaustive", "name": (pre + s).hex(), "op": rng.choice(OPS), "pop": rng.random() < 0.5})
        return cases

    def model_expr(self, c):
        return 'c14_run "%s" %s "%s"' % (c["op"], "true" if c["pop"] else "false", c["name"])

    def nontrivial(self, c):
        return re.fullmatch(rb"refs/heads/[a-z]+", bytes.fromhex(c["name"])) is None

    def show(self, c):
        return dict(c, name_text=repr(bytes.fromhex(c["name"])))

    def oracle(self, ctx, cases, impl, model):
        fails = {}
        self.stats = {"refused": 0, "touched": 0}
        for c in cases:
            r = impl.get(c["id"])
            if r is None or r.get("panic"):
                continue
            ex = r.get("extra") or {}
            raw = [p.encode("utf-8", errors="surrogateescape") if isinstance(p, str) else p for p in (ex.get("raw") or [])]
            # JSON cannot carry arbitrary bytes: the canonical observable (hex) is authoritative
            toks = r["out"].strip("() ").split()
            kind, paths = toks[0], [bytes.fromhex(t[1:]) for t in toks[1:]]
            if kind == "refused":
                self.stats["refused"] += 1
                if paths:
                    fails[c["id"]] = "refused %r only after touching %r" % (bytes.fromhex(c["name"]), paths)
                continue
            self.stats["touched"] += 1
            for p in paths:
                why = resolve_violation(p)
                if why:
                    fails[c["id"]] = "%s(%r): %s" % (c["op"], bytes.fromhex(c["name"]), why)
                    break
        return fails

    def extra(self, ctx, cases, impl, model):
        # outside the lexical theorem: a symlinked directory below refs/ and logs/refs/, on a real directory
        # through go-git's BoundOS filesystem (os.Root).  Recorded, not judged: the OS resolver is not modelled.
        from vf.core import run_impl
        r = run_impl(self.go_cmd, [{"id": "symlink", "symlink": True}]).get("symlink") or {}
        ctx.notes.append("symlinked refs/heads/evil -> outside (sentinel intact, sentinel value leaked through Ref, entries outside): %s; per call: %s"
                         % (r.get("out"), r.get("extra")))
        return dict(self.stats, symlink_probe=r.get("out"))


SUITES = [Main()]
