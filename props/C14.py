"""C14 Reference and reflog storage cannot escape the refs namespace (DESIGN.md §4.C14)."""
import re
from vf.core import Suite
from vf.gen import rbytes, pick_weighted, all_strings

ID = "C14"
THEOREMS = ["C14_refused", "C14_confined", "C14_guard_sound", "C14_hfs_fold_spec", "C14_ntfs_fold_spec"]
MODEL_FILES = ["RefStrings.v", "RefName.v", "RefGuard.v", "RefStore.v", "RefPaths.v"]
MODELLED = ("plumbing/reference.go ReferenceName.IsSafe; storage/filesystem/dotgit validReferenceName with internal/pathutil IsHFSDot(part, \".\") "
            "and IsNTFSDot(part, \".\", \"\") (Model/RefGuard.v; the rune loop of IsHFSDot as a byte loop over the UTF-8 encodings of the sixteen "
            "ignorable code points); the paths SetRef, Ref, RemoveRef, Refs, PackRefs, ReflogReader, ReflogWriter, DeleteReflog hand to the "
            "filesystem for a name (Model/RefPaths.v). Spec: lexical path resolution (Spec/PathRes.v). Not modelled: the operating system's own "
            "resolution of symbolic links inside refs/ or logs/ (exercised separately), billy's choice of temp directory and suffix")
TRUSTED = [
    "C-impl: a recording billy.Filesystem (harness/cmd/c14 recfs over memfs) under dotgit.DotGit; observable = the set of path arguments "
    "of every filesystem call of one operation, or the refusal, vs Model/RefPaths.footprint on every case",
    "direct oracle: every recorded raw path is resolved lexically in python (no empty, '.', '..' component, none that NTFS or HFS+ folds to "
    "'..', no backslash, first component refs / logs / packed-refs / an all-caps pseudo-ref / the packed-refs temp file), and a refusal must "
    "come before any filesystem call",
    "symtree suite (oracle only, no model): a real directory opened as go-git opens repositories (osfs BoundOS, filesystem.NewStorage) whose refs/ and "
    "logs/ trees contain symbolic links to directories and files in hooks/, info/, objects/info, .git itself and outside the repository, a sentinel "
    "(script, text, object-id-valued file) at every target; every entry point (Reference, SetReference, CheckAndSetReference, RemoveReference, "
    "IterReferences, PackRefs, Reflog, AppendReflog, DeleteReflog) is run once and a full before/after snapshot of everything outside refs/**, logs/**, "
    "packed-refs*, .tmp and the all-caps slots must be identical, and no listed / packed reference may denote (after OS resolution) a file outside "
    "refs/ or carry a sentinel's value; a refusal or error is fine. Not judged (same behaviour validated on git 2.39.5): the ONE file a named operation's "
    "own name resolves to, and a link whose last component is the link (read like a loose reference file; packing removes the link, not the target). "
    "Stricter than git for IterReferences/PackRefs through a linked directory: git pack-refs --all follows it and prunes object-id-valued files there; "
    "go-git refuses (ErrIsDir) and the suite keeps it so",
]
ASSUMPTIONS = ["paths are resolved lexically by the filesystem: no component inside refs/ or logs/ is a symbolic link (the OS resolver is outside the model)",
               "NTFS treats trailing spaces/periods and ':stream' suffixes, HFS+ the sixteen ignorable code points, as in git's is_ntfs_dot_generic / is_hfs_dot_generic",
               "filepath.Join/Clean leave a path without empty, '.' and '..' components unchanged"]
RULE = ("case = (name, entry point, repository state); names: dot-dot and absolute escapes, backslashes, NTFS disguises ('.. ', '...', '..:x'), "
        "HFS+ disguises (ignorable code points around the dots, also invalid UTF-8 look-alikes), control bytes, lower-case one-level names "
        "(config, index, objects/..), pseudo-refs, names with spaces, random strings over the path alphabet, small-scope exhaustive "
        "enumeration over {a . / \\\\ space :} (length <= 3 quick, <= 5 thorough); non-trivial = the name is not a plain refs/heads/<word>; "
        "distinct by content; symtree: (links planted below refs/ and logs/ from a table of 15 directory and 8 file links, "
        "relative / absolute / nested / out of the repository, entry point, name through the link, packed-refs present or not): every directory link "
        "alone under list and pack, file links, mixed trees, named operations through a link")

OPS = ["set", "cas", "ref", "rm", "list", "pack", "logread", "logwrite", "logdel"]
ZW = [b"\xe2\x80\x8c", b"\xe2\x80\x8d", b"\xe2\x80\x8e", b"\xe2\x80\x8f", b"\xe2\x80\xaa", b"\xe2\x80\xae", b"\xe2\x81\xaa", b"\xe2\x81\xaf", b"\xef\xbb\xbf"]
NEAR_ZW = [b"\xe2\x80\x8b", b"\xe2\x80\x90", b"\xe2\x80\xa9", b"\xe2\x80\xaf", b"\xe2\x81\xa9", b"\xe2\x81\xb0", b"\xef\xbb\xbe", b"\xe2\x80", b"\xe2", b"\xc0\xae", b"\xef\xbf\xbd"]
KEY = [b"refs/heads/a", b"refs/heads/a/b", b"refs/tags/v1", b"refs/x", b"refs/remotes/origin/HEAD", b"HEAD", b"FETCH_HEAD", b"ORIG_HEAD", b"MERGE_HEAD", b"A", b"_",
       b"..", b"../config", b"../../etc/passwd", b"refs/..", b"refs/../config", b"refs/heads/../../config", b"refs/heads/../../../x", b"refs/heads/..",
       b"refs/heads/a/..", b"refs/./heads/a", b"refs/heads/.", b"refs/heads/./a", b".", b"./refs/heads/a", b"/etc/passwd", b"/refs/heads/a", b"//refs", b"C:/x",
       b"C:\\x", b"refs\\..\\config", b"refs/heads\\..\\..\\config", b"refs/heads/a\\b", b"..\\config", b"refs/heads/..\\x",
       b"refs/heads/.. ", b"refs/heads/...", b"refs/heads/.. . .", b"refs/heads/..:stream", b"refs/heads/.. :x", b"refs/heads/..a", b"refs/heads/. ", b"refs/heads/. .",
       b"refs/heads/a.", b"refs/heads/a ", b"refs/heads/ ..", b"refs/.. /config", b"refs/...", b"refs/heads/..:", b"refs/heads/..::$DATA/x",
       b"config", b"index", b"objects", b"objects/ab/cd", b"hooks/pre-commit", b"packed-refs", b"shallow", b"logs/HEAD", b"logs/refs/heads/a", b"info/exclude",
       b"head", b"Head", b"HEAD/x", b"HEAD ", b"HEAD.", b"Config", b"CONFIG", b"INDEX", b"refs", b"refs/", b"refs//a", b"refs/heads//a", b"refs/heads/a/", b"",
       b"refs/heads/a b", b"refs/heads/a\tb", b"refs/heads/a\nb", b"refs/heads/a\x7f", b"refs/heads/\x01", b"refs/heads/a\x00b", b"refs/heads/\xff\xfe",
       b"refs/heads/a.lock", b"refs/heads/@", b"refs/heads/~", b"refs/heads/*", b"REFS/heads/a", b"Refs/heads/a", b"refsx/heads/a", b"ref/heads/a"]


def hfs_names():
    out = []
    for z in ZW + NEAR_ZW:
        for shape in (z + b"..", b"." + z + b".", b".." + z, z + b"." + z + b"." + z, b"." + z, z + b".", b".." + z + b"a", z + z + b".."):
            out.append(b"refs/heads/" + shape)
            out.append(b"refs/" + shape + b"/config")
    return out


ALPHA = [b"a", b".", b"/", b"\\", b" ", b":", b"..", b"refs", b"heads", b"HEAD", b"A", b"_", b"\xe2\x80\x8c", b"\x7f", b"\x01", b"-", b"config"]


def resolve_violation(p):
    """None when the raw path stays inside the allowed slots under lexical resolution on POSIX, NTFS and HFS+; else the reason"""
    if p == b"<tmp>":
        return None
    if b"\\" in p:
        return "backslash in %r" % p
    comps = p.split(b"/")
    for c in comps:
        if c in (b"", b".", b".."):
            return "component %r in %r" % (c, p)
        # NTFS: '..' followed only by spaces/periods, optionally an alternate data stream
        if c.startswith(b".."):
            stem = c[2:].split(b":")[0]
            if all(ch in b" ." for ch in stem):
                return "component %r is '..' on NTFS in %r" % (c, p)
        # HFS+: ignorable code points vanish
        t = c.decode("utf-8", errors="replace")
        t = "".join(ch for ch in t if ord(ch) not in (0x200c, 0x200d, 0x200e, 0x200f, 0x202a, 0x202b, 0x202c, 0x202d, 0x202e,
                                                      0x206a, 0x206b, 0x206c, 0x206d, 0x206e, 0x206f, 0xfeff))
        if t == "..":
            return "component %r is '..' on HFS+ in %r" % (c, p)
    if comps[0] == b"logs":
        comps = comps[1:]
        if not comps:
            return None
    if comps == [b"packed-refs"]:
        return None
    if comps[0] == b"refs":
        return None
    if len(comps) == 1 and re.fullmatch(rb"[A-Z_]+", comps[0]):
        return None
    return "%r is outside refs/**, logs/**, packed-refs and the all-caps pseudo-ref slots" % p


class Main(Suite):
    name = "main"
    go_cmd = "c14"
    coq_imports = "From GoGit Require Import Model.RefPaths."
    quick_n = 250
    thorough_n = 8000
    coq_chunk = 300

    def gen(self, rng, n, tier):
        cases = []
        for nm in KEY:
            for op in OPS:
                cases.append({"bucket": "key", "name": nm.hex(), "op": op, "pop": rng.random() < 0.5})
        hn = hfs_names()
        for nm in (hn if tier == "thorough" else rng.sample(hn, 150)):
            cases.append({"bucket": "hfs", "name": nm.hex(), "op": rng.choice(OPS), "pop": rng.random() < 0.5})
        for _ in range(n):
            b = pick_weighted(rng, [(4, "alpha"), (2, "mutkey"), (1, "bytes")])
            if b == "alpha":
                nm = rng.choice([b"refs/", b"refs/heads/", b"", b"refs/heads/a/"]) + b"".join(rng.choice(ALPHA) for _ in range(rng.randrange(1, 6)))
            elif b == "mutkey":
                s = bytearray(rng.choice(KEY))
                pos = rng.randrange(len(s) + 1)
                s[pos:pos] = rng.choice(ALPHA + ZW)
                nm = bytes(s)
            else:
                nm = rng.choice([b"refs/heads/", b""]) + bytes(rng.randrange(256) for _ in range(rng.randrange(1, 8)))
            cases.append({"bucket": b, "name": nm.hex(), "op": rng.choice(OPS), "pop": rng.random() < 0.5})
        depth = 5 if tier == "thorough" else 3
        for s in all_strings(b"a./\\ :", depth):
            for pre in (b"refs/", b"refs/heads/"):
                if tier != "thorough" and len(s) == 3 and rng.random() < 0.5:
                    continue
                cases.append({"bucket": "exhaustive", "name": (pre + s).hex(), "op": rng.choice(OPS), "pop": rng.random() < 0.5})
        return cases

    def model_expr(self, c):
        return 'c14_run "%s" %s "%s"' % (c["op"], "true" if c["pop"] else "false", c["name"])

    def nontrivial(self, c):
        return re.fullmatch(rb"refs/heads/[a-z]+", bytes.fromhex(c["name"])) is None

    def show(self, c):
        return dict(c, name_text=repr(bytes.fromhex(c["name"])))

    def oracle(self, ctx, cases, impl, model):
        fails = {}
        self.stats = {"refused": 0, "touched": 0}
        for c in cases:
            r = impl.get(c["id"])
            if r is None or r.get("panic"):
                continue
            ex = r.get("extra") or {}
            raw = [p.encode("utf-8", errors="surrogateescape") if isinstance(p, str) else p for p in (ex.get("raw") or [])]
            # JSON cannot carry arbitrary bytes: the canonical observable (hex) is authoritative
            toks = r["out"].strip("() ").split()
            kind, paths = toks[0], [bytes.fromhex(t[1:]) for t in toks[1:]]
            if kind == "refused":
                self.stats["refused"] += 1
                if paths:
                    fails[c["id"]] = "refused %r only after touching %r" % (bytes.fromhex(c["name"]), paths)
                continue
            self.stats["touched"] += 1
            for p in paths:
                why = resolve_violation(p)
                if why:
                    fails[c["id"]] = "%s(%r): %s" % (c["op"], bytes.fromhex(c["name"]), why)
                    break
        return fails

    def extra(self, ctx, cases, impl, model):
        # outside the lexical theorem: a symlinked directory below refs/ and logs/refs/, on a real directory
        # through go-git's BoundOS filesystem (os.Root).  Recorded, not judged: the OS resolver is not modelled.
        from vf.core import run_impl
        r = run_impl(self.go_cmd, [{"id": "symlink", "symlink": True}]).get("symlink") or {}
        ctx.notes.append("symlinked refs/heads/evil -> outside (sentinel intact, sentinel value leaked through Ref, entries outside): %s; per call: %s"
                         % (r.get("out"), r.get("extra")))
        return dict(self.stats, symlink_probe=r.get("out"))


# ---------------------------------------------------------------- symlinked refs / logs trees (oracle only)

# (link location below .git, link text).  Directory targets inside .git but outside refs/ (the bound filesystem
# does not stop those), relative and absolute, nested, outside the repository; file targets too.
SYM_DIR_LINKS = [
    ("refs/heads/shared", "../../hooks"), ("refs/meta", "../info"), ("refs/heads/topic/oi", "../../../objects/info"),
    ("refs/tags/h", "../../hooks"), ("refs/remotes", "../hooks"), ("refs/heads/absd", "ABS:.git/hooks"),
    ("refs/heads/sub", "../../hooks/sub"), ("refs/heads/out", "../../../outside"), ("refs/heads/absout", "ABS:outside"),
    ("refs/heads/dotgit", "../.."), ("refs/notes", "../objects/info"),
    ("logs/refs/heads/shared", "../../../hooks"), ("logs/meta", "../info"), ("logs/refs/out", "../../../outside"),
    ("logs/refs/heads/absd", "ABS:.git/info"),
]
SYM_FILE_LINKS = [
    ("refs/heads/fhook", "../../hooks/pre-push"), ("refs/heads/fhash", "../../hooks/hashy"), ("refs/tags/fexcl", "../../info/exclude"),
    ("refs/heads/fout", "../../../outside/hashy"), ("refs/heads/fabs", "ABS:.git/info/hashy"), ("refs/heads/fcfg", "../../config"),
    ("logs/refs/heads/fhook", "../../../hooks/pre-push"), ("logs/refs/heads/fout", "../../../../outside/exclude"),
]
SYM_OPS = ["ref", "set", "cas", "rm", "list", "pack", "logread", "logwrite", "logdel"]
SYM_LEAVES = ["pre-push", "hashy", "exclude", "planted", "sub/hashy", "deep/hashy"]


class SymTree(Suite):
    """oracle only: the OS resolver is outside the model; the property is judged on a real directory"""
    name = "symtree"
    go_cmd = "c14"
    quick_n = 40
    thorough_n = 400

    def gen(self, rng, n, tier):
        cases = []

        def add(bucket, links, op, name, packed=None):
            cases.append({"bucket": bucket, "symtree": True, "links": [{"at": a, "to": t} for a, t in links], "op": op,
                          "name": name.encode().hex(), "packed": rng.random() < 0.5 if packed is None else packed})
        # the whole-tree operations over every directory link, alone
        for lk in SYM_DIR_LINKS:
            if lk[0].startswith("refs/"):
                add("walk-dir", [lk], "list", "refs/heads/main")
                add("walk-dir", [lk], "pack", "refs/heads/main")
        for lk in SYM_FILE_LINKS:
            if lk[0].startswith("refs/"):
                add("walk-file", [lk], rng.choice(["list", "pack"]), "refs/heads/main")
        add("walk-plain", [], "list", "refs/heads/main")
        add("walk-plain", [], "pack", "refs/heads/main")
        for _ in range(n):
            k = pick_weighted(rng, [(3, "walk-mixed"), (4, "named-dir"), (2, "named-file")])
            if k == "walk-mixed":
                links = rng.sample(SYM_DIR_LINKS, rng.randrange(1, 4)) + rng.sample(SYM_FILE_LINKS, rng.randrange(0, 2))
                add(k, links, rng.choice(["list", "pack"]), "refs/heads/main")
            elif k == "named-dir":
                lk = rng.choice(SYM_DIR_LINKS)
                at = lk[0][5:] if lk[0].startswith("logs/") else lk[0]
                add(k, [lk] + rng.sample(SYM_DIR_LINKS, rng.randrange(0, 2)), rng.choice(SYM_OPS[:4] + SYM_OPS[6:]), at + "/" + rng.choice(SYM_LEAVES))
            else:
                lk = rng.choice(SYM_FILE_LINKS)
                at = lk[0][5:] if lk[0].startswith("logs/") else lk[0]
                add(k, [lk], rng.choice(SYM_OPS[:4] + SYM_OPS[6:]), at)
        # one link per location
        for c in cases:
            seen, ls = set(), []
            for l in c["links"]:
                if l["at"] not in seen and not any(l["at"].startswith(o + "/") or o.startswith(l["at"] + "/") for o in seen):
                    seen.add(l["at"])
                    ls.append(l)
            c["links"] = ls
        return cases

    def nontrivial(self, c):
        return bool(c["links"])

    def show(self, c):
        return dict(c, name_text=bytes.fromhex(c["name"]).decode())

    @staticmethod
    def parse(out):
        """( symtree status target (created…) (modified…) (deleted…) (leaked…) )"""
        toks = out.replace("(", " ( ").replace(")", " ) ").split()
        assert toks[0] == "(" and toks[1] == "symtree"
        status, target, groups, cur = toks[2], bytes.fromhex(toks[3][1:]).decode("utf-8", "replace"), [], None
        for t in toks[4:-1]:
            if t == "(":
                cur = []
            elif t == ")":
                groups.append(cur)
            else:
                cur.append(bytes.fromhex(t[1:]).decode("utf-8", "replace"))
        return status, target, groups

    def oracle(self, ctx, cases, impl, model):
        fails = {}
        self.stats = {"ok": 0, "err": 0, "refused": 0, "not_judged": 0}
        for c in cases:
            r = impl.get(c["id"])
            if r is None or r.get("panic"):
                continue
            status, target, (created, modified, deleted, leaked) = self.parse(r["out"])
            self.stats[status] += 1
            name = bytes.fromhex(c["name"]).decode()
            n0 = sum(map(len, (created, modified, deleted, leaked)))
            if c["op"] in ("list", "pack"):
                # a link whose LAST component is the link (refs/heads/x -> a file) is read like any loose reference file, by
                # git 2.39.5 too (validated: show-ref lists it, pack-refs packs it and removes the link, not its target):
                # not judged.  Anything reached THROUGH a linked directory is.
                ats = {l["at"] for l in c["links"]}
                leaked = [w for w in leaked if w.split(" ")[0] not in ats]
            else:
                # a named operation acts on the file its name denotes; the operating system resolves that name (git
                # update-ref does the same through a linked directory): that one file, the directories leading to it and
                # its value are not judged -- everything else is
                keep = lambda p: not (p == target or target.startswith(p + "/"))
                created, modified, deleted = [p for p in created if keep(p)], [p for p in modified if keep(p)], [p for p in deleted if keep(p)]
                leaked = [w for w in leaked if w.split(" ")[0] not in (name, "logs/" + name)]
            self.stats["not_judged"] += n0 - sum(map(len, (created, modified, deleted, leaked)))
            why = []
            if deleted:
                why.append("deleted outside the refs namespace: %s" % deleted)
            if modified:
                why.append("modified outside the refs namespace: %s" % modified)
            if created:
                why.append("created outside the refs namespace: %s" % created)
            if leaked:
                why.append("presented as a reference: %s" % leaked)
            if why:
                fails[c["id"]] = "%s(%s) with links %s -> %s: %s" % (c["op"], bytes.fromhex(c["name"]).decode(),
                                                                   [(l["at"], l["to"]) for l in c["links"]], status, "; ".join(why))
        return fails

    def extra(self, ctx, cases, impl, model):
        return dict(self.stats)


SUITES = [Main(), SymTree()]
