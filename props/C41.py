"""C41 Remote command quoting is injection-free (DESIGN.md §4.C41)."""
import subprocess
from vf.core import Suite, coq_hex, coq_list
from vf.gen import rbytes, rlen, pick_weighted

ID = "C41"
THEOREMS = ["C41_sh", "C41_dequote", "C41_dequote_argv"]
MODEL_FILES = ["ShellQuote.v"]
MODELLED = ("plumbing/transport/ssh/ssh.go: buildCommand, writeShellQuote (Model/ShellQuote.v); "
            "spec: POSIX word splitting of the emitted sublanguage (Spec/ShWords.v sh_words) and git's "
            "quote.c sq_dequote/sq_dequote_to_argv; not modelled: SSH session set-up and exec plumbing")
TRUSTED = [
    "C-impl: ssh.VerifBuildCommand (verif_export.go, -tags verif) vs Model/ShellQuote.build on every case",
    "C-git analogue: Spec sh_words vs /bin/sh -c 'printf %s\\\\0 <cmdline>' on every NUL-free case",
]
ASSUMPTIONS = ["POSIX sh word splitting of the quoted sublanguage is as Spec/ShWords.sh_words says (validated against /bin/sh on each case)",
               "the remote side evaluates the exec string with a POSIX shell or git-shell"]
RULE = ("case = (cmd, path, args) from buckets {plain, quotes, bang, backslash, newline, dollar/backtick, blanks, empty, "
        "random bytes, high bytes}; non-trivial = some byte outside [A-Za-z0-9/._-]; distinct by content")

CMDS = [b"git-upload-pack", b"git-receive-pack", b"git-upload-archive"]
SAFE = b"abcXYZ019/._-"
NASTY = b"'!\\\n$`; &|<>()\"*?[#~=%{}\t"


def word(rng, bucket):
    n = rlen(rng, 6, 40)
    if bucket == "plain":
        return rbytes(rng, n, SAFE)
    if bucket == "empty":
        return b""
    if bucket == "quotes":
        return rbytes(rng, n, b"'a'!")
    if bucket == "bang":
        return rbytes(rng, n, b"!a\\")
    if bucket == "backslash":
        return rbytes(rng, n, b"\\'a")
    if bucket == "nasty":
        return rbytes(rng, n, NASTY + SAFE)
    if bucket == "inject":
        return rng.choice([b"'; rm -rf / #", b"x' ; echo pwned '", b"$(id)", b"`id`", b"a\nb", b"'\\''", b"!!", b"\\", b"'", b"''", b" ", b"-x"]) + rbytes(rng, rng.randrange(3), NASTY)
    if bucket == "high":
        return bytes(rng.randrange(1, 256) for _ in range(n))
    return bytes(rng.randrange(1, 256) for _ in range(n))


class Main(Suite):
    name = "main"
    go_cmd = "c41"
    coq_imports = "From GoGit Require Import Model.ShellQuote Spec.ShWords."
    quick_n = 400
    thorough_n = 6000

    def gen(self, rng, n, tier):
        cases = []
        buckets = [(1, "plain"), (1, "empty"), (2, "quotes"), (2, "bang"), (2, "backslash"), (3, "nasty"), (2, "inject"), (2, "high"), (1, "random")]
        for _ in range(n):
            b = pick_weighted(rng, buckets)
            nargs = pick_weighted(rng, [(3, 0), (2, 1), (1, 2), (1, 3)])
            cases.append({"bucket": b, "cmd": rng.choice(CMDS).hex(), "path": word(rng, b).hex(),
                          "args": [word(rng, pick_weighted(rng, buckets)).hex() for _ in range(nargs)]})
        return cases

    def model_expr(self, c):
        return "c41_run %s %s %s" % (coq_hex(bytes.fromhex(c["cmd"])), coq_hex(bytes.fromhex(c["path"])),
                                     coq_list([coq_hex(bytes.fromhex(a)) for a in c["args"]]))

    def nontrivial(self, c):
        s = bytes.fromhex(c["path"]) + b"".join(bytes.fromhex(a) for a in c["args"])
        return any(ch not in SAFE for ch in s)

    def oracle(self, ctx, cases, impl, model):
        """the property itself on the implementation: /bin/sh splits the emitted line into exactly cmd,path,args"""
        fails = {}
        for c in cases:
            r = impl.get(c["id"])
            if r is None or not r["out"].startswith("x"):
                fails[c["id"]] = "no command line produced"
                continue
            line = bytes.fromhex(r["out"][1:])
            want = [bytes.fromhex(c["cmd"]), bytes.fromhex(c["path"])] + [bytes.fromhex(a) for a in c["args"]]
            if b"\0" in line:
                continue
            # printf and cat are shell-evaluated: the only command is `printf`, fed by the emitted words
            p = subprocess.run(["/bin/sh", "-c", b"set -f; printf '%s\\0' " + line], stdout=subprocess.PIPE,
                               stderr=subprocess.PIPE, timeout=20, cwd=ctx.tmp)
            got = p.stdout.split(b"\0")[:-1]
            if p.returncode != 0 or got != want:
                fails[c["id"]] = "sh words %r != expected %r (rc=%d, stderr=%r)" % (got[:6], want[:6], p.returncode, p.stderr[:100])
        return fails

    def extra(self, ctx, cases, impl, model):
        # C-git analogue: S (sh_words) vs /bin/sh on the emitted lines
        exprs, ids = [], []
        for c in cases[:150]:
            r = impl.get(c["id"])
            if r and r["out"].startswith("x") and "00" not in [r["out"][i:i + 2] for i in range(1, len(r["out"]), 2)]:
                exprs.append('c41_spec_run "%s"' % r["out"][1:])
                ids.append(c["id"])
        outs = ctx.coq_eval(self.coq_imports, exprs)
        bad = 0
        for i, o in zip(ids, outs):
            line = bytes.fromhex(impl[i]["out"][1:])
            p = subprocess.run(["/bin/sh", "-c", b"set -f; printf '%s\\0' " + line], stdout=subprocess.PIPE, stderr=subprocess.PIPE, timeout=20, cwd=ctx.tmp)
            got = "( ok" + "".join(" x" + w.hex() for w in p.stdout.split(b"\0")[:-1]) + " )"
            if o != got:
                bad += 1
                ctx.notes.append("spec_mismatch sh_words vs /bin/sh on %s: %s vs %s" % (line.hex(), o, got))
        return {"spec_vs_sh_cases": len(ids), "spec_mismatches": bad}


SUITES = [Main()]
