"""C22 Garbage collection never deletes reachable or staged objects (DESIGN.md §4.C22)."""
import re
from vf.core import Suite, coq_list, coq_bool
from vf.gen import pick_weighted

ID = "C22"
THEOREMS = ["C22_walk_covers_live", "C22_prune_keeps_live", "C22_repack_keeps_live", "C22_history_keeps_live", "C22_walk_fuel_sufficient"]
MODEL_FILES = ["Gc.v"]
MODELLED = ("object_walker.go: objectWalker.walkAllRefs, walkObjectTree (blob shortcut Mode|0o755 == Executable, shallow stop, promisor "
            "'missing' set), walkIndex, present; prune.go: Repository.Prune with DeleteObject as handler and OnlyObjectsOlderThan; "
            "repository.go: RepackObjects / createNewObjectPack incl. the `h == nh` guard, PackWriter.save keeping a pack that already exists under "
            "the new name, dotgit.DeleteOldObjectPackAndIndex (age limit) — packs carry a content-determined NAME (sorted object set + encoding "
            "variant); histories of prune/repack rounds with new loose objects and staged files in between (gc_step/run_seq) — over an abstract "
            "object store (Model/Gc.v); spec: reachability from hash refs, detached HEAD and index entries (Spec/Reach.v); "
            "not modelled: pack encoding / zlib / deltas / idx writing (a pack is its name and the set of its objects; how deltas change the bytes is the opaque variant: exercised, contents "
            "compared by digest and by git fsck), reference iteration order, alternates, reflogs, linked worktrees")
TRUSTED = [
    "C-impl: Repository.Prune / RepackObjects on a scratch repository materialised from the abstract case with go-git's own writers vs Model/Gc.prune / repack (loose set, union of pack contents, error class)",
    "direct oracle: every object live by the python transcription of Spec/Reach (refs, detached HEAD, index) that was readable before is readable with the same type and content digest afterwards, read through a freshly opened storage; on a sample, `git fsck --connectivity-only` reports no new missing object / broken link",
]
ASSUMPTIONS = ["well-formed repository content: tree entries with a file mode name blobs (C22_wf_modes), index entries name blobs (C22_wf_index)",
               "none about fuel: C22_walk_fuel_sufficient proves that the fuel used (number of reachable-by-name object ids + 1) never runs out"]
RULE = ("case = abstract repository (blobs, trees, commits, tags with ids; placement loose/pack0/pack1/both/absent with age flags; refs, symbolic "
        "refs, HEAD symbolic/detached/unborn; shallow roots; index entries incl. staged-only, intent-to-add, gitlink; promisor packs) + "
        "a history of 1..5 prune/repack rounds (age limit, ref deltas, pack.window 0 or 10, exclusive access) with new loose objects / newly "
        "staged files in between, incl. repeated repacks of an unchanged repository and a first repack that reproduces a pack already on disk; "
        "non-trivial = several rounds, or some object is unreachable or staged-only or absent; "
        "distinct by content")

MODES = {"100644": 0o100644, "100755": 0o100755, "40000": 0o40000, "120000": 0o120000, "160000": 0o160000, "100664": 0o100664}


def gen_case(rng, bucket):
    objs = []

    def add(o):
        objs.append(o)
        return len(objs) - 1

    packs = [{"name": "p0", "old": rng.random() < 0.6, "promisor": False, "window": rng.choice([0, 10])},
             {"name": "p1", "old": rng.random() < 0.6, "promisor": bucket == "promisor", "window": rng.choice([0, 10])}]

    def place(kind="any"):
        r = rng.random()
        if bucket == "loose":
            at = ["loose"]
        elif bucket == "packed":
            at = [rng.choice(["p0", "p1"])] if r < 0.85 else ["loose"]
        else:
            at = pick_weighted(rng, [(5, ["loose"]), (3, ["p0"]), (2, ["p1"]), (1, ["loose", "p0"]), (1, ["p0", "p1"])])
        return list(at)

    nblobs = rng.randrange(2, 6)
    blobs = [add({"k": "blob", "data": ("blob %d %d\n" % (i, rng.randrange(1000))).encode().hex(), "at": place(), "old": rng.random() < 0.6}) for i in range(nblobs)]
    trees, commits, tags = [], [], []

    def dedicated():
        # a blob reached only through an edge the walker does not accept (symlink entry, tag -> blob): never shared with a
        # file-mode entry or the index, so that the walker's outcome does not depend on the reference iteration order
        # (BoundOS.ReadDir returns directory order)
        return add({"k": "blob", "data": ("dedicated %d\n" % rng.randrange(10**6)).encode().hex(), "at": place(), "old": rng.random() < 0.6})
    absent_commit = None
    for _ in range(rng.randrange(1, 5)):
        es, names = [], set()
        for _ in range(rng.randrange(0, 4)):
            nm = rng.choice(["a", "b", "c", "d", "e", "f", "g"])
            if nm in names:
                continue
            names.add(nm)
            kind = pick_weighted(rng, [(6, "file"), (2, "exec"), (3 if trees else 0, "dir"), (1 if bucket == "oddmode" else 0, "symlink"),
                                       (1 if bucket == "oddmode" else 0, "gitlink"), (1 if bucket == "oddmode" else 0, "deprecated")])
            if kind == "file":
                es.append(("100644", nm, rng.choice(blobs)))
            elif kind == "exec":
                es.append(("100755", nm, rng.choice(blobs)))
            elif kind == "dir":
                es.append(("40000", nm, rng.choice(trees)))
            elif kind == "symlink":
                es.append(("120000", nm, dedicated()))
            elif kind == "deprecated":
                es.append(("100664", nm, rng.choice(blobs)))
            else:
                if absent_commit is None:
                    absent_commit = add({"k": "commit", "tree": trees[0] if trees else blobs[0], "parents": [], "msg": "submodule commit", "at": [], "old": False})
                es.append(("160000", nm, absent_commit))
        es.sort(key=lambda e: e[1] + ("/" if e[0] == "40000" else ""))
        if any(objs[t]["_key"] == es for t in trees):
            continue            # same content = same object id: ids must denote distinct objects
        trees.append(add({"k": "tree", "entries": [{"mode": m, "name": n.encode().hex(), "ref": r} for m, n, r in es], "at": place(), "old": rng.random() < 0.6, "_key": es}))
    for i in range(rng.randrange(1, 6)):
        ps = []
        if commits and rng.random() < 0.8:
            ps.append(rng.choice(commits))
            if len(commits) > 1 and rng.random() < 0.45:
                p2 = rng.choice(commits)
                if p2 not in ps:
                    ps.append(p2)
        commits.append(add({"k": "commit", "tree": rng.choice(trees), "parents": ps, "msg": "c%d" % i, "at": place(), "old": rng.random() < 0.6}))
    for i in range(rng.randrange(0, 3)):
        tgt = pick_weighted(rng, [(5, rng.choice(commits)), (1, rng.choice(trees)), (1, "blob"), (2 if tags else 0, tags[-1] if tags else 0)])
        if tgt == "blob":
            tgt = dedicated()
        tags.append(add({"k": "tag", "target": tgt, "msg": "v%d" % i, "at": place(), "old": rng.random() < 0.6}))
    # staged-only and dangling objects
    staged = [add({"k": "blob", "data": ("staged %d\n" % rng.randrange(10**6)).encode().hex(),
                   "at": (["p0"] if bucket == "packed" or rng.random() < 0.3 else ["loose"]), "old": rng.random() < 0.7}) for _ in range(rng.randrange(0, 3))]
    for _ in range(rng.randrange(0, 3)):
        add({"k": "blob", "data": ("dangling %d\n" % rng.randrange(10**6)).encode().hex(), "at": place(), "old": rng.random() < 0.7})
    ita = None
    # refs
    refs, names = [], []
    for _ in range(pick_weighted(rng, [(1, 0), (4, 1), (3, 2), (1, 3)])):
        nm = rng.choice(["refs/heads/main", "refs/heads/dev", "refs/tags/v1", "refs/remotes/origin/main", "refs/notes/x"])
        if nm in names:
            continue
        names.append(nm)
        tgt = rng.choice(tags) if (tags and (nm.startswith("refs/tags") or rng.random() < 0.15)) else rng.choice(commits)
        refs.append({"name": nm, "ref": tgt})
    if names and rng.random() < 0.2:
        refs.append({"name": "refs/heads/alias", "sym": rng.choice(names)})
    hk = pick_weighted(rng, [(5, "sym"), (3, "detached"), (1, "unborn")])
    if hk == "sym" and any(n.startswith("refs/heads/") for n in names):
        head = {"sym": [n for n in names if n.startswith("refs/heads/")][0]}
    elif hk == "detached":
        head = {"ref": rng.choice(commits)}
    else:
        head = {"sym": "refs/heads/unborn"}
    # shallow: cut a commit's parents away
    shallow = []
    if bucket == "shallow":
        cands = [c for c in commits if objs[c]["parents"]]
        if cands:
            s = rng.choice(cands)
            shallow.append(s)
            for p in objs[s]["parents"]:
                if rng.random() < 0.8:
                    objs[p]["at"] = []
    if bucket == "promisor":
        # withheld blobs / a withheld tree
        for b in blobs:
            if rng.random() < 0.4:
                objs[b]["at"] = []
        if rng.random() < 0.3:
            objs[rng.choice(trees)]["at"] = []
        k = rng.choice(commits)
        if "p1" not in objs[k]["at"]:
            objs[k]["at"].append("p1")
    if bucket == "absent" and rng.random() < 0.7:
        objs[rng.choice(blobs + trees + commits)]["at"] = []
    # index
    index = []
    if rng.random() < 0.8:
        paths = set()
        for b in rng.sample(blobs, rng.randrange(0, len(blobs) + 1)) + staged:
            p = "f%d" % len(paths)
            paths.add(p)
            index.append({"path": p.encode().hex(), "ref": b, "mode": rng.choice(["100644", "100755"])})
        if rng.random() < 0.15:
            ita = add({"k": "blob", "data": "", "at": [], "old": False})
            index.append({"path": b"ita".hex(), "ref": ita, "mode": "100644"})
        if absent_commit is not None and rng.random() < 0.5:
            index.append({"path": b"sub".hex(), "ref": absent_commit, "mode": "160000"})
    for o in objs:
        o.pop("_key", None)
    # encoder configuration of the repository (pack.window) and of the packs that are already there
    window = rng.choice([0, 0, 10])
    for p in packs:
        p["window"] = window
    if bucket == "collide":
        # pack p0 holds exactly what a repack will write, encoded the same way (window 0): the very first repack
        # produces the name of a pack that is already on disk
        window = 0
        for p in packs:
            p["window"] = 0
        tmp = {"objects": objs, "refs": refs, "head": head, "shallow": shallow, "index": index}
        for o in objs:
            if o["at"]:
                o["at"] = ["loose"]
        for i in live_ids(tmp):
            if objs[i]["at"]:
                objs[i]["at"] = ["p0"] if rng.random() < 0.8 else ["p0", "loose"]
    else:
        # the bytes (hence the name) of a pack depend on more than its object set (object order, deltas), so whether a repack
        # reproduces the name of a pack that is already there cannot be predicted: make sure that no pack of the initial state
        # can coincide with the first repack (one dedicated dangling blob per pack).  Collisions between successive repacks
        # do not change any observable (same object set), whichever way they go.
        for p in packs:
            if any(p["name"] in o["at"] for o in objs):
                add({"k": "blob", "data": ("only in %s %d\n" % (p["name"], rng.randrange(10**6))).encode().hex(), "at": [p["name"]], "old": True})
    # two packs with the same object set would be one file (same pack name): keep them distinct
    if {i for i, o in enumerate(objs) if "p0" in o["at"]} == {i for i, o in enumerate(objs) if "p1" in o["at"]}:
        for o in objs:
            if "p1" in o["at"]:
                o["at"].remove("p1")
    # the history: garbage collection rounds, the repository gaining loose objects / staged files in between
    def gcround(op=None):
        return {"op": op or rng.choice(["prune", "repack"]), "threshold": rng.random() < 0.3, "refdeltas": rng.random() < 0.3}
    if bucket in ("regc", "collide"):
        rounds = [gcround("repack") for _ in range(rng.randrange(2, 5))]
        if rng.random() < 0.3:
            rounds.insert(rng.randrange(1, len(rounds)), gcround("prune"))
    elif rng.random() < 0.45:
        rounds = [gcround()]
    else:
        rounds = [gcround() for _ in range(rng.randrange(2, 5))]
    if len(rounds) > 1 and bucket != "regc" and rng.random() < 0.6:
        pos = rng.randrange(1, len(rounds))
        extra = []
        for _ in range(rng.randrange(1, 3)):
            k = rng.random()
            if k < 0.4:        # a new loose object nobody refers to
                nb = add({"k": "blob", "data": ("later %d\n" % rng.randrange(10**6)).encode().hex(), "at": [], "old": False})
                extra.append({"op": "add", "obj": nb})
            elif k < 0.8:      # a new file is staged
                nb = add({"k": "blob", "data": ("staged later %d\n" % rng.randrange(10**6)).encode().hex(), "at": [], "old": False})
                extra += [{"op": "add", "obj": nb}, {"op": "stage", "obj": nb, "path": ("late%d" % nb).encode().hex()}]
            else:              # a blob that is live (so: still there when this point of the history is reached) is staged once more
                lv = live_ids({"objects": objs, "refs": refs, "head": head, "shallow": shallow, "index": index})
                cand = [i for i, o in enumerate(objs) if o["k"] == "blob" and o["at"] and i in lv]
                if cand:
                    b = rng.choice(cand)
                    extra.append({"op": "stage", "obj": b, "path": ("again%d" % b).encode().hex()})
        rounds[pos:pos] = extra
    return {"bucket": bucket, "objects": objs, "packs": packs, "refs": refs, "head": head, "shallow": shallow, "index": index,
            "window": window, "rounds": rounds, "exclusive": rng.random() < 0.25, "fsck": False}


def rounds_of(c):
    return c.get("rounds") or [{"op": c["op"], "threshold": c.get("threshold", False), "refdeltas": c.get("refdeltas", False)}]


def stored(o):
    return bool(o["at"])


def live_ids(c, index=None, is_stored=None):
    """python transcription of Spec/Reach.live restricted to stored objects"""
    objs = c["objects"]
    if index is None:
        index = c["index"]
    if is_stored is None:
        is_stored = lambda i: stored(objs[i])
    roots = [r["ref"] for r in c["refs"] if "ref" in r]
    if "ref" in c["head"]:
        roots.append(c["head"]["ref"])
    roots += [e["ref"] for e in index if e["mode"] != "160000"]
    seen, todo = set(), list(roots)
    while todo:
        h = todo.pop()
        if h in seen:
            continue
        seen.add(h)
        o = objs[h]
        if not is_stored(h):
            continue
        if o["k"] == "commit":
            todo.append(o["tree"])
            if h not in c["shallow"]:
                todo += o["parents"]
        elif o["k"] == "tree":
            todo += [e["ref"] for e in o["entries"] if e["mode"] != "160000"]
        elif o["k"] == "tag":
            todo.append(o["target"])
    return seen


class Main(Suite):
    name = "main"
    go_cmd = "c22"
    coq_imports = "From GoGit Require Import Model.Gc."
    quick_n = 160
    thorough_n = 700
    coq_chunk = 80
    impl_env = {"TMPDIR": "/dev/shm"} if __import__("os").path.isdir("/dev/shm") else None

    def gen(self, rng, n, tier):
        cases = []
        nf = 8 if tier == "quick" else 60
        for i in range(n):
            b = pick_weighted(rng, [(4, "mixed"), (2, "loose"), (3, "packed"), (2, "shallow"), (2, "promisor"), (2, "oddmode"), (1, "absent"), (3, "regc"), (2, "collide")])
            c = gen_case(rng, b)
            c["fsck"] = i < nf
            cases.append(c)
        return cases

    def model_expr(self, c):
        def obj(o):
            if o["k"] == "blob":
                return "OBlob"
            if o["k"] == "tree":
                return "OTree %s" % coq_list(["((%d)%%Z, %d%%N)" % (MODES[e["mode"]], e["ref"]) for e in o["entries"]])
            if o["k"] == "commit":
                return "OCommit %d%%N %s" % (o["tree"], coq_list(["%d%%N" % p for p in o["parents"]]))
            return "OTag %d%%N" % o["target"]
        objs = coq_list(["(%d%%N, %s)" % (i, obj(o)) for i, o in enumerate(c["objects"])])
        loose = coq_list(["(%d%%N, %s)" % (i, coq_bool(o.get("old", False))) for i, o in enumerate(c["objects"]) if "loose" in o["at"]])
        packs = []
        for k, p in enumerate(c["packs"]):
            ids = [i for i, o in enumerate(c["objects"]) if p["name"] in o["at"]]
            if ids:
                # the pack's name: its sorted object set and the encoding variant (0 = what a repack with window 0 writes)
                variant = 0 if c.get("bucket") in ("collide", "witness-collide-existing") else k + 1
                packs.append("Build_pack (%s, %d%%N) %s %s %s" % (coq_list(["%d%%N" % i for i in sorted(ids)]), variant, coq_bool(p.get("old", False)),
                                                                 coq_bool(p.get("promisor", False)), coq_list(["%d%%N" % i for i in ids])))
        # DotGit.Refs(): HEAD first, then the loose refs in directory order (ReadDir sorts names per level)
        roots = ([c["head"]["ref"]] if "ref" in c["head"] else []) + [r["ref"] for r in sorted(c["refs"], key=lambda r: r["name"].split("/")) if "ref" in r]
        index = coq_list(["(%s, %d%%N)" % (coq_bool(e["mode"] == "160000"), e["ref"]) for e in c["index"]])
        repo = "(Build_repo %s %s %s %s %s %s)" % (objs, loose, coq_list(packs), coq_list(["%d%%N" % r for r in roots]),
                                                  coq_list(["%d%%N" % s for s in c["shallow"]]), index)
        ops = []
        for r in rounds_of(c):
            if r["op"] == "prune":
                ops.append("GPrune %s" % coq_bool(r.get("threshold", False)))
            elif r["op"] == "repack":
                ops.append("GRepack %s 0%%N" % coq_bool(r.get("threshold", False)))
            elif r["op"] == "add":
                ops.append("GAddLoose %d%%N" % r["obj"])
            else:
                ops.append("GStage %d%%N" % r["obj"])
        return "c22_run %s %s" % (coq_list(ops), repo)

    def nontrivial(self, c):
        live = live_ids(c)
        if len(rounds_of(c)) > 1:
            return True
        return any(stored(o) and i not in live for i, o in enumerate(c["objects"])) or any(not stored(o) for o in c["objects"]) or bool(c["index"])

    def show(self, c):
        d = {k: v for k, v in c.items() if k != "objects"}
        d["objects"] = ["%d %s %s %s" % (i, o["k"], ",".join(o["at"]) or "absent",
                                         o.get("entries") or ([o.get("tree")] + o.get("parents", []) if o["k"] == "commit" else o.get("target", ""))) for i, o in enumerate(c["objects"])]
        return d

    def oracle(self, ctx, cases, impl, model):
        """after EVERY garbage collection round: each object that was live and readable before the round is readable with the
        same type and content afterwards (read through a freshly opened storage); on a sample, git fsck --strict reports no
        new missing object / broken link after any round"""
        fails = {}
        for c in cases:
            r = impl.get(c["id"])
            if r is None:
                continue        # no reply is a harness fault: reported by the runner as a broken correspondence, not as a property failure
            if r.get("panic"):
                continue
            ex = r.get("extra") or {}
            rex = ex.get("rounds") or []
            index = list(c["index"])
            j = 0
            for k, rd in enumerate(rounds_of(c)):
                if rd["op"] == "stage":
                    index.append({"ref": rd["obj"], "mode": "100644"})
                    continue
                if rd["op"] == "add":
                    continue
                if j >= len(rex):
                    break
                before, after = rex[j].get("before") or {}, rex[j].get("after") or {}
                live = live_ids(c, index, lambda i: str(i) in before)
                lost = [(i, c["objects"][i]["k"], before[str(i)], after.get(str(i))) for i in sorted(live)
                        if str(i) in before and after.get(str(i)) != before[str(i)]]
                if lost:
                    i, kind, b, a = lost[0]
                    fails[c["id"]] = "round %d (%s, operation %d of the history): live %s %d (%s) was readable (%s) and is %s afterwards (%d live objects lost)%s" % (
                        j + 1, rd["op"], k + 1, kind, i, ex.get("hashes", {}).get(str(i), "?"), b, a or "gone", len(lost),
                        " [index entry]" if all(x[0] in [e["ref"] for e in index] for x in lost) else "")
                    break
                if c.get("fsck"):
                    new = [l for l in (rex[j].get("fsck_after") or []) if l not in (rex[j].get("fsck_before") or []) and ("missing" in l or "broken link" in l)]
                    if new:
                        fails[c["id"]] = "round %d (%s): git fsck --strict newly reports %r" % (j + 1, rd["op"], new[:3])
                        break
                j += 1
        return fails

    def finding_class(self, c, reason, reply):
        return "staged-only-object" if "[index entry]" in reason else None

    def extra(self, ctx, cases, impl, model):
        n = sum(1 for c in cases if c.get("fsck") and c["id"] in impl)
        outcomes, lens = {}, {}
        same_name = 0
        for c in cases:
            for rx in ((impl.get(c["id"]) or {}).get("extra") or {}).get("rounds") or []:
                if rx.get("op") == "repack" and not rx.get("error") and rx.get("packs_after") and set(rx["packs_after"]) <= set(rx.get("packs_before") or []):
                    same_name += 1
            rs = [r for r in rounds_of(c) if r["op"] in ("prune", "repack")]
            lens[len(rs)] = lens.get(len(rs), 0) + 1
            outs = re.findall(r"\( ok|\( err \w+", (impl.get(c["id"]) or {}).get("out", ""))
            for r, o in zip(rs, outs):
                k = r["op"] + ":" + ("ok" if o == "( ok" else o[2:])
                outcomes[k] = outcomes.get(k, 0) + 1
        return {"git_fsck_cases": n, "outcomes": outcomes, "gc_rounds_per_history": lens,
                "repack_rounds_reproducing_an_existing_pack_name": same_name}


SUITES = [Main()]
