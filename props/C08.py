"""C08 Packs git writes are indexed exactly as git indexes them (DESIGN.md §4.C08)."""
import os
import random
import struct
import subprocess

from vf.core import Suite
from vf.gen import pick_weighted
from props import packlib as P
from props.C10 import sx  # s-expression reader (also raises the coqc stack limit)

ID = "C08"
THEOREMS = ["C08_resolution_sound", "C08_resolution_complete", "C08_resolution_unique", "C08_depth_boundary",
            "C08_idx_is_git", "C08_idx_canonical"]
MODEL_FILES = ["PackBytes.v", "Idx.v", "PackParse.v"]
MODELLED = (
    "plumbing/format/packfile: Scanner (pack header, objectEntry: entry-size varint, OFS varint with "
    "ValidateOFSDeltaBase from Gen, REF id, bounded inflate, CRC-32, object id, packFooter), Parser.Parse / resolveDeltas "
    "(depth-first walk over children-by-hash and children-by-offset, first reach wins, external placeholder for thin packs), "
    "processDelta, checkDeltaChainDepth (uncached and cached path, both against the regenerated maxDeltaChainDepth), patchDeltaWriter; idxfile.Writer/Encode and revfile.Encode through Model/Idx.v "
    "(Model/PackParse.v). zlib inflate, the digest and CRC-32 are Section variables; when the model is evaluated they are "
    "instantiated by Go's compress/zlib run at every offset of the case's pack (harness `ztable`, stdlib only) and by "
    "executable SHA-1/SHA-256/CRC-32 (Spec/PackHash.v). Not modelled: where a base's content is taken from (memory, "
    "re-inflation, storage: exercised through the parser modes), bufio chunking")
TRUSTED = [
    "C-impl: harness/cmd/c08 (packfile.Parser with idxfile.Writer observer, six parser modes: stream/seek, no/memory/"
    "filesystem storage, low/high memory) vs Model/PackParse.v on every case below the model size cap",
    "C-git: git pack-objects produces the packs; git index-pack --rev-index (and --fix-thin) is the oracle for idx/rev bytes",
    "zlib: Go's compress/zlib (table per case) stands for the inflate section variable; python's zlib in the independent resolver",
]
ASSUMPTIONS = [
    "inflate is a function of the input bytes at the content offset (zlib determinism): re-inflating a base gives the bytes seen during the scan",
    "sort.Sort sorts; SHA-1/SHA-256/CRC-32 of Spec/PackHash.v are the functions go-git links (test vectors + every case)",
]
RULE = ("packs written by git pack-objects over generated histories (similar text files, empty and binary blobs, trees, commits, "
        "an annotated tag) with --window {0,1,10,50} x --depth {0,1,5,50} x --delta-base-offset on/off x --thin, sha1 and "
        "sha256 repositories, each parsed in one of six parser modes; plus valid hand-built packs (duplicates, REF before its "
        "base, REF on OFS chains, empty objects, stored zlib blocks); in both tiers six hand-built packs at the chain-depth "
        "boundary: a blob and 4094 / 4095 / 4096 two-byte-insert deltas chained by OFS and by REF (4095 = maxDeltaChainDepth = "
        "git's --depth maximum: accepted with git's idx/rev; 4096: rejected), model = the depth rule walked link by link; "
        "non-trivial = the pack has a delta or more than 3 objects")

MODES = ["stream", "seek", "memstore", "stream-memstore", "fs-low", "fs-high"]
STORE_MODES = ["memstore", "stream-memstore", "fs-low", "fs-high"]
MODEL_CAP = 12000   # packs above this many bytes are checked against git only (the model is not evaluated)
GIT_MAX_DEPTH = 4095  # git pack-objects never writes a longer chain ((1 << OE_DEPTH_BITS) - 1); go-git's maxDeltaChainDepth
DEEP = [4094, 4095, 4096]


def deep_chain(hs, links, ref):
    """a whole 2-byte blob and `links` deltas, each replacing its base by 2 other bytes (all objects distinct):
    a few tens of KB, parsed in milliseconds, no history building"""
    b = P.PackBuilder(hs)
    cur = b"\xff\xff"
    o = b.add("blob", cur)
    for i in range(links):
        nxt = struct.pack(">H", i)
        delta = P.mk_delta(cur, nxt, ops=[("ins", nxt)])
        o = b.add_ref(P.oid(hs, "blob", cur), delta) if ref else b.add_ofs(o, delta)
        cur = nxt
    return b.build()


def handbuilt(rng, kind, hs):
    b = P.PackBuilder(hs)
    blob = P.text(rng, rng.randrange(2, 10))
    blob2 = P.edit(rng, blob) + b"tail\n"
    if kind == "dup":
        b.add("blob", blob)
        b.add("tree", b"")
        b.add("blob", blob, level=1)
        o = b.add("blob", blob2)
        b.add_ofs(o, P.mk_delta(blob2, blob))          # a delta that resolves to the duplicated blob
    elif kind == "ref-before-base":
        b.add_ref(P.oid(hs, "blob", blob), P.mk_delta(blob, blob2))
        b.add("blob", blob)
    elif kind == "ref-on-ofs":
        o = b.add("blob", blob)
        b.add_ofs(o, P.mk_delta(blob, blob2))
        blob3 = blob2 + b"more\n"
        b.add_ref(P.oid(hs, "blob", blob2), P.mk_delta(blob2, blob3))
        b.add_ref(P.oid(hs, "blob", blob3), P.mk_delta(blob3, blob3 + b"and more\n"))
    elif kind == "chain":
        cur, o = blob, None
        o = b.add("blob", cur)
        for i in range(rng.randrange(3, 12)):
            nxt = P.edit(rng, cur) + b"%d\n" % i
            o = b.add_ofs(o, P.mk_delta(cur, nxt))
            cur = nxt
    elif kind == "empties":
        b.add("blob", b"")
        b.add("tree", b"")
        o = b.add("blob", blob, stored=True)
        b.add_ofs(o, P.mk_delta(blob, b"ab"))
        b.add("commit", b"tree " + P.oid(hs, "tree", b"").hex().encode() + b"\nauthor a <a@x> 1 +0000\ncommitter a <a@x> 1 +0000\n\nm\n")
    elif kind == "copies":
        src = bytes(rng.randrange(256) for _ in range(300))
        tgt = src[100:200] + src[:50] + b"xyz" + src[250:]
        o = b.add("blob", src)
        b.add_ofs(o, P.mk_delta(src, tgt, ops=[("copy", 100, 100), ("copy", 0, 50), ("ins", b"xyz"), ("copy", 250, 50)]))
    elif kind == "zero-objects":
        pass
    elif kind in ("thin-ofs-on-ref", "thin-ref-chain"):
        ext = P.text(rng, 6)
        t1 = ext + b"first\n"
        t2 = t1 + b"second\n"
        t3 = P.edit(rng, t2) + b"third\n"
        b.add("blob", blob)
        o = b.add_ref(P.oid(hs, "blob", ext), P.mk_delta(ext, t1))
        if kind == "thin-ofs-on-ref":
            o2 = b.add_ofs(o, P.mk_delta(t1, t2))
            b.add_ofs(o2, P.mk_delta(t2, t3))
            b.add_ref(P.oid(hs, "blob", ext), P.mk_delta(ext, t3 + b"x"))
        else:
            b.add_ref(P.oid(hs, "blob", t1), P.mk_delta(t1, t2))
            b.add_ref(P.oid(hs, "blob", t2), P.mk_delta(t2, t3))
        return b.build(), {P.oid(hs, "blob", ext): ("blob", ext)}
    return b.build(), {}


class Main(Suite):
    name = "main"
    go_cmd = "c08"
    coq_imports = "From GoGit Require Import Model.PackParse."
    quick_n = 32
    thorough_n = 160
    coq_chunk = 2

    def gen(self, rng, n, tier):
        packs = []   # (bucket, hs, pack, store, repo)
        repos = []
        nrepos = 2 if tier == "quick" else 8
        for i in range(nrepos):
            hs = 32 if i % 2 == 1 else 20
            repos.append(P.GitRepo(rng, hs, ncommits=rng.randrange(4, 9)))
        hand = ["dup", "ref-before-base", "ref-on-ofs", "chain", "empties", "copies", "zero-objects", "thin-ofs-on-ref", "thin-ref-chain"]
        while len(packs) < n:
            k = len(packs)
            if k < len(hand) or rng.random() < 0.15:
                kind = hand[k] if k < len(hand) else rng.choice(hand)
                hs = 32 if rng.random() < 0.2 else 20
                hp, hstore = handbuilt(rng, kind, hs)
                packs.append(("hand-" + kind, hs, hp, hstore, None))
                continue
            repo = rng.choice(repos)
            thin = rng.random() < 0.3
            window = rng.choice([0, 1, 10, 50])
            depth = rng.choice([0, 1, 5, 50])
            ofs = rng.random() < 0.7
            top = rng.randrange(0, repo.ncommits - 1)
            revs = ["main~%d" % top] + (["v1"] if top == 0 and rng.random() < 0.5 else [])
            if thin or rng.random() < 0.3:
                revs.append("^main~%d" % rng.randrange(top + 1, repo.ncommits))
            pack = repo.pack(revs, window, depth, ofs, thin)
            store = {}
            if thin:
                need = P.external_bases(pack, repo.hs)
                store = repo.objects(need)
                if not need:
                    thin = False
            packs.append(("git%s%s-w%d-d%d%s" % ("-thin" if thin else "", "-sha256" if repo.hs == 32 else "", window, depth, "-ofs" if ofs else ""),
                          repo.hs, pack, store, repo))
        if tier == "thorough":
            big = P.GitRepo(rng, 20, ncommits=3, big=True)
            packs.append(("git-big", 20, big.pack(["main"]), {}, big))
        zts = P.ztables([p[2] if len(p[2]) <= MODEL_CAP else b"" for p in packs])
        cases = []
        # the chain-depth boundary (both tiers): the reply is the number of objects indexed, the model the depth rule
        rot = rng.randrange(len(MODES))
        for i, (links, ref) in enumerate((l, r) for r in (False, True) for l in DEEP):
            cases.append({"bucket": "deep-%s-%d" % ("ref" if ref else "ofs", links), "kind": "parse", "fmt": "sha1",
                          "mode": MODES[(rot + i) % len(MODES)], "pack": deep_chain(20, links, ref).hex(), "store": [],
                          "zt": None, "repo": None, "countonly": True, "links": links})
        deep = cases
        cases = []
        for (bucket, hs, pack, store, repo), zt in zip(packs, zts):
            mode = rng.choice(STORE_MODES if store else MODES)
            cases.append({"bucket": bucket, "kind": "parse", "fmt": "sha256" if hs == 32 else "sha1", "mode": mode,
                          "pack": pack.hex(), "store": [{"t": t, "c": c.hex()} for t, c in store.values()],
                          "zt": zt if len(pack) <= MODEL_CAP else None,
                          "repo": repo.dir if (repo and store) else None})
        # model evaluation cost grows with the bytes hashed: heaviest first, so that the parallel coqc workers stay balanced
        cases.sort(key=lambda c: -len(c["pack"]) if c["zt"] is not None else 0)
        return cases + deep

    def model_expr(self, c):
        if c.get("links") is not None:
            return "c08_chain %d" % c["links"]
        if c.get("zt") is None:
            return None
        hs = 32 if c["fmt"] == "sha256" else 20
        st = "[" + "; ".join('X "%s" "%s"' % (s["t"], s["c"]) for s in c["store"]) + "]"
        return 'c08_parse %d "%s" %s %s' % (hs, c["pack"], P.coq_ztable(c["zt"]), st)

    def nontrivial(self, c):
        pp = P.PyPack(bytes.fromhex(c["pack"]), 32 if c["fmt"] == "sha256" else 20)
        return not pp.error and (len(pp.entries) > 3 or any(e["t"] in (6, 7) for e in pp.entries))

    def key(self, c):
        return c["pack"] + c["mode"]

    def show(self, c):
        d = dict(c)
        d.pop("zt", None)
        return d

    def oracle(self, ctx, cases, impl, model):
        """the property on the implementation: what go-git resolves and the idx/rev it writes = git index-pack's"""
        fails = {}
        for c in cases:
            r = impl.get(c["id"])
            if r is None:
                fails[c["id"]] = "no reply"
                continue
            if r.get("panic"):
                continue
            hs = 32 if c["fmt"] == "sha256" else 20
            pack = bytes.fromhex(c["pack"])
            if c.get("links") is not None and c["links"] > GIT_MAX_DEPTH:
                # beyond what git writes: the documented limit applies, the pack must be refused
                if r["out"].startswith("( ok"):
                    fails[c["id"]] = "accepted a delta chain of %d links (maxDeltaChainDepth is %d)" % (c["links"], GIT_MAX_DEPTH)
                continue
            thin = bool(c["store"])
            repo = c.get("repo") if thin else None
            if thin and not (repo and os.path.isdir(repo)):
                # replay of a thin case: rebuild a repository holding the external bases
                repo = P.scratch()
                P.git(["init", "-q", "--object-format=" + c["fmt"], "."], cwd=repo)
                for s in c["store"]:
                    P.git(["hash-object", "-w", "-t", s["t"], "--stdin"], cwd=repo, input=bytes.fromhex(s["c"]))
            rc, err, gidx, grev, gfull = P.git_index_pack(ctx.tmp, pack, hs, "c%d" % c["id"], repo=repo, thin=thin)
            if thin and rc == 0:
                # index-pack --stdin stores the pack in the repository: remove it again (keeps the bases external)
                for fn in os.listdir(os.path.join(repo, ".git", "objects", "pack")):
                    os.remove(os.path.join(repo, ".git", "objects", "pack", fn))
            if rc != 0:
                ctx.notes.append("git index-pack rejects case %s (%s): %s" % (c["id"], c["bucket"], err[:100]))
                continue
            t = sx(r["out"])
            if not (isinstance(t, list) and t and t[0] == "ok"):
                fails[c["id"]] = "git index-pack accepts the pack, go-git rejects it: %s" % ((r.get("extra") or {}).get("error", r["out"]))[:200]
                continue
            ex = r.get("extra") or {}
            if not thin:
                if bytes.fromhex(ex.get("idx", "")) != gidx:
                    pp = P.PyPack(pack, hs)
                    ids = [x[3] for x in pp.resolve()] if not pp.error else []
                    dup = " [the pack holds the same object more than once]" if len(set(ids)) != len(ids) else ""
                    fails[c["id"]] = "idx differs from git index-pack's (%s)%s" % (diff_idx(bytes.fromhex(ex.get("idx", "")), gidx, hs), dup)
                elif bytes.fromhex(ex.get("rev", "")) != grev:
                    fails[c["id"]] = "rev differs from git index-pack --rev-index"
            else:
                # git completed the pack: its idx restricted to the original entries must be what go-git resolved
                p = subprocess.run(["git", "show-index", "--object-format=" + c["fmt"]], input=gidx, stdout=subprocess.PIPE, timeout=60)
                gl = sorted((int(l.split()[0]), l.split()[1], int(l.split()[2].strip("()"), 16)) for l in p.stdout.decode().splitlines())
                end = len(pack) - hs
                gl = [x for x in gl if x[0] < end]
                mine = [(int(row[0]), row[3][1:], int(row[4])) for row in t[2]]
                if mine != gl:
                    fails[c["id"]] = "thin pack: go-git resolves %d entries, git %d; first difference %s" % (
                        len(mine), len(gl), next((str((a, b)) for a, b in zip(mine + [None], gl + [None]) if a != b), ""))[:300]
        return fails

    def finding_class(self, case, reason, reply):
        if "idx differs" in reason and "the same object more than once" in reason:
            return "duplicate-objects-idx"
        return None


def diff_idx(a, b, hs):
    if len(a) != len(b):
        return "length %d vs %d" % (len(a), len(b))
    for i, (x, y) in enumerate(zip(a, b)):
        if x != y:
            return "first difference at byte %d" % i
    return "?"


SUITES = [Main()]
