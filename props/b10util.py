"""helpers shared by the b10 properties (C17, C19, C39): parsing of the canonical
observable text, Coq term builders for the storer-API operations"""
import re


def parse_out(s):
    """'( a ( b 1 ) x00 )' -> ['a', ['b', '1'], 'x00']; atoms stay strings"""
    toks = s.split()
    pos = 0

    def rd():
        nonlocal pos
        t = toks[pos]
        pos += 1
        if t == "(":
            l = []
            while toks[pos] != ")":
                l.append(rd())
            pos += 1
            return l
        return t
    v = rd()
    if pos != len(toks):
        raise ValueError("trailing tokens in " + s[:80])
    return v


ERRS = {"eNF": "ref_not_found", "eCH": "ref_changed", "eON": "obj_not_found", "eIT": "invalid_type",
        "eEF": "empty_ref_file", "ePB": "packed_refs_bad_format"}
_REF = re.compile(r"^(\d+)([hs])(\d+)$")


def expand_atom(a):
    """compact observable symbol (Spec/AStore.v o_res) -> the nested form the oracles work on"""
    if a == "ok":
        return ["ok"]
    if a in ERRS:
        return ["err", ERRS[a]]
    if a[:1] == "e" and len(a) > 1 and a[1].isupper():
        return ["err", a]
    m = re.match(r"^([hs])(\d+)$", a)
    if m:
        return ["ok", [m.group(1), m.group(2)]]
    if re.match(r"^n\d+$", a):
        return ["ok", a[1:]]
    if a[:1] == "L" and (len(a) == 1 or a[1] == "_"):
        out = ["ok"]
        for part in a.split("_")[1:]:
            m = _REF.match(part)
            out.append([m.group(1), [m.group(2), m.group(3)]] if m else part)
        return out
    if re.match(r"^o\d+_\d+_\d+$", a):
        return ["ok"] + a[1:].split("_")
    if a[:1] in "IQ" and (len(a) == 1 or a[1] == "_"):
        return ["ok"] + a.split("_")[1:]
    if re.match(r"^G\d+(_|$)", a):
        parts = a.split("_")
        return [parts[0][1:]] + parts[1:]
    if re.match(r"^R[kg](_|$)", a):
        out = ["unpack_ok" if a[1] == "k" else "unpack_err"]
        for part in a.split("_")[1:]:
            out.append([part[:-1], "ok" if part[-1] == "k" else "ng"])
        return out
    if re.match(r"^c\d+_(z|\d+)_(z|\d+)$", a):
        n, o, w = a[1:].split("_")
        return [n, "zero" if o == "z" else o, "zero" if w == "z" else w]
    return a


def expand(v):
    if isinstance(v, list):
        return [expand(x) for x in v]
    return expand_atom(v)


def parse_expanded(s):
    return expand(parse_out(s))


def show_out(v):
    if isinstance(v, list):
        return "( " + "".join(show_out(x) + " " for x in v) + ")"
    return v


def coq_refval(v):
    return "(RHash %d)" % v[1] if v[0] == "h" else "(RSym %d)" % v[1]


def coq_nlist(l):
    return "[" + "; ".join("%d" % x for x in l) + "]"


def coq_op(o):
    """storer-API call (JSON array form used by harness/b10store) -> Coq term of type AStore.op"""
    k = o[0]
    if k == "setref":
        return "OSetRef %d %s" % (o[1], coq_refval(o[2]))
    if k == "casnil":
        return "OSetRef %d %s" % (o[1], coq_refval(o[2]))
    if k == "cas":
        return "OCas %d %s %d %s" % (o[1], coq_refval(o[2]), o[3], coq_refval(o[4]))
    if k == "getref":
        return "OGetRef %d" % o[1]
    if k == "iterrefs":
        return "OIterRefs"
    if k == "delref":
        return "ODelRef %d" % o[1]
    if k == "setobj":
        return "OSetObj %d" % o[1]
    if k == "hasobj":
        return "OHasObj %d" % o[1]
    if k == "sizeobj":
        return "OSizeObj %d" % o[1]
    if k == "getobj":
        return "OGetObj %d %d" % (o[1], o[2])
    if k == "iterobjs":
        return "OIterObjs %d" % o[1]
    if k == "setidx":
        return "OSetIdx %d" % o[1]
    if k == "getidx":
        return "OGetIdx"
    if k == "setcfg":
        return "OSetCfg %d" % o[1]
    if k == "getcfg":
        return "OGetCfg"
    if k == "setshallow":
        return "OSetShallow %s" % coq_nlist(o[1])
    if k == "getshallow":
        return "OGetShallow"
    if k == "applog":
        return "OAppendLog %d %d" % (o[1], o[2])
    if k == "getlog":
        return "OGetLog %d" % o[1]
    if k == "dellog":
        return "ODelLog %d" % o[1]
    raise ValueError("no Coq form for op %r" % (o,))


def coq_ops(ops):
    return "[" + "; ".join(coq_op(o) for o in ops) + "]"


def coq_universe(objs):
    """[[type, hexbody], ...] -> list (N * N) of (type, size)"""
    return "[" + "; ".join("(%d, %d)" % (t, len(b) // 2) for t, b in objs) + "]"


class AbsStore:
    """python twin of Spec/AStore.v st_step (the abstract repository store); results are in the nested
    form that parse_expanded produces.  Cross-checked against the Coq definition on a sample of every run."""

    def __init__(self, objs):
        self.types = [t for t, _ in objs]
        self.sizes = [len(b) // 2 for _, b in objs]
        self.refs, self.objs, self.idx, self.cfg, self.shallow, self.logs = {}, set(), 0, 0, [], {}

    def copy(self):
        c = AbsStore([])
        c.types, c.sizes = self.types, self.sizes
        c.refs, c.objs, c.idx, c.cfg = dict(self.refs), set(self.objs), self.idx, self.cfg
        c.shallow, c.logs = list(self.shallow), {k: list(v) for k, v in self.logs.items()}
        return c

    @staticmethod
    def _hash(v):
        return v[1] if v[0] == "h" else None

    @staticmethod
    def _rv(v):
        return [v[0], str(v[1])]

    def _typ_match(self, t, k):
        return t == 0 or (k < len(self.types) and self.types[k] == t) or (k >= len(self.types) and t == 0)

    def _valid(self, k):
        return k < len(self.types) and 1 <= self.types[k] <= 4

    def list_refs(self):
        ents = sorted(self.refs.items(), key=lambda e: (e[0], 2 * e[1][1] + (1 if e[1][0] == "s" else 0)))
        return ["ok"] + [[str(n), self._rv(v)] for n, v in ents]

    def list_objs(self, t=0):
        return ["ok"] + [str(k) for k in sorted(self.objs) if self._typ_match(t, k)]

    def step(self, o):
        k = o[0]
        if k in ("setref", "casnil"):
            self.refs[o[1]] = tuple(o[2])
            return ["ok"]
        if k == "cas":
            cur = self.refs.get(o[3])
            if cur is None:
                return ["err", "ref_not_found"]
            if self._hash(cur) != self._hash(o[4]):
                return ["err", "ref_changed"]
            self.refs[o[1]] = tuple(o[2])
            return ["ok"]
        if k == "getref":
            v = self.refs.get(o[1])
            return ["ok", self._rv(v)] if v is not None else ["err", "ref_not_found"]
        if k == "iterrefs":
            return self.list_refs()
        if k == "delref":
            self.refs.pop(o[1], None)
            return ["ok"]
        if k == "setobj":
            if not self._valid(o[1]):
                return ["err", "invalid_type"]
            self.objs.add(o[1])
            return ["ok", str(o[1])]
        if k == "hasobj":
            return ["ok"] if o[1] in self.objs else ["err", "obj_not_found"]
        if k == "sizeobj":
            return ["ok", str(self.sizes[o[1]])] if o[1] in self.objs else ["err", "obj_not_found"]
        if k == "getobj":
            t, x = o[1], o[2]
            if x in self.objs and self._typ_match(t, x):
                return ["ok", str(x), str(self.types[x]), str(self.sizes[x])]
            return ["err", "obj_not_found"]
        if k == "iterobjs":
            return self.list_objs(o[1])
        if k == "setidx":
            self.idx = o[1]
            return ["ok"]
        if k == "getidx":
            return ["ok", str(self.idx)]
        if k == "setcfg":
            self.cfg = o[1]
            return ["ok"]
        if k == "getcfg":
            return ["ok", str(self.cfg)]
        if k == "setshallow":
            self.shallow = list(o[1])
            return ["ok"]
        if k == "getshallow":
            return ["ok"] + [str(x) for x in self.shallow]
        if k == "applog":
            self.logs.setdefault(o[1], []).append(o[2])
            return ["ok"]
        if k == "getlog":
            return ["ok"] + [str(x) for x in self.logs.get(o[1], [])]
        if k == "dellog":
            self.logs.pop(o[1], None)
            return ["ok"]
        if k in ("packrefs", "reopen"):
            return ["ok"]
        if k == "addpack":
            self.objs.update(o[1])
            return ["ok"]
        raise ValueError("AbsStore: unknown call %r" % (o,))

    def snapshot(self):
        return [self.list_refs(), self.list_objs(0), ["ok", str(self.idx)], ["ok", str(self.cfg)],
                ["ok"] + [str(x) for x in self.shallow],
                [[str(n)] + [str(e) for e in es] for n, es in sorted(self.logs.items()) if es]]
