"""helpers shared by the b10 properties (C17, C19, C39): parsing of the canonical
observable text, Coq term builders for the storer-API operations"""


def parse_out(s):
    """'( a ( b 1 ) x00 )' -> ['a', ['b', '1'], 'x00']; atoms stay strings"""
    toks = s.split()
    pos = 0

    def rd():
        nonlocal pos
        t = toks[pos]
        pos += 1
        if t == "(":
            l = []
            while toks[pos] != ")":
                l.append(rd())
            pos += 1
            return l
        return t
    v = rd()
    if pos != len(toks):
        raise ValueError("trailing tokens in " + s[:80])
    return v


def show_out(v):
    if isinstance(v, list):
        return "( " + "".join(show_out(x) + " " for x in v) + ")"
    return v


def coq_refval(v):
    return "(RHash %d)" % v[1] if v[0] == "h" else "(RSym %d)" % v[1]


def coq_nlist(l):
    return "[" + "; ".join("%d" % x for x in l) + "]"


def coq_op(o):
    """storer-API call (JSON array form used by harness/b10store) -> Coq term of type AStore.op"""
    k = o[0]
    if k == "setref":
        return "OSetRef %d %s" % (o[1], coq_refval(o[2]))
    if k == "casnil":
        return "OSetRef %d %s" % (o[1], coq_refval(o[2]))
    if k == "cas":
        return "OCas %d %s %d %s" % (o[1], coq_refval(o[2]), o[3], coq_refval(o[4]))
    if k == "getref":
        return "OGetRef %d" % o[1]
    if k == "iterrefs":
        return "OIterRefs"
    if k == "delref":
        return "ODelRef %d" % o[1]
    if k == "setobj":
        return "OSetObj %d" % o[1]
    if k == "hasobj":
        return "OHasObj %d" % o[1]
    if k == "sizeobj":
        return "OSizeObj %d" % o[1]
    if k == "getobj":
        return "OGetObj %d %d" % (o[1], o[2])
    if k == "iterobjs":
        return "OIterObjs %d" % o[1]
    if k == "setidx":
        return "OSetIdx %d" % o[1]
    if k == "getidx":
        return "OGetIdx"
    if k == "setcfg":
        return "OSetCfg %d" % o[1]
    if k == "getcfg":
        return "OGetCfg"
    if k == "setshallow":
        return "OSetShallow %s" % coq_nlist(o[1])
    if k == "getshallow":
        return "OGetShallow"
    if k == "applog":
        return "OAppendLog %d %d" % (o[1], o[2])
    if k == "getlog":
        return "OGetLog %d" % o[1]
    if k == "dellog":
        return "ODelLog %d" % o[1]
    raise ValueError("no Coq form for op %r" % (o,))


def coq_ops(ops):
    return "[" + "; ".join(coq_op(o) for o in ops) + "]"


def coq_universe(objs):
    """[[type, hexbody], ...] -> list (N * N) of (type, size)"""
    return "[" + "; ".join("(%d, %d)" % (t, len(b) // 2) for t, b in objs) + "]"
