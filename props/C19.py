"""C19 Transactional storage shows base plus pending writes, then commits them (DESIGN.md §4.C19)."""
from vf.core import Suite
from vf.gen import pick_weighted
from props.b10util import parse_expanded as parse_out, show_out, coq_ops, coq_universe, AbsStore

ID = "C19"
THEOREMS = ["C19_base_untouched", "C19_commit_abs", "C19_view_partial", "C19_commit_partial",
            "C19_view_refuted_iter_objects", "C19_guard_tight_iter_objects"]
MODEL_FILES = ["Txn.v"]
MODELLED = ("storage/transactional (with the three fix commits): ReferenceStorage {SetReference, CheckAndSetReference, Reference, IterReferences, "
            "RemoveReference, Commit}, ObjectStorage {SetEncodedObject, HasEncodedObject, EncodedObjectSize, EncodedObject, "
            "IterEncodedObjects, Commit}, IndexStorage, ConfigStorage, ShallowStorage, ReflogStorage, basic.Commit (Model/Txn.v) "
            "over abstract base/temporal stores (Spec/AStore.v); spec: spec_txn = base + view (Spec/AStore.v). Not modelled: "
            "CountLooseRefs, PackRefs (no-op), AddAlternate, Module, PackfileWriter, Close; object contents (ids only; the harness "
            "checks the bytes read back); error paths of a failing base storer during Commit")
TRUSTED = [
    "C-impl: transactional.NewStorage(base, memory.NewStorage()) driven by harness/cmd/c19 over memory / memfs / osfs bases vs Model/Txn.c19_run on every case",
    "oracle: Spec/AStore.c19_spec_run (the abstract transaction: reads = queries on the view, base untouched, Commit: base := view) evaluated in Coq on every case and compared with the implementation",
    "the base and temporal storers are assumed to behave as the abstract store of Spec/AStore.v on the calls the transaction makes (property C17)",
]
ASSUMPTIONS = ["the base storer and the temporal (memory) storer behave like the abstract store on SetReference/Reference/IterReferences/RemoveReference, "
               "the object calls, Index/SetIndex, Config/SetConfig, Shallow/SetShallow and the reflog calls",
               "object ids determine type and size (no hash collisions inside a case universe)"]
RULE = ("case = (base backend, initial base contents, list of calls on the transaction, Commit) over 4 reference names x 5 objects; "
        "buckets: refs / objs / misc (index, config, shallow) / logs / mixed / targeted sequences (overwrite-then-list, remove-then-list, "
        "remove-then-CAS, shallow cleared, object rewritten, reflog delete-then-append); non-trivial = at least one write through the "
        "transaction; distinct by content")

NAMES = ["refs/heads/a", "refs/heads/b", "refs/tags/t", "refs/remotes/o/m"]
OBJS = [[3, b"blob zero".hex()], [3, b"b1".hex()], [2, b"".hex()],
        [1, b"tree 4b825dc642cb6eb9a060e54bf8d69288fbee4904\nauthor a <a@b> 1 +0000\ncommitter a <a@b> 1 +0000\n\nm\n".hex()],
        [4, b"object 0000000000000000000000000000000000000001\ntype commit\ntag x\ntagger a <a@b> 1 +0000\n\nt\n".hex()],
        [6, b"not storable".hex()]]
NN, NO = len(NAMES), len(OBJS) - 1      # the last object has a type SetEncodedObject refuses
BAD = len(OBJS) - 1
BASES = [(4, "memory"), (3, "memfs"), (1, "osfs"), (1, "memfs:x")]
WRITES = {"setref", "cas", "casnil", "delref", "setobj", "setidx", "setcfg", "setshallow", "applog", "dellog"}


def rval(rng):
    return ["h", rng.randrange(NO)] if rng.random() < 0.8 else ["s", rng.randrange(NN)]


def ref_op(rng, known=None):
    n = rng.randrange(NN)
    k = pick_weighted(rng, [(4, "setref"), (3, "cas"), (1, "casnil"), (3, "getref"), (3, "iterrefs"), (3, "delref")])
    if k in ("setref", "casnil"):
        return [k, n, rval(rng)]
    if k == "cas":
        on = n if rng.random() < 0.85 else rng.randrange(NN)
        ov = rval(rng)
        if known is not None and on in known and rng.random() < 0.6:
            ov = known[on]          # the value the caller last saw: a CAS that is meant to succeed
        return ["cas", n, rval(rng), on, ov]
    if k in ("getref", "delref"):
        return [k, n]
    return ["iterrefs"]


def obj_op(rng):
    k = pick_weighted(rng, [(4, "setobj"), (2, "hasobj"), (2, "sizeobj"), (3, "getobj"), (3, "iterobjs")])
    if k == "getobj":
        o = rng.randrange(NO)
        t = pick_weighted(rng, [(2, 0), (2, OBJS[o][0]), (1, rng.randrange(1, 5))])
        return ["getobj", t, o]
    if k == "iterobjs":
        return ["iterobjs", rng.randrange(0, 5)]
    if k == "setobj" and rng.random() < 0.1:
        return [k, BAD]
    return [k, rng.randrange(NO)]


def shallow_list(rng):
    r = rng.random()
    if r < 0.3:
        return []
    return [rng.randrange(NO) for _ in range(rng.randrange(1, 4))]


def misc_op(rng):
    k = pick_weighted(rng, [(2, "setidx"), (2, "getidx"), (2, "setcfg"), (2, "getcfg"), (3, "setshallow"), (3, "getshallow")])
    if k in ("setidx", "setcfg"):
        return [k, rng.randrange(0, 4)]
    if k == "setshallow":
        return [k, shallow_list(rng)]
    return [k]


def log_op(rng):
    k = pick_weighted(rng, [(4, "applog"), (3, "getlog"), (2, "dellog")])
    n = rng.randrange(NN)
    if k == "applog":
        return [k, n, rng.randrange(1, 9)]
    return [k, n]


def any_op(rng, known=None):
    f = pick_weighted(rng, [(4, "r"), (3, "o"), (2, "m"), (2, "l")])
    return {"r": lambda: ref_op(rng, known), "o": lambda: obj_op(rng), "m": lambda: misc_op(rng), "l": lambda: log_op(rng)}[f]()


def init_ops(rng, rich):
    """calls that populate the base before the transaction starts (writes only)"""
    ops = []
    for n in range(NN):
        if rng.random() < (0.7 if rich else 0.3):
            ops.append(["setref", n, rval(rng)])
    for o in range(NO):
        if rng.random() < (0.5 if rich else 0.2):
            ops.append(["setobj", o])
    if rng.random() < 0.4:
        ops.append(["setidx", rng.randrange(1, 4)])
    if rng.random() < 0.4:
        ops.append(["setcfg", rng.randrange(1, 4)])
    if rng.random() < 0.5:
        ops.append(["setshallow", [rng.randrange(NO) for _ in range(rng.randrange(1, 3))]])
    for n in range(NN):
        if rng.random() < 0.3:
            for _ in range(rng.randrange(1, 3)):
                ops.append(["applog", n, rng.randrange(1, 9)])
    rng.shuffle(ops)
    return ops


READ_SUFFIX = ([["getref", n] for n in range(NN)] + [["iterrefs"]] + [["hasobj", o] for o in range(NO)] +
               [["iterobjs", 0], ["getidx"], ["getcfg"], ["getshallow"]] + [["getlog", n] for n in range(NN)])


def base_refs(init):
    known = {}
    for o in init:
        if o[0] == "setref":
            known[o[1]] = o[2]
    return known


class Main(Suite):
    name = "main"
    go_cmd = "c19"
    coq_imports = "From GoGit Require Import Spec.AStore Model.Txn."
    quick_n = 300
    thorough_n = 2500
    coq_chunk = 250

    def exhaustive(self):
        """small scope, thorough tier: every sequence of <= 3 calls over one name / one object / one shallow value,
        on a base that holds the name, the object, a shallow list and a reflog"""
        import itertools
        alphabet = [["setref", 0, ["h", 1]], ["cas", 0, ["h", 2], 0, ["h", 0]], ["cas", 0, ["h", 2], 0, ["h", 1]], ["getref", 0],
                    ["iterrefs"], ["delref", 0], ["setobj", 0], ["iterobjs", 0], ["setshallow", []], ["setshallow", [1]],
                    ["getshallow"], ["applog", 0, 7], ["dellog", 0], ["getlog", 0]]
        init = [["setref", 0, ["h", 0]], ["setobj", 0], ["setshallow", [0]], ["applog", 0, 1]]
        cases = []
        for k in (1, 2, 3):
            for seq in itertools.product(alphabet, repeat=k):
                cases.append({"bucket": "exhaustive-%d" % k, "base": "memory" if len(cases) % 3 else "memfs", "pack": False,
                              "names": NAMES, "objs": OBJS, "init": init, "ops": [list(o) for o in seq]})
        return cases

    def gen(self, rng, n, tier):
        cases = self.exhaustive() if tier == "thorough" else []
        buckets = [(3, "refs"), (2, "objs"), (2, "misc"), (2, "logs"), (4, "mixed"), (3, "targeted")]
        for _ in range(n):
            b = pick_weighted(rng, buckets)
            base = pick_weighted(rng, BASES)
            init = init_ops(rng, rich=rng.random() < 0.7)
            known = base_refs(init)
            ln = pick_weighted(rng, [(3, rng.randrange(1, 5)), (3, rng.randrange(4, 10)), (1, rng.randrange(10, 25))])
            if b == "refs":
                ops = [ref_op(rng, known) for _ in range(ln)]
            elif b == "objs":
                ops = [obj_op(rng) for _ in range(ln)]
            elif b == "misc":
                ops = [misc_op(rng) for _ in range(ln)]
            elif b == "logs":
                ops = [log_op(rng) for _ in range(ln)]
            elif b == "mixed":
                ops = [any_op(rng, known) for _ in range(ln)]
            else:
                ops = self.targeted(rng, init, known)
            if rng.random() < 0.75:
                ops = ops + READ_SUFFIX
            # packing loose *symbolic* references corrupts packed-refs (a C15 finding): keep it out of this property
            nosym = all(o[0] != "setref" or o[2][0] == "h" for o in init)
            cases.append({"bucket": b, "base": base, "pack": base != "memory" and nosym and rng.random() < 0.6,
                          "names": NAMES, "objs": OBJS, "init": init, "ops": ops})
        return cases

    def targeted(self, rng, init, known):
        n = rng.choice(sorted(known)) if known and rng.random() < 0.8 else rng.randrange(NN)
        cur = known.get(n, ["h", 0])
        t = rng.randrange(8)
        if t == 0:      # overwrite then list
            return [["setref", n, rval(rng)], ["iterrefs"], ["getref", n]]
        if t == 1:      # remove then list
            return [["delref", n], ["iterrefs"], ["getref", n]]
        if t == 2:      # remove then CAS against the value the base still holds
            return [["delref", n], ["cas", n, rval(rng), n, cur], ["getref", n], ["iterrefs"]]
        if t == 3:      # clear the shallow list
            return [["setshallow", shallow_list(rng)], ["setshallow", []], ["getshallow"]]
        if t == 4:      # rewrite an object that may be in the base
            o = rng.randrange(NO)
            return [["setobj", o], ["iterobjs", 0], ["iterobjs", OBJS[o][0]], ["getobj", 0, o], ["sizeobj", o]]
        if t == 5:      # reflog delete then append, append then delete
            return [["dellog", n], ["applog", n, 7], ["getlog", n], ["applog", n, 8], ["dellog", n], ["getlog", n], ["applog", n, 9]]
        if t == 6:      # set, remove, set again, CAS on the new value
            v = rval(rng)
            return [["setref", n, v], ["delref", n], ["getref", n], ["setref", n, v], ["cas", n, rval(rng), n, v], ["getref", n]]
        # CAS against temporal / base values, matching and stale
        v = rval(rng)
        return [["cas", n, v, n, cur], ["cas", n, rval(rng), n, v], ["cas", n, rval(rng), n, cur], ["getref", n]]

    def model_expr(self, c):
        return "(c19_run %s %s %s)%%N" % (coq_universe(c["objs"]), coq_ops(c["init"]), coq_ops(c["ops"]))

    def spec_expr(self, c):
        return "(c19_spec_run %s %s %s)%%N" % (coq_universe(c["objs"]), coq_ops(c["init"]), coq_ops(c["ops"]))

    @staticmethod
    def spec(c):
        """the abstract transaction (python twin of Spec/AStore.v spec_run, cross-checked in extra()):
        reads are queries on the view, the base does not move, Commit makes the base equal to the view"""
        base = AbsStore(c["objs"])
        for o in c["init"]:
            base.step(o)
        view = base.copy()
        return [[view.step(o) for o in c["ops"]], base.snapshot(), ["ok"], view.snapshot()]

    def nontrivial(self, c):
        return any(o[0] in WRITES for o in c["ops"])

    def first_divergence(self, c, got, want):
        """got / want: parsed observables ( results pre commit post ).  -> None or (index, label, detail);
        index = position of the call, or len(ops)+0/1/2 for base-before / commit / base-after"""
        n = len(c["ops"])
        if not isinstance(got, list) or len(got) != 4 or not isinstance(got[0], list) or len(got[0]) != n:
            return (-1, "shape", "malformed reply")
        for i, (g, w) in enumerate(zip(got[0], want[0])):
            if g != w:
                return (i, c["ops"][i][0], "call %d %r: impl %s, abstract transaction %s" % (i, c["ops"][i], show_out(g), show_out(w)))
        labels = ["base-before-commit", "commit", "base-after-commit"]
        for j in (1, 2, 3):
            if got[j] != want[j]:
                detail = "%s: impl %s, abstract transaction %s" % (labels[j - 1], show_out(got[j]), show_out(want[j]))
                if j == 3 and isinstance(got[3], list) and len(got[3]) == 6:
                    parts = ["refs", "objects", "index", "config", "shallow", "reflogs"]
                    diff = [parts[k] for k in range(6) if got[3][k] != want[3][k]]
                    return (n + j - 1, labels[j - 1] + ":" + "+".join(diff), detail)
                return (n + j - 1, labels[j - 1], detail)
        return None

    def oracle(self, ctx, cases, impl, model):
        """the property on the implementation: every answer of the transaction, the base before Commit and the
        base after Commit equal those of the abstract transaction (base + view)"""
        fails = {}
        self._div = {}
        for c in cases:
            r = impl.get(c["id"])
            if r is None:
                fails[c["id"]] = "no reply from the implementation"
                continue
            if r.get("panic"):
                continue
            try:
                got, want = parse_out(r["out"]), self.spec(c)
            except Exception as e:
                fails[c["id"]] = "unparsable observable: %s" % e
                continue
            d = self.first_divergence(c, got, want)
            if d is None:
                continue
            fails[c["id"]] = d[2]
            # does the implementation still agree with the pristine model G up to and including the divergence?
            agrees = False
            m = model.get(c["id"])
            if m:
                try:
                    mo = parse_out(m)
                    n = len(c["ops"])
                    if d[0] < 0:
                        agrees = False
                    elif d[0] < n:
                        agrees = got[0][:d[0] + 1] == mo[0][:d[0] + 1]
                    else:
                        agrees = got == mo
                except Exception:
                    agrees = False
            self._div[c["id"]] = (d[0], d[1], agrees, got, want)
        return fails

    def finding_class(self, case, reason, reply):
        d = getattr(self, "_div", {}).get(case["id"])
        if not d or not d[2]:
            return None         # the implementation departs from the model of the unchanged tree: never a known finding
        idx, label, _, got, want = d
        if label == "iterobjs":
            g, w = got[0][idx], want[0][idx]
            if isinstance(g, list) and isinstance(w, list) and sorted(set(g[1:])) == sorted(set(w[1:])):
                return "iter-objects-duplicates"
            return None
        return None

    def extra(self, ctx, cases, impl, model):
        kinds, classes = {}, {}
        for c in cases:
            for o in c["ops"]:
                kinds[o[0]] = kinds.get(o[0], 0) + 1
            r = impl.get(c["id"])
            if r and not r.get("panic"):
                try:
                    got = parse_out(r["out"])
                    for o, g in zip(c["ops"], got[0]):
                        k = o[0] + ":" + (g[1] if g[:1] == ["err"] else "ok")
                        classes[k] = classes.get(k, 0) + 1
                except Exception:
                    pass
        sample = cases[:12] + cases[12::max(1, len(cases) // 40)]
        outs = ctx.coq_eval(self.coq_imports, [self.spec_expr(c) for c in sample], chunk=self.coq_chunk)
        bad = 0
        for c, o in zip(sample, outs):
            if o is None or parse_out(o) != self.spec(c):
                bad += 1
                ctx.notes.append("spec_mismatch: python abstract transaction vs Spec/AStore.v on case %s" % c["id"])
        return {"calls_by_kind": kinds, "answers_by_call_and_class": classes, "bases": {b: sum(1 for c in cases if c["base"] == b) for _, b in BASES},
                "spec_crosscheck_cases": len(sample), "spec_mismatches": bad}


SUITES = [Main()]
