"""C12 Index files interoperate with git in both directions (DESIGN.md §4.C12)."""
import hashlib
import os
import re
import shutil
import struct
import subprocess
import tempfile
from vf.core import Suite, coq_list, coq_bool, coq_N, coq_Z
from vf.gen import pick_weighted

ID = "C12"
THEOREMS = ["C12_roundtrip", "C12_entry_roundtrip", "C12_entry_size_git", "C12_varint", "C12_reuc_stage_order", "C12_reuc_maporder_refuted"]
MODEL_FILES = ["IndexFile.v"]
MODELLED = ("plumbing/format/index: Encoder.Encode (sort, entry layout, V2/3 padding, V4 prefix compression, footer / skip-hash) and "
            "Decoder.Decode (header, readEntry, padEntry incl. long names, V4 strip-length checks, extension loop, TREE / REUC / EOIE "
            "decoders, optional vs mandatory unknown extensions, checksum rules); utils/binary Read/WriteVariableWidthInt "
            "(Model/IndexFile.v); not modelled: bufio buffering, EOIE extensions longer than offset+hash in files beyond bufio's 4096-byte buffer, sort instability on duplicate keys")
TRUSTED = [
    "C-impl: harness/cmd/c12 (index.NewDecoder/NewEncoder with the repository's hash.New) vs Model/IndexFile on every case; the checksum "
    "function of the model is instantiated per case with the SHA-1/SHA-256 of the prefixes the decoder can hash (computed by python hashlib)",
    "C-git: git 2.39.5 `ls-files -z --stage --debug` and `--resolve-undo` with GIT_INDEX_FILE as the reference reader (both directions); "
    "the python transcription of git's on-disk layout (props/C12.py build_index) is validated by git reading every synth-valid file",
]
ASSUMPTIONS = ["the checksum H is a function of the bytes (section variable of Model/IndexFile.v); hash.Size() is 20 or 32",
               "TREE and EOIE contents have no git plumbing printer: they are tied model-vs-implementation only"]
RULE = ("dec: index files written by git over generated command sequences (update-index --index-info/--cacheinfo/--force-remove/"
        "--skip-worktree/--index-version/--force-untracked-cache, add, add -N, write-tree, EOIE/IEOT config, sha1+sha256), the same with a "
        "null trailer, files built by a python transcription of the format (V2/3/4, long names 4093..5000, stages, extended flags, TREE/REUC/"
        "EOIE/optional extensions) and 14 malformed variants; enc: in-memory indexes (versions 0..5, shuffled entries, shared prefixes, long "
        "names, boundary integers, zero/negative/overflowing times, stages > 3, NUL in names); non-trivial = at least one entry / > 24 bytes")

H = lambda b: b.hex()
GITENV = dict(os.environ, GIT_CONFIG_GLOBAL="/dev/null", GIT_CONFIG_SYSTEM="/dev/null", GIT_AUTHOR_NAME="v", GIT_AUTHOR_EMAIL="v@v",
              GIT_COMMITTER_NAME="v", GIT_COMMITTER_EMAIL="v@v", GIT_AUTHOR_DATE="1700000000 +0000",
              GIT_COMMITTER_DATE="1700000000 +0000", LC_ALL="C")


def hfun(hs):
    return hashlib.sha1 if hs == 20 else hashlib.sha256


# ------------------------------------------------------------------ S in python: git's index layout (read-cache.c)

def varint(n):
    out = [n & 0x7f]
    n >>= 7
    while n:
        n -= 1
        out.insert(0, 0x80 | (n & 0x7f))
        n >>= 7
    return bytes(out)


def key(e):
    return (e["name"], e["stage"])


def enc_entry(e, ver, hs, last):
    name = e["name"]
    ext = e.get("skip") or e.get("ita")
    flags = ((e["stage"] & 3) << 12) | min(len(name), 0xfff) | (0x4000 if ext else 0)
    b = struct.pack(">10I", e["cs"] & 0xffffffff, e["cn"], e["ms"] & 0xffffffff, e["mn"], e["dev"], e["ino"], e["mode"], e["uid"], e["gid"], e["size"])
    b += e["hash"] + struct.pack(">H", flags)
    if ext:
        b += struct.pack(">H", (0x2000 if e.get("ita") else 0) | (0x4000 if e.get("skip") else 0))
    if ver == 4:
        p = 0
        while p < min(len(last), len(name)) and last[p] == name[p]:
            p += 1
        return b + varint(len(last) - p) + name[p:] + b"\0"
    n = len(b) + len(name)
    return b + name + b"\0" * (8 - n % 8)


def enc_tree_ext(entries, hs):
    out = b""
    for t in entries:
        out += t["path"] + b"\0" + str(t["entries"]).encode() + b" " + str(t["trees"]).encode() + b"\n"
        if t["entries"] >= 0:
            out += t["hash"]
    return out


def enc_reuc_ext(entries, hs):
    out = b""
    for r in entries:
        out += r["path"] + b"\0"
        for s in (1, 2, 3):
            out += (b"%o" % r["modes"].get(s, 0)) + b"\0"
        for s in (1, 2, 3):
            if r["modes"].get(s, 0):
                out += r["hashes"][s]
    return out


def build_index(spec, hs):
    """spec: version, entries (sorted by the caller or not), exts = list of (sig, bytes); trailer = 'ok'|'zero'|'bad'"""
    ver = spec["version"]
    es = spec["entries"]
    b = b"DIRC" + struct.pack(">II", ver, spec.get("count", len(es)))
    last = b""
    for e in es:
        b += enc_entry(e, ver, hs, last)
        last = e["name"]
    for sig, data in spec.get("exts", []):
        b += sig + struct.pack(">I", len(data)) + data
    tr = spec.get("trailer", "ok")
    if tr == "ok":
        b += hfun(hs)(b).digest()
    elif tr == "zero":
        b += b"\0" * hs
    else:
        b += bytes((x ^ 0x5a) for x in hfun(hs)(b).digest())
    return b


# ------------------------------------------------------------------ canonical observable text (mirrors harness/cmd/c12)

def obytes(b):
    if len(b) <= 64:
        return "x" + H(b)
    h = 0
    for c in b:
        h = (h * 1000003 + c + 1) % 4294967291
    return "( long %d %d )" % (len(b), h)


def render_entry(e):
    return "( %s %d %d %d %d %d %d %d %d %d %d %d x%s %s %s )" % (
        obytes(e["name"]), e["stage"], e["cs"], e["cn"], e["ms"], e["mn"], e["dev"], e["ino"], e["mode"], e["uid"], e["gid"], e["size"],
        H(e["hash"]), "true" if e.get("skip") else "false", "true" if e.get("ita") else "false")


def render_entries(es):
    return "( " + "".join(render_entry(e) + " " for e in es) + ")"


TOK = re.compile(r"\(|\)|[^\s()]+")


def parse_out(s):
    toks = TOK.findall(s)
    pos = [0]

    def rd():
        t = toks[pos[0]]
        pos[0] += 1
        if t == "(":
            l = []
            while toks[pos[0]] != ")":
                l.append(rd())
            pos[0] += 1
            return l
        return t
    return rd()


def unparse(x):
    if isinstance(x, list):
        return "( " + "".join(unparse(y) + " " for y in x) + ")"
    return x


# ------------------------------------------------------------------ git as the reference reader

class GitReader:
    """scratch repositories (sha1 / sha256) in which `git ls-files` reads an index file given by GIT_INDEX_FILE"""

    def __init__(self, tmp):
        self.dirs = {}
        for hs, fmt in ((20, "sha1"), (32, "sha256")):
            d = os.path.join(tmp, "reader-" + fmt)
            os.makedirs(d, exist_ok=True)
            subprocess.run(["git", "init", "-q", "--object-format=" + fmt, d], env=GITENV, check=True,
                           stdout=subprocess.DEVNULL, stderr=subprocess.DEVNULL)
            self.dirs[hs] = d
        self.n = 0

    REC = re.compile(rb"(\d+) ([0-9a-f]+) (\d)\t(.*?)\0  ctime: (\d+):(\d+)\n  mtime: (\d+):(\d+)\n  dev: (\d+)\tino: (\d+)\n"
                     rb"  uid: (\d+)\tgid: (\d+)\n  size: (\d+)\tflags: ([0-9a-f]+)\n", re.S)

    def read(self, data, hs):
        """-> (entries, resolve_undo) as git reports them, or None when git rejects the file"""
        d = self.dirs[hs]
        self.n += 1
        f = os.path.join(d, "idx%d" % self.n)
        open(f, "wb").write(data)
        env = dict(GITENV, GIT_INDEX_FILE=f)
        try:
            p = subprocess.run(["git", "ls-files", "-z", "--stage", "--debug"], cwd=d, env=env, stdout=subprocess.PIPE, stderr=subprocess.PIPE, timeout=60)
            self.err = p.stderr[:300]
            if p.returncode != 0:
                return None
            es, pos = [], 0
            out = p.stdout
            while pos < len(out):
                m = self.REC.match(out, pos)
                if not m:
                    return None
                g = m.groups()
                fl = int(g[13], 16)
                es.append({"name": g[3], "stage": int(g[2]), "mode": int(g[0], 8), "hash": bytes.fromhex(g[1].decode()),
                           "cs": int(g[4]), "cn": int(g[5]), "ms": int(g[6]), "mn": int(g[7]), "dev": int(g[8]), "ino": int(g[9]),
                           "uid": int(g[10]), "gid": int(g[11]), "size": int(g[12]),
                           "skip": bool(fl & 0x40000000), "ita": bool(fl & 0x20000000)})
                pos = m.end()
            ru = {}
            if b"REUC" not in data:
                return es, ru
            p = subprocess.run(["git", "ls-files", "-z", "--resolve-undo"], cwd=d, env=env, stdout=subprocess.PIPE, stderr=subprocess.PIPE, timeout=60)
            if p.returncode != 0:
                return None
            for rec in p.stdout.split(b"\0")[:-1]:
                m = re.match(rb"(\d+) ([0-9a-f]+) (\d)\t(.*)$", rec, re.S)
                ru.setdefault(m.group(4), {})[int(m.group(3))] = bytes.fromhex(m.group(2).decode())
            return es, ru
        finally:
            os.remove(f)


def git_time(e):
    """what Decoder + time.Unix make of on-disk seconds/nanoseconds (nsec >= 1e9 is normalised; git prints raw)"""
    return e


# ------------------------------------------------------------------ generators

ALPH = b"abXY.-_ 0"
MODES = [0o100644, 0o100755, 0o120000, 0o160000]


def rname(rng, long_ok=True):
    r = rng.random()
    if long_ok and r < 0.08:
        n = rng.choice([4093, 4094, 4095, 4096, 4097, 5000])
        # few directory levels: every level costs a cached-tree entry once git runs write-tree
        body = bytearray(rng.choice(b"ab") for _ in range(n))
        for k in range(rng.randrange(0, 4)):
            body[rng.randrange(1, n - 1)] = 0x2f
        return (b"L" + bytes(body))[:n].replace(b"//", b"/a").rstrip(b"/").ljust(n, b"z")
    depth = rng.randrange(1, 4)
    comps = []
    for _ in range(depth):
        comps.append(bytes(rng.choice(ALPH) for _ in range(rng.randrange(1, 7))))
    if r > 0.9:
        comps[-1] += bytes([rng.choice([0x80, 0xc3, 0xff, 0x22, 0x5c, 0x0a, 0x09])]) + b"q"
    return b"/".join(comps)


def rhash(rng, hs):
    return bytes(rng.randrange(256) for _ in range(hs))


def rentry(rng, hs, name=None, stage=0):
    big = rng.random() < 0.15
    u = lambda: rng.choice([0, 1, 255, 256, 65535, 65536, 2**31 - 1, 2**31, 2**32 - 1]) if big else rng.randrange(0, 100000)
    t = lambda: rng.choice([(0, 0), (1, 0), (0, 1), (2**31 - 1, 999999999), (2**31, 5), (2**32 - 1, 999999999), (1700000000, 123456789)])
    cs, cn = t()
    ms, mn = t()
    return {"name": name if name is not None else rname(rng), "stage": stage, "cs": cs, "cn": cn, "ms": ms, "mn": mn,
            "dev": u(), "ino": u(), "mode": rng.choice(MODES) if rng.random() < 0.9 else u(), "uid": u(), "gid": u(), "size": u(),
            "hash": rhash(rng, hs), "skip": rng.random() < 0.15, "ita": rng.random() < 0.1}


def rentries(rng, hs, n):
    """git-valid entry set: unique names; a name is either merged (stage 0) or has a non-empty subset of stages 1..3"""
    es = {}
    shared = rname(rng, False)
    nlong = 0
    for _ in range(n):
        r = rng.random()
        name = rname(rng, nlong == 0)
        nlong += len(name) > 4000       # at most one long name per index: keeps the Coq case files small
        if r < 0.3:                       # names sharing long prefixes (V4 compression) and sibling prefixes
            name = shared + rng.choice([b"", b"/", b"a", b"/a", b"b/c", b".x"]) + bytes([rng.choice(ALPH)])
        if any(k[0] == name for k in es):
            continue
        if rng.random() < 0.2:
            for s in rng.sample([1, 2, 3], rng.randrange(1, 4)):
                es[(name, s)] = rentry(rng, hs, name, s)
        else:
            es[(name, 0)] = rentry(rng, hs, name, 0)
    return [es[k] for k in sorted(es)]


def rexts(rng, hs):
    exts = []
    for _ in range(pick_weighted(rng, [(3, 0), (3, 1), (2, 2), (1, 3)])):
        k = pick_weighted(rng, [(3, "TREE"), (3, "REUC"), (2, "EOIE"), (2, "opt"), (1, "empty")])
        if k == "TREE":
            ts = []
            for i in range(rng.randrange(0, 4)):
                cnt = rng.choice([-1, 0, 1, 5, 12345])
                ts.append({"path": b"" if i == 0 else rname(rng, False).split(b"/")[0], "entries": cnt, "trees": rng.randrange(0, 3), "hash": rhash(rng, hs)})
            exts.append((b"TREE", enc_tree_ext(ts, hs)))
        elif k == "REUC":
            rs = []
            for _ in range(rng.randrange(0, 3)):
                modes = {s: rng.choice([0, 0o100644, 0o100644, 0o100755, 0o120000]) for s in (1, 2, 3)}
                rs.append({"path": rname(rng, False), "modes": modes, "hashes": {s: rhash(rng, hs) for s in (1, 2, 3)}})
            exts.append((b"REUC", enc_reuc_ext(rs, hs)))
        elif k == "EOIE":
            exts.append((b"EOIE", struct.pack(">I", rng.randrange(0, 2**32)) + rhash(rng, hs)))
        elif k == "opt":
            exts.append((rng.choice([b"UNTR", b"FSMN", b"IEOT", b"ZZZZ", b"Aaaa"]), bytes(rng.randrange(256) for _ in range(rng.randrange(0, 40)))))
        else:
            exts.append((rng.choice([b"TREE", b"REUC", b"UNTR"]), b""))
    return exts


def sums_for(data, hs):
    return [hfun(hs)(data[:max(0, len(data) - hs - k)]).hexdigest() if len(data) - hs - k >= 0 else "" for k in range(8)]


def dec_case(bucket, data, hs, skiphash=False, valid=False, note=""):
    return {"bucket": bucket, "kind": "dec", "data": H(data), "hs": hs, "skiphash": skiphash, "repeat": 3,
            "sums": sums_for(data, hs), "valid": valid, "note": note}


def synth_cases(rng, n):
    """index files built by the python transcription of git's layout: valid ones (git must read them) and malformed ones"""
    cases = []
    for _ in range(n):
        hs = 32 if rng.random() < 0.2 else 20
        ver = rng.choice([2, 3, 4])
        es = rentries(rng, hs, pick_weighted(rng, [(1, 0), (3, 1), (4, 3), (3, 6), (1, 12)]))
        spec = {"version": ver, "entries": es, "exts": rexts(rng, hs), "trailer": pick_weighted(rng, [(6, "ok"), (2, "zero")])}
        data = build_index(spec, hs)
        cases.append(dec_case("synth-valid", data, hs, skiphash=rng.random() < 0.2, valid=True))
        # malformed / boundary variants of the same file
        k = pick_weighted(rng, [(3, "trunc"), (2, "flip"), (1, "badsum"), (1, "sig"), (1, "ver"), (1, "count"), (1, "mand"), (1, "strip"),
                                (1, "trail"), (1, "eoie"), (1, "treebad"), (1, "reucbad"), (1, "nsec"), (1, "varint")])
        if k == "trunc":
            cut = rng.randrange(0, len(data))
            if rng.random() < 0.5:
                cut = max(0, len(data) - rng.randrange(1, hs + 12))
            m = data[:cut]
        elif k == "flip":
            i = rng.randrange(len(data))
            m = data[:i] + bytes([data[i] ^ (1 << rng.randrange(8))]) + data[i + 1:]
        elif k == "badsum":
            m = build_index(dict(spec, trailer="bad"), hs)
        elif k == "sig":
            m = rng.choice([b"DIRc", b"dirc", b"\0\0\0\0"]) + data[4:]
        elif k == "ver":
            m = data[:4] + struct.pack(">I", rng.choice([0, 1, 5, 2**32 - 1])) + data[8:]
        elif k == "count":
            m = data[:8] + struct.pack(">I", rng.choice([len(es) + 1, 2**32 - 1, max(0, len(es) - 1)])) + data[12:]
        elif k == "mand":
            m = build_index(dict(spec, exts=spec["exts"] + [(rng.choice([b"link", b"sdir", b"zzzz", b"[abc"]), b"xy")]), hs)
        elif k == "strip":
            # V4 file with a strip length larger than the previous name / non-zero on the first entry
            e0 = rentry(rng, hs, b"ab", 0)
            body = b"DIRC" + struct.pack(">II", 4, 2)
            fixed = enc_entry(e0, 2, hs, b"")[:40 + hs + 2 + (2 if (e0["skip"] or e0["ita"]) else 0)]
            first = rng.choice([0, 1])
            body += fixed + varint(first) + b"ab\0" + fixed + varint(rng.choice([0, 2, 3, 200])) + b"c\0"
            m = body + hfun(hs)(body).digest()
        elif k == "trail":
            m = data + bytes(rng.randrange(256) for _ in range(rng.randrange(1, 9)))
        elif k == "eoie":   # whole file below bufio's 4096-byte buffer (see Model/IndexFile.v read_extensions)
            m = build_index(dict(spec, entries=[e for e in es if len(e["name"]) < 200][:6], exts=[(b"EOIE", bytes(rng.randrange(256) for _ in range(rng.choice([0, 3, 4 + hs - 1, 4 + hs + 1, 4 + hs + 9]))))]), hs)
        elif k == "treebad":
            bad = rng.choice([b"\0x 1\n", b"\0" + b"1 x\n", b"\0" + b"99999999999999999999 1\n", b"\0" + b"3 0\n" + b"h" * (hs - 1), b"\0" + b"3 0\n", b"p\0" + b"+2 -0\n" + b"h" * hs,
                              b"nonul", b"\0 1 0\n", b"\0" + b"1 0", b"\0-1 0\n\0" + b"2 1\n" + b"k" * hs])
            m = build_index(dict(spec, exts=[(b"TREE", bad)]), hs)
        elif k == "reucbad":
            bad = rng.choice([b"p\0" + b"100644\0" + b"0\0" + b"8\0", b"p\0" + b"100644\0" + b"0\0" + b"0\0" + b"h" * (hs - 2), b"p\0" + b"1\0",
                              b"p\0" + b"-1\0" + b"+7\0" + b"0\0" + b"h" * hs + b"i" * hs, b"p\0" + b"\0" + b"0\0" + b"0\0", b"p\0" + b"0\0" + b"0\0" + b"0\0" + b"q\0",
                              b"p\0" + b"1\0" + b"1\0" + b"1\0" + b"h" * hs + b"i" * hs])
            m = build_index(dict(spec, exts=[(b"REUC", bad)]), hs)
        elif k == "nsec":
            e0 = dict(rentry(rng, hs, b"n", 0), cn=rng.choice([10**9, 2**32 - 1, 1999999999]), cs=rng.choice([0, 5, 2**32 - 1]))
            m = build_index({"version": 2, "entries": [e0]}, hs)
        else:
            e0 = rentry(rng, hs, b"v", 0)
            fixed = enc_entry(e0, 2, hs, b"")[:40 + hs + 2 + (2 if (e0["skip"] or e0["ita"]) else 0)]
            vi = rng.choice([b"\xff" * 9 + b"\x7f", b"\x80", b"\xff\xff", b"\x80\x00", b"\x81\x00"])
            body = b"DIRC" + struct.pack(">II", 4, 1) + fixed + vi + b"v\0"
            m = body + hfun(hs)(body).digest()
        cases.append(dec_case("synth-" + k, m, hs, skiphash=rng.random() < 0.2))
    return cases


def run(cmd, cwd, inp=None, ok=False):
    p = subprocess.run(cmd, cwd=cwd, env=GITENV, input=inp, stdout=subprocess.PIPE, stderr=subprocess.PIPE, timeout=120)
    if ok and p.returncode != 0:
        raise RuntimeError("%r failed: %s" % (cmd, p.stderr[:300]))
    return p


def git_cases(rng, nrepos):
    """index files written by git 2.39.5 itself along generated command sequences"""
    cases = []
    root = tempfile.mkdtemp(prefix="verif-C12-git-")
    try:
        for r in range(nrepos):
            hs = 32 if rng.random() < 0.15 else 20
            d = os.path.join(root, "r%d" % r)
            os.makedirs(d)
            run(["git", "init", "-q", "-b", "main", "--object-format=" + ("sha256" if hs == 32 else "sha1"), "."], d, ok=True)
            if rng.random() < 0.5:
                run(["git", "config", "index.recordEndOfIndexEntries", "true"], d)
            if rng.random() < 0.3:
                run(["git", "config", "index.recordOffsetTable", "true"], d)
            blobs = [run(["git", "hash-object", "-w", "--stdin"], d, inp=b"blob%d\n" % i, ok=True).stdout.strip().decode() for i in range(3)]
            names = []
            conflicted = []
            seen = set()
            idxf = os.path.join(d, ".git", "index")
            for step in range(rng.randrange(3, 10)):
                k = pick_weighted(rng, [(4, "info"), (3, "conflict"), (4 if conflicted else 0, "resolve"), (1, "forcerm"), (2, "skip"), (2, "ita"), (2, "real"),
                                        (2, "writetree"), (2, "version"), (1, "untracked")])
                if k == "info":
                    lines = b""
                    for _ in range(rng.randrange(1, 5)):
                        nm = rname(rng, not any(len(x) > 4000 for x in names))
                        if b"\n" in nm or b"\t" in nm or nm in names or any(x.startswith(nm + b"/") or nm.startswith(x + b"/") for x in names):
                            continue
                        names.append(nm)
                        lines += b"%s %s 0\t%s\n" % (rng.choice([b"100644", b"100755", b"120000"]), rng.choice(blobs).encode(), nm)
                    run(["git", "update-index", "--index-info"], d, inp=lines)
                elif k == "conflict":
                    nm = rname(rng, False)
                    if b"\n" in nm or b"\t" in nm or nm in names or any(x.startswith(nm + b"/") or nm.startswith(x + b"/") for x in names):
                        continue
                    names.append(nm)
                    conflicted.append(nm)
                    lines = b""
                    for s in sorted(rng.sample([1, 2, 3], rng.randrange(1, 4))):
                        lines += b"%s %s %d\t%s\n" % (rng.choice([b"100644", b"100755"]), rng.choice(blobs).encode(), s, nm)
                    run(["git", "update-index", "--index-info"], d, inp=lines)
                elif k == "resolve" and conflicted:
                    nm = conflicted.pop(rng.randrange(len(conflicted)))
                    run(["git", "update-index", "--add", "--cacheinfo", "100644,%s,%s" % (rng.choice(blobs), nm.decode("latin1"))], d)
                elif k == "forcerm" and names:
                    nm = names.pop(rng.randrange(len(names)))
                    if nm in conflicted:
                        conflicted.remove(nm)
                    run(["git", "update-index", "--force-remove", "--", nm], d)
                elif k == "skip" and names:
                    run(["git", "update-index", rng.choice(["--skip-worktree", "--skip-worktree", "--no-skip-worktree"]), "--", rng.choice(names)], d)
                elif k == "ita":
                    nm = b"ita%d" % step
                    open(os.path.join(d.encode(), nm), "wb").write(b"x" * step)
                    run(["git", "add", "-N", "--", nm], d)
                    names.append(nm)
                elif k == "real":
                    nm = b"real%d.txt" % step
                    open(os.path.join(d.encode(), nm), "wb").write(b"y" * (step * 7))
                    run(["git", "add", "--", nm], d)
                    names.append(nm)
                elif k == "writetree":
                    run(["git", "write-tree"], d)
                elif k == "version":
                    run(["git", "update-index", "--index-version", str(rng.choice([2, 3, 4]))], d)
                elif k == "untracked":
                    run(["git", "update-index", "--force-untracked-cache"], d)
                if os.path.exists(idxf):
                    data = open(idxf, "rb").read()
                    if data not in seen:
                        seen.add(data)
                        cases.append(dec_case("git-written", data, hs, valid=True, note="step %d %s" % (step, k)))
                        if rng.random() < 0.25:   # what git >= 2.40 writes with index.skipHash: a null trailer
                            cases.append(dec_case("git-skiphash", data[:-hs] + b"\0" * hs, hs, valid=True))
    finally:
        shutil.rmtree(root, ignore_errors=True)
    return cases


def coq_time(s, n, zero):
    return "TZero" if zero else "(TUnix %s %s)" % (coq_Z(s), coq_N(n))


def coq_entry(e):
    return '(c12_entry "%s" %s %s %s %s %s %s %s %s %s "%s" %s %s)' % (
        e["name"], coq_N(e["stage"]), coq_time(e["cs"], e["cn"], e["czero"]), coq_time(e["ms"], e["mn"], e["mzero"]),
        coq_N(e["dev"]), coq_N(e["ino"]), coq_N(e["mode"]), coq_N(e["uid"]), coq_N(e["gid"]), coq_N(e["size"]), e["hash"],
        coq_bool(e["skip"]), coq_bool(e["ita"]))


class Dec(Suite):
    name = "dec"
    go_cmd = "c12"
    coq_imports = "From GoGit Require Import Model.IndexFile."
    quick_n = 100
    thorough_n = 600
    coq_chunk = 25

    def gen(self, rng, n, tier):
        cases = git_cases(rng, max(4, n // 20))
        cases += synth_cases(rng, n // 3)
        return cases

    def model_expr(self, c):
        if len(c["data"]) > 24000:      # > 12 KB: coqc overflows its stack on such literals; direct oracle only
            return None
        return 'c12_dec %s %s %s "%s"' % (coq_N(c["hs"]), coq_bool(c["skiphash"]), coq_list(['"%s"' % s for s in c["sums"]]), c["data"])

    def nontrivial(self, c):
        return len(c["data"]) > 24

    def oracle(self, ctx, cases, impl, model):
        """go-git must decode what git accepts into what git reports (entries by ls-files --stage --debug,
        resolve-undo by ls-files --resolve-undo), the same on every run; TREE / EOIE are compared with the
        python transcription of the format (git has no plumbing that prints them)"""
        fails = {}
        gr = GitReader(ctx.tmp)
        stats = {"git_accepts": 0, "git_rejects": 0}
        for c in cases:
            r = impl.get(c["id"])
            if r is None:
                fails[c["id"]] = "no reply"
                continue
            if (r.get("extra") or {}).get("distinct", 1) != 1:
                fails[c["id"]] = "decoding the same bytes gave %d different results" % r["extra"]["distinct"]
                continue
            if not c.get("valid"):
                continue
            data = bytes.fromhex(c["data"])
            g = gr.read(data, c["hs"])
            if g is None:
                stats["git_rejects"] += 1
                ctx.notes.append("generator fault: git rejects a %s case (%s): %r" % (c["bucket"], c.get("note", ""), gr.err))
                continue
            stats["git_accepts"] += 1
            ges, gru = g
            if not r["out"].startswith("( ok"):
                fails[c["id"]] = "git reads this index (%d entries), go-git fails with %s" % (len(ges), r["out"])
                continue
            o = parse_out(r["out"])
            want = []
            for e in ges:
                e = dict(e)
                for s, n in (("cs", "cn"), ("ms", "mn")):
                    e[s], e[n] = e[s] + e[n] // 10**9, e[n] % 10**9
                want.append(e)
            if unparse(o[2]) != render_entries(want):
                fails[c["id"]] = "entries differ from git ls-files --stage --debug: go-git %s / git %s" % (unparse(o[2])[:400], render_entries(want)[:400])
                continue
            got_ru = {}
            if o[4] != "none":
                for ent in o[4][1]:
                    got_ru.setdefault(bytes.fromhex(ent[0][1:]), {}).update({int(s[0]): bytes.fromhex(s[1][1:]) for s in ent[1]})
            got_ru = {k: v for k, v in got_ru.items() if v}     # an entry whose three modes are 0 has nothing to print
            if got_ru != gru:
                fails[c["id"]] = "resolve-undo differs from git ls-files --resolve-undo: go-git %r / git %r" % (got_ru, gru)
        self.stats = stats
        return fails

    def finding_class(self, case, reason, reply):
        if "different results" in reason and "52455543" in case["data"]:
            return "reuc-map-order"
        return None

    def extra(self, ctx, cases, impl, model):
        b = {}
        for c in cases:
            cls = (impl.get(c["id"]) or {}).get("out", "")[:12]
            b[cls] = b.get(cls, 0) + 1
        return dict(getattr(self, "stats", {}), result_classes=b, spec_mismatches=getattr(self, "stats", {}).get("git_rejects", 0))


def enc_cases(rng, n):
    cases = []
    for _ in range(n):
        hs = 32 if rng.random() < 0.2 else 20
        ver = pick_weighted(rng, [(4, 2), (3, 3), (5, 4), (1, 0), (1, 1), (1, 5)])
        es = rentries(rng, hs, pick_weighted(rng, [(1, 0), (3, 1), (4, 3), (3, 6), (1, 14)]))
        bucket = "enc-valid"
        r = rng.random()
        for e in es:
            e["czero"] = (e["cs"], e["cn"]) == (0, 0) and rng.random() < 0.7
            e["mzero"] = (e["ms"], e["mn"]) == (0, 0) and rng.random() < 0.7
        if r < 0.08 and es:
            bucket = "enc-time"          # negative / beyond-uint32 / beyond-int64-nanoseconds timestamps
            e = rng.choice(es)
            e["cs"], e["cn"] = rng.choice([(-1, 0), (-5, 999999999), (2**32, 7), (2**32 + 5, 0), (9223372036, 854775807), (9223372036, 854775808),
                                           (9223372037, 0), (2**33, 1), (18446744073, 709551616 % 10**9), (18446744074, 0), (27670116110, 564327424 % 10**9)])
        elif r < 0.12 and es:
            bucket = "enc-stage"         # Stage outside 0..3 is masked
            rng.choice(es)["stage"] = rng.choice([4, 5, 7, 8])
        elif r < 0.15 and es:
            bucket = "enc-nul"           # NUL inside a name cannot round-trip in V4 / long names
            e = rng.choice(es)
            e["name"] = e["name"][:1] + b"\0" + e["name"][1:]
        rng.shuffle(es)
        cases.append({"bucket": bucket, "kind": "enc", "hs": hs, "version": ver, "skiphash": rng.random() < 0.15,
                      "entries": [dict(e, name=H(e["name"]), hash=H(e["hash"])) for e in es]})
    return cases


class Enc(Suite):
    name = "enc"
    go_cmd = "c12"
    coq_imports = "From GoGit Require Import Model.IndexFile."
    quick_n = 60
    thorough_n = 800
    coq_chunk = 40

    def gen(self, rng, n, tier):
        return enc_cases(rng, n)

    def model_expr(self, c):
        return 'c12_enc %s %s "%s" %s %s' % (coq_N(c["hs"]), coq_bool(c["skiphash"]), "5a" * c["hs"], coq_N(c["version"]),
                                             coq_list([coq_entry(e) for e in c["entries"]]))

    def nontrivial(self, c):
        return len(c["entries"]) > 0

    def expected(self, c):
        es = []
        for e in c["entries"]:
            e = dict(e, name=bytes.fromhex(e["name"]), hash=bytes.fromhex(e["hash"]))
            es.append(e)
        return sorted(es, key=key)

    def oracle(self, ctx, cases, impl, model):
        """on go-git's own output: (1) decoding gives back the sorted entries, (2) the trailer is the checksum of the
        body, (3) git reads the file and reports the same entries"""
        fails = {}
        gr = GitReader(ctx.tmp)
        ngit = 0
        for c in cases:
            r = impl.get(c["id"])
            if r is None:
                fails[c["id"]] = "no reply"
                continue
            if c["bucket"] != "enc-valid" or c["version"] not in (2, 3, 4):
                continue                          # outside the index format's domain: only the model tie applies
            if not r["out"].startswith("( ok"):
                fails[c["id"]] = "encoding a well-formed index failed: " + r["out"]
                continue
            o = parse_out(r["out"])
            want = self.expected(c)
            if o[2] != "true":
                fails[c["id"]] = "trailer is not the checksum of the content"
                continue
            back = o[3]
            if back[0] != "ok" or unparse(back[2]) != render_entries(want) or back[1] != str(c["version"]) or back[3:] != ["none", "none", "none"]:
                fails[c["id"]] = "decode(encode(i)) differs from sort(i): %s / %s" % (unparse(back)[:400], render_entries(want)[:400])
                continue
            f = (r.get("extra") or {}).get("file")
            g = gr.read(bytes.fromhex(f[1:]), c["hs"])
            ngit += 1
            if g is None:
                fails[c["id"]] = "git cannot read the index go-git wrote (version %d, %d entries): %r" % (c["version"], len(want), gr.err)
                continue
            if render_entries(g[0]) != render_entries(want):
                fails[c["id"]] = "git reads other entries than were encoded: git %s / encoded %s" % (render_entries(g[0])[:400], render_entries(want)[:400])
        self.ngit = ngit
        return fails

    def extra(self, ctx, cases, impl, model):
        return {"git_read_back": getattr(self, "ngit", 0)}


SUITES = [Dec(), Enc()]
