"""C12 Index files interoperate with git in both directions (DESIGN.md §4.C12)."""
import hashlib
import os
import re
import shutil
import struct
import subprocess
import tempfile
import zlib
from concurrent.futures import ThreadPoolExecutor
from vf import core
from vf.core import Suite, coq_list, coq_bool, coq_N, coq_Z
from vf.gen import pick_weighted

ID = "C12"
THEOREMS = ["C12_roundtrip", "C12_entry_roundtrip", "C12_entry_size_git", "C12_varint", "C12_reuc_stage_order", "C12_reuc_maporder_refuted",
            "C12_git_reads_ours", "C12_git_fsck_reads_ours", "C12_we_read_git", "C12_we_read_git_sparse_refused",
            "C12_we_read_git_tree", "C12_we_read_git_reuc", "C12_git_eoie_accepts_own", "C12_git_varint_agree"]
MODEL_FILES = ["IndexFile.v"]
MODELLED = ("plumbing/format/index: Encoder.Encode (sort, entry layout, V2/3 padding, V4 prefix compression, footer / skip-hash) and "
            "Decoder.Decode (header, readEntry, padEntry incl. long names, V4 strip-length checks, extension loop, TREE / REUC / EOIE "
            "decoders, optional vs mandatory unknown extensions, checksum rules); utils/binary Read/WriteVariableWidthInt "
            "(Model/IndexFile.v).  S = Spec/GitIndex.v: git 2.39 read-cache.c / cache-tree.c / resolve-undo.c / varint.c as git_decode "
            "(normal, fsck and index.threads>1 modes: verify_hdr, create_from_disk, ondisk_ce_size, extended flags, V4 names, "
            "load_index_extensions with TREE / REUC / EOIE / IEOT / link / UNTR / FSMN / sdir / unknown optional / unknown mandatory, "
            "read_eoie_extension, check_ce_order) and git_encode (do_write_index: version promotion, ce_write_entry, write_one, "
            "resolve_undo_write, EOIE contents, trailer); not modelled: bufio buffering, EOIE extensions longer than offset+hash in "
            "files beyond bufio's 4096-byte buffer, sort instability on duplicate keys; in S: split / sparse index contents, the "
            "threaded IEOT loader, UNTR / FSMN contents (opaque)")
TRUSTED = [
    "C-impl: harness/cmd/c12 (index.NewDecoder/NewEncoder with the repository's hash.New) vs Model/IndexFile on every case; the checksum "
    "function of the model is instantiated per case with the SHA-1/SHA-256 of the prefixes the decoder can hash (computed by python hashlib)",
    "C-git: Spec/GitIndex.v (git_decode / git_encode / g_read_eoie, hash function = table of the python hashlib hashes of the strings git "
    "hashes on that input) vs git 2.39.5 on every decode case and on every file go-git writes: `ls-files -z --stage --debug` (entries, "
    "ce_flags), `--resolve-undo` (modes, names), `write-tree [--prefix]` (cache tree: nesting, names, object names; for git-written "
    "files entry_count / subtree_nr / object names against `ls-tree -r -t` of the same index), `fsck` (checksum, check_ce_order), "
    "`-c index.threads=2 ls-files` (EOIE validity and offset), and git_encode (git_decode b) = b byte for byte on the files git writes",
]
ASSUMPTIONS = ["the checksum H is a function of the bytes (section variable of Model/IndexFile.v and Spec/GitIndex.v) and returns hash.Size() "
               "= 20 or 32 bytes (hypothesis of the theorems that need it)",
               "S describes git with index.threads unset or 1 (the default) unless the threaded mode is named; UNTR and FSMN are opaque",
               "index.skipHash: git 2.39.5 neither writes a null trailer nor accepts one under fsck (validated); the null_ok mode of S is "
               "git >= 2.40's rule and is not exercised by the binary"]
RULE = ("dec: index files written by git over generated command sequences (update-index --index-info/--cacheinfo/--force-remove/"
        "--skip-worktree/--assume-unchanged/--index-version/--force-untracked-cache/--split-index, add, add -N, write-tree, EOIE/IEOT "
        "config with index.threads, fsmonitor, sha1+sha256), the same with a null trailer, files built by a python transcription of the "
        "format (V2/3/4, long names 4093..5000, stages, extended flags, assume-valid, nested cache trees over existing objects, REUC, EOIE "
        "valid / pointing into another extension / invalid, optional extensions, unordered and duplicate entries, files up to 60 KB) and 16 "
        "malformed variants; enc: in-memory indexes (versions 0..5, shuffled entries, shared prefixes, long names, boundary integers, "
        "zero/negative/overflowing times, stages > 3, NUL in names); non-trivial = at least one entry / > 24 bytes")

S_IMPORTS = "From GoGit Require Import Model.IndexFile Spec.GitIndex."
SHORT = 20000       # observables whose text is longer are compared by length and digest (Model/IndexFile.c12_short)

H = lambda b: b.hex()
GITENV = dict(os.environ, GIT_CONFIG_GLOBAL="/dev/null", GIT_CONFIG_SYSTEM="/dev/null", GIT_AUTHOR_NAME="v", GIT_AUTHOR_EMAIL="v@v",
              GIT_COMMITTER_NAME="v", GIT_COMMITTER_EMAIL="v@v", GIT_AUTHOR_DATE="1700000000 +0000",
              GIT_COMMITTER_DATE="1700000000 +0000", LC_ALL="C")


def hfun(hs):
    return hashlib.sha1 if hs == 20 else hashlib.sha256


def chunks(data):
    """bytes as a Coq list of hex string literals (Model/IndexFile.unhex_chunks)"""
    h = data.hex()
    return "(" + coq_list(['"%s"' % h[k:k + 2000] for k in range(0, len(h), 2000)]) + "%string)"


def short(text):
    """python side of Model/IndexFile.c12_short"""
    if len(text) <= SHORT:
        return text
    h = 0
    for ch in text.encode("latin1"):
        h = (h * 1000003 + ch + 1) % 4294967291
    return "( long %d %d )" % (len(text), h)


def be32(b, off):
    return struct.unpack(">I", b[off:off + 4])[0] if off + 4 <= len(b) else 0


# ------------------------------------------------------------------ S in python: git's index layout (read-cache.c)

def varint(n):
    out = [n & 0x7f]
    n >>= 7
    while n:
        n -= 1
        out.insert(0, 0x80 | (n & 0x7f))
        n >>= 7
    return bytes(out)


def key(e):
    return (e["name"], e["stage"])


def enc_entry(e, ver, hs, last):
    name = e["name"]
    ext = e.get("skip") or e.get("ita")
    flags = ((e["stage"] & 3) << 12) | min(len(name), 0xfff) | (0x4000 if ext else 0) | (0x8000 if e.get("valid") else 0)
    b = struct.pack(">10I", e["cs"] & 0xffffffff, e["cn"], e["ms"] & 0xffffffff, e["mn"], e["dev"], e["ino"], e["mode"], e["uid"], e["gid"], e["size"])
    b += e["hash"] + struct.pack(">H", flags)
    if ext:
        b += struct.pack(">H", (0x2000 if e.get("ita") else 0) | (0x4000 if e.get("skip") else 0))
    if ver == 4:
        p = 0
        while p < min(len(last), len(name)) and last[p] == name[p]:
            p += 1
        return b + varint(len(last) - p) + name[p:] + b"\0"
    n = len(b) + len(name)
    return b + name + b"\0" * (8 - n % 8)


def enc_tree_ext(entries, hs):
    out = b""
    for t in entries:
        out += t["path"] + b"\0" + str(t["entries"]).encode() + b" " + str(t["trees"]).encode() + b"\n"
        if t["entries"] >= 0:
            out += t["hash"]
    return out


def enc_reuc_ext(entries, hs):
    out = b""
    for r in entries:
        out += r["path"] + b"\0"
        for s in (1, 2, 3):
            out += (b"%o" % r["modes"].get(s, 0)) + b"\0"
        for s in (1, 2, 3):
            if r["modes"].get(s, 0):
                out += r["hashes"][s]
    return out


def build_index(spec, hs):
    """spec: version, entries (sorted by the caller or not), exts = list of (sig, bytes); trailer = 'ok'|'zero'|'bad';
    eoie = None | 'valid' (git's own contents, appended last) """
    ver = spec["version"]
    es = spec["entries"]
    b = b"DIRC" + struct.pack(">II", ver, spec.get("count", len(es)))
    last = b""
    for e in es:
        b += enc_entry(e, ver, hs, last)
        last = e["name"]
    off = len(b)
    hdrs = b""
    for sig, data in spec.get("exts", []):
        hdrs += sig + struct.pack(">I", len(data))
        b += sig + struct.pack(">I", len(data)) + data
    if spec.get("eoie") == "valid":
        d = struct.pack(">I", off) + hfun(hs)(hdrs).digest()
        b += b"EOIE" + struct.pack(">I", len(d)) + d
    tr = spec.get("trailer", "ok")
    if tr == "ok":
        b += hfun(hs)(b).digest()
    elif tr == "zero":
        b += b"\0" * hs
    else:
        b += bytes((x ^ 0x5a) for x in hfun(hs)(b).digest())
    return b


# ------------------------------------------------------------------ canonical observable text (mirrors harness/cmd/c12)

def digest(b):
    h = 0
    for c in b:
        h = (h * 1000003 + c + 1) % 4294967291
    return h


def obytes(b):
    if len(b) <= 64:
        return "x" + H(b)
    return "( long %d %d )" % (len(b), digest(b))


def render_entry(e):
    return "( %s %d %d %d %d %d %d %d %d %d %d %d x%s %s %s )" % (
        obytes(e["name"]), e["stage"], e["cs"], e["cn"], e["ms"], e["mn"], e["dev"], e["ino"], e["mode"], e["uid"], e["gid"], e["size"],
        H(e["hash"]), "true" if e.get("skip") else "false", "true" if e.get("ita") else "false")


def render_entries(es):
    return "( " + "".join(render_entry(e) + " " for e in es) + ")"


def render_gentry(e):
    """Spec/GitIndex.gentry_out of what git ls-files --stage --debug prints"""
    return "( %s %d %d %d %d %d %d %d %d %d %d %d x%s %d )" % (
        obytes(e["name"]), e["stage"], e["cs"], e["cn"], e["ms"], e["mn"], e["dev"], e["ino"], e["mode"], e["uid"], e["gid"], e["size"],
        H(e["hash"]), e["flags"])


def render_gentries(es):
    return "( " + "".join(render_gentry(e) + " " for e in es) + ")"


TOK = re.compile(r"\(|\)|[^\s()]+")


def parse_out(s):
    toks = TOK.findall(s)
    pos = [0]

    def rd():
        t = toks[pos[0]]
        pos[0] += 1
        if t == "(":
            l = []
            while toks[pos[0]] != ")":
                l.append(rd())
            pos[0] += 1
            return l
        return t
    return rd()


def unparse(x):
    if isinstance(x, list):
        return "( " + "".join(unparse(y) + " " for y in x) + ")"
    return x


# ------------------------------------------------------------------ the hash function of S as a table

def eoie_walks(data, hs):
    """the ext-header strings read_eoie_extension / write_eoie_extension hash: for an EOIE of git's on-disk size (4 + hash)
    and of the size the reader insists on (24), walk from the recorded offset"""
    out = []
    n = len(data)
    for esz in {4 + hs, 24}:
        epos = n - hs - 8 - esz
        if epos < 12 or data[epos:epos + 4] != b"EOIE":
            continue
        src = be32(data, epos + 8)
        hdr = b""
        steps = 0
        while 12 <= src < epos and src + 8 <= n and steps < 64:
            hdr += data[src:src + 8]
            src += 8 + be32(data, src + 4)
            steps += 1
        out.append(hdr)
    return out


def hash_table(data, hs):
    items, seen = [], set()
    for x in [data[:-hs] if len(data) >= hs else b""] + eoie_walks(data, hs):
        if x not in seen:
            seen.add(x)
            items.append('(%s, %s, "%s"%%string)' % (coq_N(len(x)), coq_N(digest(x)), hfun(hs)(x).hexdigest()))
    return coq_list(items)


def has_eoie(data, hs):
    epos = len(data) - hs - 8 - (4 + hs)
    return epos >= 12 and data[epos:epos + 4] == b"EOIE" and be32(data, epos + 4) == 4 + hs


UNDEF = ("oob", "unspec", "fuel")


def s_err(x):
    """error symbol of an S result, or None"""
    return x[1] if isinstance(x, list) and len(x) == 2 and x[0] == "err" else None


# ------------------------------------------------------------------ git as the reference reader

NPOOL = 6


def pool_objects(hs):
    """blobs that exist in the reader repositories: (oid, loose file content)"""
    out = []
    for i in range(NPOOL):
        raw = b"blob 6\0pool%d\n" % i
        out.append((hfun(hs)(raw).digest(), zlib.compress(raw)))
    return out


def pool_oids(hs):
    return [o for o, _ in pool_objects(hs)]


class GitReader:
    """scratch repositories (sha1 / sha256) in which git reads an index file given by GIT_INDEX_FILE"""

    def __init__(self, tmp):
        self.dirs = {}
        for hs, fmt in ((20, "sha1"), (32, "sha256")):
            d = os.path.join(tmp, "reader-" + fmt)
            if not os.path.isdir(os.path.join(d, ".git")):
                os.makedirs(d, exist_ok=True)
                subprocess.run(["git", "init", "-q", "--object-format=" + fmt, d], env=GITENV, check=True,
                               stdout=subprocess.DEVNULL, stderr=subprocess.DEVNULL)
                for oid, z in pool_objects(hs):
                    od = os.path.join(d, ".git", "objects", H(oid)[:2])
                    os.makedirs(od, exist_ok=True)
                    open(os.path.join(od, H(oid)[2:]), "wb").write(z)
            self.dirs[hs] = d
        self.n = 0
        self.err = b""

    REC = re.compile(rb"(\d+) ([0-9a-f]+) (\d)\t(.*?)\0  ctime: (\d+):(\d+)\n  mtime: (\d+):(\d+)\n  dev: (\d+)\tino: (\d+)\n"
                     rb"  uid: (\d+)\tgid: (\d+)\n  size: (\d+)\tflags: ([0-9a-f]+)\n", re.S)

    def put(self, data, hs):
        self.n += 1
        f = os.path.join(self.dirs[hs], "idx%d" % self.n)
        open(f, "wb").write(data)
        return f

    def git(self, hs, f, args):
        return subprocess.run(["git"] + args, cwd=self.dirs[hs], env=dict(GITENV, GIT_INDEX_FILE=f), stdout=subprocess.PIPE, stderr=subprocess.PIPE, timeout=120)

    def read(self, data, hs, threads=None):
        """-> (entries, resolve_undo) as git reports them, or None when git rejects the file"""
        f = self.put(data, hs)
        pre = ["-c", "index.threads=%d" % threads] if threads else []
        try:
            p = self.git(hs, f, pre + ["ls-files", "-z", "--stage", "--debug"])
            self.err = p.stderr[:300]
            if p.returncode != 0:
                return None
            es, pos = [], 0
            out = p.stdout
            while pos < len(out):
                m = self.REC.match(out, pos)
                if not m:
                    return None
                g = m.groups()
                fl = int(g[13], 16)
                es.append({"name": g[3], "stage": int(g[2]), "mode": int(g[0], 8), "hash": bytes.fromhex(g[1].decode()),
                           "cs": int(g[4]), "cn": int(g[5]), "ms": int(g[6]), "mn": int(g[7]), "dev": int(g[8]), "ino": int(g[9]),
                           "uid": int(g[10]), "gid": int(g[11]), "size": int(g[12]), "flags": fl,
                           "skip": bool(fl & 0x40000000), "ita": bool(fl & 0x20000000)})
                pos = m.end()
            ru = {}
            if b"REUC" not in data:
                return es, ru
            p = self.git(hs, f, pre + ["ls-files", "-z", "--resolve-undo"])
            if p.returncode != 0:
                return None
            for rec in p.stdout.split(b"\0")[:-1]:
                m = re.match(rb"(\d+) ([0-9a-f]+) (\d)\t(.*)$", rec, re.S)
                ru.setdefault(m.group(4), {})[int(m.group(3))] = (int(m.group(1), 8), bytes.fromhex(m.group(2).decode()))
            return es, ru
        finally:
            os.remove(f)

    def fsck(self, data, hs):
        """how `git fsck` (verify_index_checksum, verify_ce_order) finds the index: ok | bad_checksum | unordered | multiple_stage | other"""
        f = self.put(data, hs)
        try:
            p = self.git(hs, f, ["fsck", "--no-dangling", "--no-progress"])
            e = p.stderr
            if b"bad index file sha1 signature" in e:
                return "bad_checksum"
            if b"multiple stage entries for merged file" in e:
                return "multiple_stage"
            if b"unordered stage entries" in e:
                return "unordered"
            if b"index file corrupt" in e or b"bad signature" in e or b"bad index version" in e or p.returncode < 0:
                return "other"
            return "ok"
        finally:
            os.remove(f)

    def write_tree(self, data, hs, prefix):
        """object name git's cache tree holds for a directory (None: not found / error)"""
        f = self.put(data, hs)
        try:
            p = self.git(hs, f, ["write-tree"] + ([b"--prefix=" + prefix + b"/"] if prefix else []))
            if p.returncode != 0:
                self.err = p.stderr[:200]
                return None
            return p.stdout.strip().decode()
        finally:
            os.remove(f)


def ru_of_s(r):
    """resolve-undo of an S result (list of ( path ( m o ) ( m o ) ( m o ) )) -> {obytes path: {stage: (mode, oid)}}"""
    out = {}
    if r == "none":
        return out
    for ent in r[1]:
        st = {}
        for i in (1, 2, 3):
            if ent[i][0] != "0":
                st[i] = (int(ent[i][0]), bytes.fromhex(ent[i][1][1:]))
        if st:
            out[unparse(ent[0])] = st
    return out


def tree_nodes(s0):
    """the cache tree of an S result as a list of [path, name, count, subtrees, oid], or None (absent, unparsable, too long)"""
    t = s0[3]
    if t == "none" or (t[1] and t[1][0] == "long"):
        return None
    return t[1]


def compare_s_git(s, g):
    """S result (parsed `( ok ver entries tree reuc untr fsmn sparse )` or `( err e )`) against GitReader.read's answer.
    -> None (agree) | 'undef' | reason"""
    e = s_err(s)
    if e in UNDEF:
        return "undef"
    if g is None:
        return None if e is not None else "git rejects the file, S reads it"
    if e is not None:
        return "git reads the file, S answers %s" % e
    if s[7] == "true":
        return "undef"                      # sparse index: ls-files expands the directories
    ges, gru = g
    if unparse(s[2]) != short(render_gentries(ges)):
        return "entries: S %s / git %s" % (unparse(s[2])[:300], render_gentries(ges)[:300])
    if ru_of_s(s[4]) != {obytes(k): v for k, v in gru.items()}:
        return "resolve-undo: S %r / git %r" % (ru_of_s(s[4]), gru)
    return None


# ------------------------------------------------------------------ generators

ALPH = b"abXY.-_ 0"
MODES = [0o100644, 0o100755, 0o120000, 0o160000]


def rname(rng, long_ok=True):
    r = rng.random()
    if long_ok and r < 0.08:
        n = rng.choice([4093, 4094, 4095, 4096, 4097, 5000])
        # few directory levels: every level costs a cached-tree entry once git runs write-tree
        body = bytearray(rng.choice(b"ab") for _ in range(n))
        for k in range(rng.randrange(0, 4)):
            body[rng.randrange(1, n - 1)] = 0x2f
        return (b"L" + bytes(body))[:n].replace(b"//", b"/a").rstrip(b"/").ljust(n, b"z")
    depth = rng.randrange(1, 4)
    comps = []
    for _ in range(depth):
        comps.append(bytes(rng.choice(ALPH) for _ in range(rng.randrange(1, 7))))
    if r > 0.9:
        comps[-1] += bytes([rng.choice([0x80, 0xc3, 0xff, 0x22, 0x5c, 0x0a, 0x09])]) + b"q"
    return b"/".join(comps)


def rhash(rng, hs):
    return bytes(rng.randrange(256) for _ in range(hs))


def rentry(rng, hs, name=None, stage=0):
    big = rng.random() < 0.15
    u = lambda: rng.choice([0, 1, 255, 256, 65535, 65536, 2**31 - 1, 2**31, 2**32 - 1]) if big else rng.randrange(0, 100000)
    t = lambda: rng.choice([(0, 0), (1, 0), (0, 1), (2**31 - 1, 999999999), (2**31, 5), (2**32 - 1, 999999999), (1700000000, 123456789)])
    cs, cn = t()
    ms, mn = t()
    return {"name": name if name is not None else rname(rng), "stage": stage, "cs": cs, "cn": cn, "ms": ms, "mn": mn,
            "dev": u(), "ino": u(), "mode": rng.choice(MODES) if rng.random() < 0.9 else u(), "uid": u(), "gid": u(), "size": u(),
            "hash": rhash(rng, hs), "skip": rng.random() < 0.15, "ita": rng.random() < 0.1}


def rentries(rng, hs, n, maxlong=1):
    """git-valid entry set: unique names; a name is either merged (stage 0) or has a non-empty subset of stages 1..3"""
    es = {}
    shared = rname(rng, False)
    nlong = 0
    for _ in range(n):
        r = rng.random()
        name = rname(rng, nlong < maxlong)
        nlong += len(name) > 4000       # few long names per index: keeps the Coq case files small
        if r < 0.3:                       # names sharing long prefixes (V4 compression) and sibling prefixes
            name = shared + rng.choice([b"", b"/", b"a", b"/a", b"b/c", b".x"]) + bytes([rng.choice(ALPH)])
        if any(k[0] == name for k in es):
            continue
        if rng.random() < 0.2:
            for s in rng.sample([1, 2, 3], rng.randrange(1, 4)):
                es[(name, s)] = rentry(rng, hs, name, s)
        else:
            es[(name, 0)] = rentry(rng, hs, name, 0)
    return [es[k] for k in sorted(es)]


def rcomp(rng):
    return bytes(rng.choice(ALPH) for _ in range(rng.randrange(1, 5))) + rng.choice([b"", b"", b"\x80", b"\n"])


def subtree_key(n):
    return (len(n), n)


def rctree(rng, hs, depth=0, valid_only=False):
    """a cache tree as git writes it (write_one): nested, children sorted by subtree_name_cmp, object names of existing objects"""
    kids = {}
    if depth < 3:
        for _ in range(pick_weighted(rng, [(4, 0), (3, 1), (2, 2), (1, 4)]) if depth else rng.randrange(0, 4)):
            kids[rcomp(rng)] = rctree(rng, hs, depth + 1, valid_only)
    cnt = rng.choice([0, 1, 2, 7, 300, 2**31 - 1]) if valid_only or rng.random() < 0.8 else rng.choice([-1, -1, -5])
    return {"entries": cnt, "hash": rng.choice(pool_oids(hs)), "kids": [(n, kids[n]) for n in sorted(kids, key=subtree_key)]}


def enc_ctree(t, name=b""):
    out = name + b"\0" + str(t["entries"]).encode() + b" " + str(len(t["kids"])).encode() + b"\n"
    if t["entries"] >= 0:
        out += t["hash"]
    for n, k in t["kids"]:
        out += enc_ctree(k, n)
    return out


def rexts(rng, hs):
    exts = []
    for _ in range(pick_weighted(rng, [(3, 0), (3, 1), (2, 2), (1, 3)])):
        k = pick_weighted(rng, [(2, "TREE"), (3, "CTREE"), (3, "REUC"), (2, "EOIE"), (2, "opt"), (1, "empty")])
        if k == "TREE":       # flat lists: go-git reads them, git's recursive reader mostly gives up (cache tree dropped)
            ts = []
            for i in range(rng.randrange(0, 4)):
                cnt = rng.choice([-1, 0, 1, 5, 12345])
                ts.append({"path": b"" if i == 0 else rname(rng, False).split(b"/")[0], "entries": cnt, "trees": rng.randrange(0, 3), "hash": rhash(rng, hs)})
            exts.append((b"TREE", enc_tree_ext(ts, hs)))
        elif k == "CTREE":
            exts.append((b"TREE", enc_ctree(rctree(rng, hs, 0, rng.random() < 0.7))))
        elif k == "REUC":
            rs = {}
            for _ in range(rng.randrange(0, 3)):
                modes = {s: rng.choice([0, 0o100644, 0o100644, 0o100755, 0o120000]) for s in (1, 2, 3)}
                p = rname(rng, False)
                rs[p] = {"path": p, "modes": modes, "hashes": {s: rhash(rng, hs) for s in (1, 2, 3)}}
            order = sorted(rs) if rng.random() < 0.8 else list(rs)
            exts.append((b"REUC", enc_reuc_ext([rs[p] for p in order], hs)))
        elif k == "EOIE":
            exts.append((b"EOIE", struct.pack(">I", rng.randrange(0, 2**32)) + rhash(rng, hs)))
        elif k == "opt":
            exts.append((rng.choice([b"UNTR", b"FSMN", b"IEOT", b"ZZZZ", b"Aaaa"]), bytes(rng.randrange(256) for _ in range(rng.randrange(0, 40)))))
        else:
            exts.append((rng.choice([b"TREE", b"REUC", b"UNTR"]), b""))
    return exts


def sums_for(data, hs):
    return [hfun(hs)(data[:max(0, len(data) - hs - k)]).hexdigest() if len(data) - hs - k >= 0 else "" for k in range(8)]


def dec_case(bucket, data, hs, skiphash=False, valid=False, note="", **kw):
    c = {"bucket": bucket, "kind": "dec", "data": H(data), "hs": hs, "skiphash": skiphash, "repeat": 3,
         "sums": sums_for(data, hs), "valid": valid, "note": note}
    c.update(kw)
    return c


def eoie_cases(rng, n):
    """EOIE as read_eoie_extension sees it (SHA-1; the reader only accepts the 24-byte form): git's own contents, an offset that
    points at an extension nested in the data of an optional one (git -c index.threads=2 then loads the extensions from there),
    and invalid ones (hash, size, offset before the header / at the EOIE / not on an extension boundary)"""
    cases = []
    hs = 20
    for _ in range(n):
        ver = rng.choice([2, 3, 4])
        es = [e for e in rentries(rng, hs, rng.randrange(1, 5)) if len(e["name"]) < 300]
        body = build_index({"version": ver, "entries": es, "trailer": "ok"}, hs)[:-hs]
        eoff = len(body)
        p = rname(rng, False)
        ru = enc_reuc_ext([{"path": p, "modes": {1: 0o100644, 2: 0, 3: rng.choice([0, 0o100755])}, "hashes": {1: rhash(rng, hs), 3: rhash(rng, hs)}}], hs)
        inner = b"REUC" + struct.pack(">I", len(ru)) + ru
        outer = rng.choice([b"ZZZZ", b"UNTR", b"Abcd"])
        k = pick_weighted(rng, [(3, "own"), (3, "inner"), (1, "badhash"), (1, "badsize"), (1, "off-low"), (1, "off-eoie"), (1, "off-mid"), (1, "noext")])
        exts = b"" if k == "noext" else outer + struct.pack(">I", len(inner)) + inner
        ohdr = exts[:8]
        off, hdrs, sz = eoff, ohdr, 24
        if k == "inner":
            off, hdrs = eoff + 8, inner[:8]
        elif k == "off-low":
            off = rng.choice([0, 8, 11])
        elif k == "off-eoie":
            off = eoff + len(exts) + rng.choice([0, 4])
        elif k == "off-mid":
            off = eoff + rng.choice([1, 4, 9])
        hh = hfun(hs)(hdrs).digest()
        if k == "badhash":
            hh = bytes([hh[0] ^ 1]) + hh[1:]
        if k == "badsize":
            sz = rng.choice([20, 28, 36])
        eo = (struct.pack(">I", off) + hh + b"\0" * 16)[:sz]
        b = body + exts + b"EOIE" + struct.pack(">I", sz) + eo
        b += hfun(hs)(b).digest()
        # the file is valid for git in every variant (an EOIE it does not like is ignored); go-git insists on 4 + hash bytes
        cases.append(dec_case("synth-eoie-" + k, b, hs, valid=(sz >= 24), threads=True))
    # an EOIE offset beyond 16 bits: a file of > 64 KB (too long for the Coq side: direct oracle only).  The offset points at a
    # REUC nested in an optional extension, so `git -c index.threads=2` shows whether git accepts offset and hash
    es = []
    for i in range(15):
        nm = b"H%02d/" % i + bytes(rng.choice(b"abc") for _ in range(4400 + rng.randrange(0, 200)))
        es.append(rentry(rng, hs, nm, 0))
    body = build_index({"version": 2, "entries": es, "trailer": "ok"}, hs)[:-hs]
    p = b"huge/" + rname(rng, False)
    ru = enc_reuc_ext([{"path": p, "modes": {1: 0o100644, 2: 0, 3: 0o100755}, "hashes": {1: rhash(rng, hs), 3: rhash(rng, hs)}}], hs)
    inner = b"REUC" + struct.pack(">I", len(ru)) + ru
    hh = hfun(hs)(inner[:8]).digest()
    b = body + b"ZZZZ" + struct.pack(">I", len(inner)) + inner + b"EOIE" + struct.pack(">I", 24) + struct.pack(">I", len(body) + 8) + hh
    b += hfun(hs)(b).digest()
    cases.append(dec_case("synth-eoie-huge", b, hs, valid=True, nomodel=True, eoie_expect=[len(body) + 8, H(hh), H(p)]))
    return cases


def synth_cases(rng, n, big=0):
    """index files built by the python transcription of git's layout: valid ones (git must read them) and malformed ones"""
    cases = []
    for i in range(n):
        hs = 32 if rng.random() < 0.2 else 20
        ver = rng.choice([2, 3, 4])
        if i < big:       # beyond bufio's 4096-byte buffer and beyond the 12 KB of one hex literal: several long names, many entries
            # (the first one has more than 255 entries and more than 4096 bytes before its extensions)
            es = rentries(rng, hs, 300 if i == 0 else rng.choice([20, 60, 150]), maxlong=1 if i == 0 else rng.choice([2, 4, 8]))
        else:
            es = rentries(rng, hs, pick_weighted(rng, [(1, 0), (3, 1), (4, 3), (3, 6), (1, 12)]))
        for e in es:
            e["valid"] = rng.random() < 0.1
        spec = {"version": ver, "entries": es, "exts": rexts(rng, hs), "trailer": pick_weighted(rng, [(6, "ok"), (2, "zero")])}
        if rng.random() < 0.3:
            spec["exts"] = [x for x in spec["exts"] if x[0] != b"EOIE"]
            spec["eoie"] = "valid"
        gitlike = rng.random() < 0.4
        if gitlike:       # exactly what do_write_index would write: version by the extended flags, extensions in git's order
            ext = any(e["skip"] or e["ita"] for e in es)
            spec["version"] = ver = (3 if ext else 2) if ver in (2, 3) else ver
            exts = []
            if rng.random() < 0.6:
                exts.append((b"TREE", enc_ctree(rctree(rng, hs, 0, rng.random() < 0.5))))
            if rng.random() < 0.5:
                rs = {}
                for _ in range(rng.randrange(1, 4)):
                    modes = {s: rng.choice([0, 0o100644, 0o100755, 0o120000]) for s in (1, 2, 3)}
                    modes[rng.choice([1, 2, 3])] = 0o100644
                    p = rname(rng, False)
                    rs[p] = {"path": p, "modes": modes, "hashes": {s: rhash(rng, hs) for s in (1, 2, 3)}}
                exts.append((b"REUC", enc_reuc_ext([rs[p] for p in sorted(rs)], hs)))
            for sig in (b"UNTR", b"FSMN"):
                if rng.random() < 0.25:
                    exts.append((sig, bytes(rng.randrange(256) for _ in range(rng.randrange(0, 40)))))
            spec.update(exts=exts, eoie="valid" if rng.random() < 0.5 else None, trailer="ok")
        data = build_index(spec, hs)
        cases.append(dec_case("synth-big" if i < big else "synth-git" if gitlike else "synth-valid", data, hs,
                              skiphash=rng.random() < 0.2, valid=True, reencode=gitlike))
        # malformed / boundary variants of the same file
        k = pick_weighted(rng, [(3, "trunc"), (2, "flip"), (1, "badsum"), (1, "sig"), (1, "ver"), (1, "count"), (1, "mand"), (1, "strip"),
                                (1, "trail"), (1, "eoie"), (1, "treebad"), (1, "reucbad"), (1, "nsec"), (1, "varint"), (2, "order"), (1, "xflags")])
        valid = False
        if k == "trunc":
            cut = rng.randrange(0, len(data))
            if rng.random() < 0.5:
                cut = max(0, len(data) - rng.randrange(1, hs + 12))
            m = data[:cut]
        elif k == "flip":
            i = rng.randrange(len(data))
            m = data[:i] + bytes([data[i] ^ (1 << rng.randrange(8))]) + data[i + 1:]
        elif k == "badsum":
            m = build_index(dict(spec, trailer="bad"), hs)
        elif k == "sig":
            m = rng.choice([b"DIRc", b"dirc", b"\0\0\0\0"]) + data[4:]
        elif k == "ver":
            m = data[:4] + struct.pack(">I", rng.choice([0, 1, 5, 2**32 - 1])) + data[8:]
        elif k == "count":
            m = data[:8] + struct.pack(">I", rng.choice([len(es) + 1, 2**32 - 1, max(0, len(es) - 1)])) + data[12:]
        elif k == "mand":
            m = build_index(dict(spec, exts=spec["exts"] + [(rng.choice([b"link", b"sdir", b"zzzz", b"[abc"]), rng.choice([b"xy", b"", b"q" * 40]))]), hs)
        elif k == "strip":
            # V4 file with a strip length larger than the previous name / non-zero on the first entry
            e0 = rentry(rng, hs, b"ab", 0)
            body = b"DIRC" + struct.pack(">II", 4, 2)
            fixed = enc_entry(e0, 2, hs, b"")[:40 + hs + 2 + (2 if (e0["skip"] or e0["ita"]) else 0)]
            first = rng.choice([0, 1])
            body += fixed + varint(first) + b"ab\0" + fixed + varint(rng.choice([0, 2, 3, 200])) + b"c\0"
            m = body + hfun(hs)(body).digest()
        elif k == "trail":
            m = data + bytes(rng.randrange(256) for _ in range(rng.randrange(1, 9)))
        elif k == "eoie":   # whole file below bufio's 4096-byte buffer (see Model/IndexFile.v read_extensions)
            m = build_index(dict(spec, eoie=None, entries=[e for e in es if len(e["name"]) < 200][:6], exts=[(b"EOIE", bytes(rng.randrange(256) for _ in range(rng.choice([0, 3, 4 + hs - 1, 4 + hs + 1, 4 + hs + 9]))))]), hs)
        elif k == "treebad":
            bad = rng.choice([b"\0x 1\n", b"\0" + b"1 x\n", b"\0" + b"99999999999999999999 1\n", b"\0" + b"3 0\n" + b"h" * (hs - 1), b"\0" + b"3 0\n", b"p\0" + b"+2 -0\n" + b"h" * hs,
                              b"nonul", b"\0 1 0\n", b"\0" + b"1 0", b"\0-1 0\n\0" + b"2 1\n" + b"k" * hs, b"\0" + b"1 1\n" + b"h" * hs + b"b\0" + b"1 0\n" + b"k" * hs + b"junk",
                              b"\0" + b"2 2\n" + b"h" * hs + b"b\0" + b"1 0\n" + b"k" * hs + b"a\0" + b"1 0\n" + b"k" * hs, b"\0" + b"1 2\n" + b"h" * hs + b"a\0" + b"1 0\n" + b"k" * hs])
            m = build_index(dict(spec, eoie=None, exts=[(b"TREE", bad)]), hs)
        elif k == "reucbad":
            bad = rng.choice([b"p\0" + b"100644\0" + b"0\0" + b"8\0", b"p\0" + b"100644\0" + b"0\0" + b"0\0" + b"h" * (hs - 2), b"p\0" + b"1\0",
                              b"p\0" + b"-1\0" + b"+7\0" + b"0\0" + b"h" * hs + b"i" * hs, b"p\0" + b"\0" + b"0\0" + b"0\0", b"p\0" + b"0\0" + b"0\0" + b"0\0" + b"q\0",
                              b"p\0" + b"1\0" + b"1\0" + b"1\0" + b"h" * hs + b"i" * hs, b"p\0" + b"0\0" + b"0\0" + b"0\0",
                              b"q\0" + b"1\0" + b"0\0" + b"0\0" + b"h" * hs + b"p\0" + b"0\0" + b"2\0" + b"0\0" + b"i" * hs,
                              b"p\0" + b"1\0" + b"0\0" + b"0\0" + b"h" * hs + b"p\0" + b"0\0" + b"2\0" + b"0\0" + b"i" * hs])
            m = build_index(dict(spec, eoie=None, exts=[(b"REUC", bad)]), hs)
        elif k == "nsec":
            e0 = dict(rentry(rng, hs, b"n", 0), cn=rng.choice([10**9, 2**32 - 1, 1999999999]), cs=rng.choice([0, 5, 2**32 - 1]))
            m = build_index({"version": 2, "entries": [e0]}, hs)
            valid = True
        elif k == "order":   # git reads such a file (only fsck minds the order); go-git reads it too
            es2 = [dict(e) for e in es if len(e["name"]) < 300][:5] or [rentry(rng, hs, b"o", 0)]
            r = rng.random()
            if r < 0.4:
                es2 = es2 + [dict(rng.choice(es2), stage=rng.choice([0, 0, 1, 2, 3]))]
            elif r < 0.7:
                rng.shuffle(es2)
            else:
                es2 = es2 + [rentry(rng, hs, es2[-1]["name"][:-1] or b"o", 0)]      # (git prints an empty name as "./")
            m = build_index({"version": ver, "entries": es2}, hs)
            valid = True
        elif k == "xflags":  # extended-flag bits git does not understand: git dies, go-git ignores them
            e0 = dict(rentry(rng, hs, b"x", 0), skip=True)
            raw = bytearray(build_index({"version": rng.choice([2, 3, 4]), "entries": [e0]}, hs)[:-hs])
            pos = 12 + 40 + hs + 2
            bit = rng.choice([0x8000, 0x1000, 0x0001, 0x0100])
            raw[pos] |= bit >> 8
            raw[pos + 1] |= bit & 0xff
            m = bytes(raw) + hfun(hs)(bytes(raw)).digest()
        else:
            e0 = rentry(rng, hs, b"v", 0)
            fixed = enc_entry(e0, 2, hs, b"")[:40 + hs + 2 + (2 if (e0["skip"] or e0["ita"]) else 0)]
            vi = rng.choice([b"\xff" * 9 + b"\x7f", b"\x80", b"\xff\xff", b"\x80\x00", b"\x81\x00"])
            body = b"DIRC" + struct.pack(">II", 4, 1) + fixed + vi + b"v\0"
            m = body + hfun(hs)(body).digest()
        cases.append(dec_case("synth-" + k, m, hs, skiphash=rng.random() < 0.2, valid=valid))
    return cases


def run(cmd, cwd, inp=None, ok=False, env=None):
    p = subprocess.run(cmd, cwd=cwd, env=env or GITENV, input=inp, stdout=subprocess.PIPE, stderr=subprocess.PIPE, timeout=120)
    if ok and p.returncode != 0:
        raise RuntimeError("%r failed: %s" % (cmd, p.stderr[:300]))
    return p


def tree_truth(d, idxf):
    """what the directories of the index hold, computed by git from a copy of the index file: {dir: [tree oid, number of
    entries below, number of immediate sub-directories]} (tree oids only when write-tree succeeds)"""
    cp = idxf + ".copy"
    shutil.copyfile(idxf, cp)
    env = dict(GITENV, GIT_INDEX_FILE=cp)
    try:
        names = [r.split(b"\t", 1)[1] for r in run(["git", "ls-files", "-z", "-s"], d, env=env).stdout.split(b"\0")[:-1]]
        dirs = {b"": [None, len(names), set()]}
        for nm in names:
            parts = nm.split(b"/")
            for i in range(1, len(parts)):
                p = b"/".join(parts[:i])
                dirs.setdefault(p, [None, 0, set()])[1] += 1
                dirs.setdefault(b"/".join(parts[:i - 1]), [None, 0, set()])[2].add(parts[i - 1])
        p = run(["git", "write-tree"], d, env=env)
        if p.returncode == 0:
            root = p.stdout.strip().decode()
            dirs[b""][0] = root
            for rec in run(["git", "ls-tree", "-r", "-t", "-z", root], d, env=env).stdout.split(b"\0")[:-1]:
                meta, path = rec.split(b"\t", 1)
                if meta.split()[1] == b"tree" and path in dirs:
                    dirs[path][0] = meta.split()[2].decode()
        return {obytes(k): [v[0], v[1], len(v[2])] for k, v in dirs.items()}
    finally:
        os.remove(cp)


def git_cases(rng, nrepos):
    """index files written by git 2.39.5 itself along generated command sequences"""
    cases = []
    root = tempfile.mkdtemp(prefix="verif-C12-git-")
    try:
        for r in range(nrepos):
            hs = 32 if rng.random() < 0.15 else 20
            d = os.path.join(root, "r%d" % r)
            os.makedirs(d)
            run(["git", "init", "-q", "-b", "main", "--object-format=" + ("sha256" if hs == 32 else "sha1"), "."], d, ok=True)
            if rng.random() < 0.5:
                run(["git", "config", "index.recordEndOfIndexEntries", "true"], d)
            if rng.random() < 0.3:
                run(["git", "config", "index.recordOffsetTable", "true"], d)
                if rng.random() < 0.7:
                    run(["git", "config", "index.threads", "2"], d)       # IEOT is only written with more than one thread
            if rng.random() < 0.15:
                run(["git", "config", "core.fsmonitor", "/bin/true"], d)
            blobs = [run(["git", "hash-object", "-w", "--stdin"], d, inp=b"blob%d\n" % i, ok=True).stdout.strip().decode() for i in range(3)]
            names = []
            conflicted = []
            seen = set()
            split = False
            idxf = os.path.join(d, ".git", "index")
            for step in range(rng.randrange(3, 10)):
                k = pick_weighted(rng, [(4, "info"), (3, "conflict"), (4 if conflicted else 0, "resolve"), (1, "forcerm"), (2, "skip"), (1, "assume"), (2, "ita"), (2, "real"),
                                        (2, "writetree"), (2, "version"), (1, "untracked"), (1, "fsmonitor"), (0.4, "split")])
                if k == "info":
                    lines = b""
                    for _ in range(rng.randrange(1, 5)):
                        nm = rname(rng, not any(len(x) > 4000 for x in names))
                        if b"\n" in nm or b"\t" in nm or nm in names or any(x.startswith(nm + b"/") or nm.startswith(x + b"/") for x in names):
                            continue
                        names.append(nm)
                        lines += b"%s %s 0\t%s\n" % (rng.choice([b"100644", b"100755", b"120000"]), rng.choice(blobs).encode(), nm)
                    run(["git", "update-index", "--index-info"], d, inp=lines)
                elif k == "conflict":
                    nm = rname(rng, False)
                    if b"\n" in nm or b"\t" in nm or nm in names or any(x.startswith(nm + b"/") or nm.startswith(x + b"/") for x in names):
                        continue
                    names.append(nm)
                    conflicted.append(nm)
                    lines = b""
                    for s in sorted(rng.sample([1, 2, 3], rng.randrange(1, 4))):
                        lines += b"%s %s %d\t%s\n" % (rng.choice([b"100644", b"100755"]), rng.choice(blobs).encode(), s, nm)
                    run(["git", "update-index", "--index-info"], d, inp=lines)
                elif k == "resolve" and conflicted:
                    nm = conflicted.pop(rng.randrange(len(conflicted)))
                    run(["git", "update-index", "--add", "--cacheinfo", "100644,%s,%s" % (rng.choice(blobs), nm.decode("latin1"))], d)
                elif k == "forcerm" and names:
                    nm = names.pop(rng.randrange(len(names)))
                    if nm in conflicted:
                        conflicted.remove(nm)
                    run(["git", "update-index", "--force-remove", "--", nm], d)
                elif k == "skip" and names:
                    run(["git", "update-index", rng.choice(["--skip-worktree", "--skip-worktree", "--no-skip-worktree"]), "--", rng.choice(names)], d)
                elif k == "assume" and names:
                    run(["git", "update-index", rng.choice(["--assume-unchanged", "--assume-unchanged", "--no-assume-unchanged"]), "--", rng.choice(names)], d)
                elif k == "ita":
                    nm = b"ita%d" % step
                    open(os.path.join(d.encode(), nm), "wb").write(b"x" * step)
                    run(["git", "add", "-N", "--", nm], d)
                    names.append(nm)
                elif k == "real":
                    nm = b"real%d.txt" % step
                    open(os.path.join(d.encode(), nm), "wb").write(b"y" * (step * 7))
                    run(["git", "add", "--", nm], d)
                    names.append(nm)
                elif k == "writetree":
                    run(["git", "write-tree"], d)
                elif k == "version":
                    run(["git", "update-index", "--index-version", str(rng.choice([2, 3, 4]))], d)
                elif k == "untracked":
                    run(["git", "update-index", "--force-untracked-cache"], d)
                elif k == "fsmonitor":
                    run(["git", "update-index", "--fsmonitor"], d)
                elif k == "split":
                    run(["git", "update-index", "--split-index"], d)
                    split = True
                if os.path.exists(idxf):
                    data = open(idxf, "rb").read()
                    if data not in seen:
                        seen.add(data)
                        if split or b"link" in data:
                            # a split index: git merges it with .git/sharedindex.*; go-git refuses the mandatory `link` extension
                            cases.append(dec_case("git-split", data, hs, valid=False, note="step %d %s" % (step, k)))
                            continue
                        cases.append(dec_case("git-written", data, hs, valid=True, note="step %d %s" % (step, k),
                                              tree_truth=tree_truth(d, idxf), reencode=True))
                        if rng.random() < 0.25:   # what git >= 2.40 writes with index.skipHash: a null trailer
                            cases.append(dec_case("git-skiphash", data[:-hs] + b"\0" * hs, hs, valid=True))
    finally:
        shutil.rmtree(root, ignore_errors=True)
    return cases


def coq_time(s, n, zero):
    return "TZero" if zero else "(TUnix %s %s)" % (coq_Z(s), coq_N(n))


def coq_entry(e):
    return '(c12_entry "%s" %s %s %s %s %s %s %s %s %s "%s" %s %s)' % (
        e["name"], coq_N(e["stage"]), coq_time(e["cs"], e["cn"], e["czero"]), coq_time(e["ms"], e["mn"], e["mzero"]),
        coq_N(e["dev"]), coq_N(e["ino"]), coq_N(e["mode"]), coq_N(e["uid"]), coq_N(e["gid"]), coq_N(e["size"]), e["hash"],
        coq_bool(e["skip"]), coq_bool(e["ita"]))


def eval_s(ctx, items, tag="s"):
    """S = Spec/GitIndex.v on byte strings.  items: [(key, data, hs, modes)] with modes a subset of "ft" (fsck read, read
    with index.threads=2) -> {key: [normal read, fsck status, threaded read, read_eoie_extension, re-encoding] (parsed; None
    for a mode not asked for) or None}.  The bytes of a case are a Coq definition shared by its evaluations; one coqc per
    26 cases, in parallel"""
    groups = [items[i:i + 26] for i in range(0, len(items), 26)]

    def run(gi):
        defs, exprs, slots = [S_IMPORTS], [], []
        for k, (_, d, hs, modes) in enumerate(groups[gi]):
            defs.append("Definition d%d : bytes := Eval vm_compute in (unhex_chunks %s)." % (k, chunks(d)))
            defs.append("Definition t%d : list (N * N * string) := %s." % (k, hash_table(d, hs)))
            a = "%s t%d" % (coq_N(hs), k)
            for j, e in enumerate(["c12_git_normal %s d%d" % (a, k), "c12_git_fsck %s d%d" % (a, k), "c12_git_threads %s d%d" % (a, k),
                                   "c12_git_eoie %s d%d" % (a, k), "c12_git_reenc %s %s d%d" % (a, coq_bool(has_eoie(d, hs)), k)]):
                if (j == 1 and "f" not in modes) or (j == 2 and "t" not in modes):
                    continue
                exprs.append(e)
                slots.append((k, j))
        outs = core.coq_eval("%s%s%d" % (ctx.pid, tag, gi), "\n".join(defs), exprs, chunk=len(exprs))
        res = [[None] * 5 for _ in groups[gi]]
        for (k, j), o in zip(slots, outs):
            res[k][j] = parse_out(o) if o is not None else "FAILED"
        return res

    res = {}
    with ThreadPoolExecutor(max_workers=8) as ex:
        for g, outs in zip(groups, ex.map(run, range(len(groups)))):
            for (key_, _, _, _), o in zip(g, outs):
                res[key_] = None if "FAILED" in o else o
    return res


class Dec(Suite):
    name = "dec"
    go_cmd = "c12"
    coq_imports = "From GoGit Require Import Model.IndexFile."
    quick_n = 100
    thorough_n = 600
    coq_chunk = 34

    def gen(self, rng, n, tier):
        cases = git_cases(rng, max(4, n // 20))
        cases += synth_cases(rng, n // 3, big=max(1, n // 80))
        cases += eoie_cases(rng, max(6, n // 8))
        return cases

    def model_expr(self, c):
        if c.get("nomodel"):          # beyond what coqc evaluates in reasonable time: direct oracle only
            return None
        return 'c12_decs %s %s %s %s' % (coq_N(c["hs"]), coq_bool(c["skiphash"]), coq_list(['"%s"' % s for s in c["sums"]]), chunks(bytes.fromhex(c["data"])))

    def nontrivial(self, c):
        return len(c["data"]) > 24

    def oracle(self, ctx, cases, impl, model):
        """go-git must decode what git accepts into what git reports (entries by ls-files --stage --debug,
        resolve-undo by ls-files --resolve-undo), the same on every run; the cache tree and the EOIE contents must be
        what S = Spec/GitIndex.v (validated against the git binary by cgit() below) makes of the same bytes"""
        fails = {}
        gr = GitReader(ctx.tmp)
        stats = {"git_accepts": 0, "git_rejects": 0, "tree_vs_S": 0, "eoie_vs_S": 0}
        # which cases also get S's fsck read / threaded read (compared with the binary in cgit)
        self.modes, nf, nt = {}, 0, 0
        for c in cases:
            m = ""
            if nf < 25 or c["bucket"] in ("synth-order", "synth-badsum", "git-skiphash"):
                nf += 1
                m += "f"
            if c.get("threads") or (nt < 12 and "454f4945" in c["data"]):
                nt += 1
                m += "t"
            self.modes[c["id"]] = m
        self.S = eval_s(ctx, [(c["id"], bytes.fromhex(c["data"]), c["hs"], self.modes[c["id"]]) for c in cases if not c.get("nomodel")])
        self.G = {}
        for c in cases:
            r = impl.get(c["id"])
            if r is None:
                fails[c["id"]] = "no reply"
                continue
            if (r.get("extra") or {}).get("distinct", 1) != 1:
                fails[c["id"]] = "decoding the same bytes gave %d different results" % r["extra"]["distinct"]
                continue
            data = bytes.fromhex(c["data"])
            g = self.G[c["id"]] = (gr.read(data, c["hs"]), gr.err)
            if not c.get("valid"):
                continue
            g = g[0]
            if g is None:
                stats["git_rejects"] += 1
                ctx.notes.append("generator fault: git rejects a %s case (%s): %r" % (c["bucket"], c.get("note", ""), gr.err))
                continue
            stats["git_accepts"] += 1
            ges, gru = g
            full = (r.get("extra") or {}).get("full") or r["out"]
            if not full.startswith("( ok"):
                fails[c["id"]] = "git reads this index (%d entries), go-git fails with %s" % (len(ges), r["out"])
                continue
            o = parse_out(full)
            want = []
            for e in ges:
                e = dict(e)
                for s, n in (("cs", "cn"), ("ms", "mn")):
                    e[s], e[n] = e[s] + e[n] // 10**9, e[n] % 10**9
                want.append(e)
            if unparse(o[2]) != render_entries(want):
                fails[c["id"]] = "entries differ from git ls-files --stage --debug: go-git %s / git %s" % (unparse(o[2])[:400], render_entries(want)[:400])
                continue
            got_ru = {}
            if o[4] != "none":
                for ent in o[4][1]:
                    got_ru.setdefault(bytes.fromhex(ent[0][1:]), {}).update({int(s[0]): bytes.fromhex(s[1][1:]) for s in ent[1]})
            got_ru = {k: v for k, v in got_ru.items() if v}     # an entry whose three modes are 0 has nothing to print
            if got_ru != {k: {s: mo[1] for s, mo in v.items()} for k, v in gru.items()}:
                fails[c["id"]] = "resolve-undo differs from git ls-files --resolve-undo: go-git %r / git %r" % (got_ru, gru)
                continue
            if "eoie_expect" in c:      # git -c index.threads=2 finds the nested REUC only through the EOIE offset and hash
                off, hh, path = c["eoie_expect"]
                gt = gr.read(data, c["hs"], threads=2)
                if gt is None or bytes.fromhex(path) not in gt[1] or bytes.fromhex(path) in gru:
                    ctx.notes.append("generator fault: git does not follow the EOIE of a %s case" % c["bucket"])
                elif o[5] == "none" or o[5][1] != [str(off), "x" + hh]:
                    fails[c["id"]] = "EOIE differs from the one git follows (offset %d): go-git %s" % (off, unparse(o[5]))
                    continue
            # cache tree and EOIE: what git makes of them according to S
            s = self.S.get(c["id"])
            if not s or s_err(s[0]) is not None:
                continue
            exact = isinstance(s[4], list) and unparse(s[4][0]) == obytes(data)
            if not exact:
                continue
            # the file is byte for byte what git writes for the state it holds (C12_we_read_git's premise, decided by S
            # and, for S, by the binary): go-git's cache tree = the valid nodes in pre-order, EOIE = (offset of the first
            # extension, hash of the extension headers)
            if tree_nodes(s[0]) is not None:
                want_t = [[unparse(n[1]), n[2], n[3], n[4]] for n in tree_nodes(s[0]) if not n[2].startswith("-")]
                got_t = [[obytes(bytes.fromhex(e[0][1:])), e[1], e[2], e[3]] for e in o[3][1]] if o[3] != "none" else None
                stats["tree_vs_S"] += 1
                if got_t != want_t:
                    fails[c["id"]] = "cache tree differs from what git reads (Spec/GitIndex): go-git %s / git %s" % (unparse(o[3])[:300], unparse(want_t)[:300])
                    continue
            if has_eoie(data, c["hs"]):
                stats["eoie_vs_S"] += 1
                if o[5] == "none" or o[5][1] != [s[4][1], s[4][2]]:
                    fails[c["id"]] = "EOIE differs from what git writes (Spec/GitIndex): go-git %s / git %s" % (unparse(o[5]), unparse(s[4][1:]))
        self.stats = stats
        return fails

    def finding_class(self, case, reason, reply):
        if "different results" in reason and "52455543" in case["data"]:
            return "reuc-map-order"
        return None

    def cgit(self, ctx, cases):
        """C-git: S = Spec/GitIndex.v against the git binary"""
        gr = GitReader(ctx.tmp)
        st = {"s_vs_git_read": 0, "s_undefined": 0, "s_vs_git_fsck": 0, "s_vs_git_threads": 0, "s_vs_git_write_tree": 0,
              "s_vs_git_tree_truth": 0, "s_reencode_exact": 0, "s_eoie_accepted": 0}
        bad = 0

        def mism(c, what):
            nonlocal bad
            bad += 1
            ctx.notes.append("spec_mismatch S vs git on %s case %s (%s): %s" % (c["bucket"], c["id"], c.get("note", ""), what))
        for c in cases:
            s = self.S.get(c["id"])
            if c["id"] not in self.G:
                continue
            if c.get("nomodel"):
                continue
            if not s:
                mism(c, "S did not evaluate")
                continue
            data = bytes.fromhex(c["data"])
            hs = c["hs"]
            g = self.G[c["id"]][0]
            # 1. the normal read
            why = compare_s_git(s[0], g)
            if why == "undef":
                st["s_undefined"] += 1
                if c["bucket"] in ("git-written", "git-skiphash", "synth-git", "synth-big"):
                    mism(c, "S is undefined (%s) on a file git writes" % unparse(s[0]))
                continue
            st["s_vs_git_read"] += 1
            if why:
                mism(c, why + " (git: %r)" % self.G[c["id"]][1][:120])
                continue
            if g is None:
                continue
            # 2. fsck: checksum and order
            if s[1] is not None:
                want = "ok" if s[1] == "ok" else s_err(s[1])
                got = gr.fsck(data, hs)
                st["s_vs_git_fsck"] += 1
                if want not in UNDEF and got != want:
                    mism(c, "fsck: S %s / git %s" % (want, got))
            # 3. index.threads=2: extensions loaded from the EOIE offset
            if s[2] is not None:
                gt = gr.read(data, hs, threads=2)
                why = compare_s_git(s[2], gt)
                if why != "undef":
                    st["s_vs_git_threads"] += 1
                    if why:
                        mism(c, "index.threads=2: " + why)
                if s[3] != "0":
                    st["s_eoie_accepted"] += 1
            # 4. the cache tree
            nodes = tree_nodes(s[0])
            if nodes is not None:
                if "tree_truth" in c:
                    tt = c["tree_truth"]
                    st["s_vs_git_tree_truth"] += 1
                    for n in nodes:
                        if n[2].startswith("-"):
                            continue
                        t = tt.get(unparse(n[0]))
                        if t is None or [n[2], n[3]] != [str(t[1]), str(t[2])] or (t[0] is not None and n[4] != "x" + t[0]):
                            mism(c, "cache tree node %s: S %s / git ls-tree + ls-files %s" % (unparse(n[0]), n[2:], t))
                            break
                elif all(not n[2].startswith("-") and bytes.fromhex(n[4][1:]) in pool_oids(hs) for n in nodes) and \
                        all(isinstance(n[0], str) for n in nodes):
                    st["s_vs_git_write_tree"] += 1
                    for n in [nodes[0], nodes[-1], nodes[len(nodes) // 2]]:
                        got = gr.write_tree(data, hs, bytes.fromhex(n[0][1:]))
                        if got != n[4][1:]:
                            mism(c, "write-tree --prefix=%s: S %s / git %s (%r)" % (n[0], n[4], got, gr.err))
                            break
                    if gr.write_tree(data, hs, b"no/such/dir") is not None:
                        mism(c, "write-tree finds a directory S does not have")
            # 5. what git writes back
            if c.get("reencode") and b"IEOT" not in data:      # S keeps no offset table (git writes it only with index.threads > 1)
                st["s_reencode_exact"] += 1
                if not (isinstance(s[4], list) and unparse(s[4][0]) == obytes(data)):
                    mism(c, "git_encode (git_decode b) <> b: %s / %s" % (unparse(s[4])[:200], obytes(data)))
        st["spec_mismatches"] = bad + getattr(self, "stats", {}).get("git_rejects", 0)
        return st

    def extra(self, ctx, cases, impl, model):
        b = {}
        for c in cases:
            cls = (impl.get(c["id"]) or {}).get("out", "")[:12]
            b[cls] = b.get(cls, 0) + 1
        big = sum(1 for c in cases if len(c["data"]) > 24000)
        return dict(getattr(self, "stats", {}), result_classes=b, files_over_12k=big, **self.cgit(ctx, cases))


def enc_cases(rng, n):
    cases = []
    for _ in range(n):
        hs = 32 if rng.random() < 0.2 else 20
        ver = pick_weighted(rng, [(4, 2), (3, 3), (5, 4), (1, 0), (1, 1), (1, 5)])
        es = rentries(rng, hs, pick_weighted(rng, [(1, 0), (3, 1), (4, 3), (3, 6), (1, 14)]))
        bucket = "enc-valid"
        if rng.random() < 0.15:      # the 12-bit name length saturates (>= 0xFFF) on an entry that also carries stage / extended flags
            nm = b"S" + bytes(rng.choice(b"st/") for _ in range(rng.choice([4093, 4094, 4095, 4096, 4200]))).replace(b"//", b"/s").strip(b"/") + b"s"
            for st in rng.sample([1, 2, 3], rng.randrange(1, 4)):
                es.append(dict(rentry(rng, hs, nm, st), skip=rng.random() < 0.5))
        r = rng.random()
        for e in es:
            e["czero"] = (e["cs"], e["cn"]) == (0, 0) and rng.random() < 0.7
            e["mzero"] = (e["ms"], e["mn"]) == (0, 0) and rng.random() < 0.7
        if r < 0.08 and es:
            bucket = "enc-time"          # negative / beyond-uint32 / beyond-int64-nanoseconds timestamps
            e = rng.choice(es)
            e["cs"], e["cn"] = rng.choice([(-1, 0), (-5, 999999999), (2**32, 7), (2**32 + 5, 0), (9223372036, 854775807), (9223372036, 854775808),
                                           (9223372037, 0), (2**33, 1), (18446744073, 709551616 % 10**9), (18446744074, 0), (27670116110, 564327424 % 10**9)])
        elif r < 0.12 and es:
            bucket = "enc-stage"         # Stage outside 0..3 is masked
            rng.choice(es)["stage"] = rng.choice([4, 5, 7, 8])
        elif r < 0.15 and es:
            bucket = "enc-nul"           # NUL inside a name cannot round-trip in V4 / long names
            e = rng.choice(es)
            e["name"] = e["name"][:1] + b"\0" + e["name"][1:]
        rng.shuffle(es)
        cases.append({"bucket": bucket, "kind": "enc", "hs": hs, "version": ver, "skiphash": rng.random() < 0.15,
                      "entries": [dict(e, name=H(e["name"]), hash=H(e["hash"])) for e in es]})
    return cases


class Enc(Suite):
    name = "enc"
    go_cmd = "c12"
    coq_imports = "From GoGit Require Import Model.IndexFile."
    quick_n = 60
    thorough_n = 800
    coq_chunk = 40

    def gen(self, rng, n, tier):
        return enc_cases(rng, n)

    def model_expr(self, c):
        return 'c12_enc %s %s "%s" %s %s' % (coq_N(c["hs"]), coq_bool(c["skiphash"]), "5a" * c["hs"], coq_N(c["version"]),
                                             coq_list([coq_entry(e) for e in c["entries"]]))

    def nontrivial(self, c):
        return len(c["entries"]) > 0

    def expected(self, c):
        es = []
        for e in c["entries"]:
            e = dict(e, name=bytes.fromhex(e["name"]), hash=bytes.fromhex(e["hash"]))
            es.append(e)
        return sorted(es, key=key)

    def oracle(self, ctx, cases, impl, model):
        """on go-git's own output: (1) decoding gives back the sorted entries, (2) the trailer is the checksum of the
        body, (3) git reads the file and reports the same entries, (4) git fsck finds checksum and entry order in order"""
        fails = {}
        gr = GitReader(ctx.tmp)
        ngit = nfsck = 0
        self.files = {}
        for c in cases:
            r = impl.get(c["id"])
            if r is None:
                fails[c["id"]] = "no reply"
                continue
            if c["bucket"] != "enc-valid" or c["version"] not in (2, 3, 4):
                continue                          # outside the index format's domain: only the model tie applies
            if not r["out"].startswith("( ok"):
                fails[c["id"]] = "encoding a well-formed index failed: " + r["out"]
                continue
            o = parse_out(r["out"])
            want = self.expected(c)
            if o[2] != "true":
                fails[c["id"]] = "trailer is not the checksum of the content"
                continue
            back = o[3]
            if back[0] != "ok" or unparse(back[2]) != render_entries(want) or back[1] != str(c["version"]) or back[3:] != ["none", "none", "none"]:
                fails[c["id"]] = "decode(encode(i)) differs from sort(i): %s / %s" % (unparse(back)[:400], render_entries(want)[:400])
                continue
            f = (r.get("extra") or {}).get("file")
            data = bytes.fromhex(f[1:])
            g = gr.read(data, c["hs"])
            ngit += 1
            if g is None:
                fails[c["id"]] = "git cannot read the index go-git wrote (version %d, %d entries): %r" % (c["version"], len(want), gr.err)
                continue
            self.files[c["id"]] = (data, g, c["hs"])
            if render_entries(g[0]) != render_entries(want):
                fails[c["id"]] = "git reads other entries than were encoded: git %s / encoded %s" % (render_entries(g[0])[:400], render_entries(want)[:400])
                continue
            if nfsck < 25:
                nfsck += 1
                k = gr.fsck(data, c["hs"])
                if k != "ok" and not c["skiphash"]:
                    fails[c["id"]] = "git fsck rejects the index go-git wrote: " + k
        self.ngit, self.nfsck = ngit, nfsck
        return fails

    def extra(self, ctx, cases, impl, model):
        """C-git on the files go-git wrote: S reads them as the binary does"""
        items = [(i, d, hs, "") for i, (d, g, hs) in sorted(self.files.items())]
        S = eval_s(ctx, items)
        bad = n = 0
        for i, (d, g, hs) in self.files.items():
            s = S.get(i)
            why = "S did not evaluate" if not s else compare_s_git(s[0], g)
            n += 1
            if why:
                bad += 1
                ctx.notes.append("spec_mismatch S vs git on the file go-git wrote for enc case %s: %s" % (i, why))
        return {"git_read_back": getattr(self, "ngit", 0), "git_fsck": getattr(self, "nfsck", 0), "s_vs_git_read": n, "spec_mismatches": bad}


SUITES = [Dec(), Enc()]
