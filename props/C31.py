"""C31 Line-ending conversion matches git and round-trips (DESIGN.md §4.C31)."""
import hashlib
import os
import subprocess
from vf.core import Suite, coq_hex, coq_list, coq_N
from vf.gen import pick_weighted

ID = "C31"
THEOREMS = [
    "C31_is_binary_tied",
    "C31_stat_eq_git", "C31_is_binary_eq_git",
    "C31_lf_write_total", "C31_crlf_write_total",
    "C31_lf_chunk_free", "C31_lf_chunk_free_refuted",
    "C31_crlf_chunk_free_refuted", "C31_crlf_chunk_free_partial", "C31_crlf_nocr",
    "C31_checkout_eq_git",
    "C31_add_eq_git_partial", "C31_add_index_crlf_refuted",
    "C31_roundtrip_partial", "C31_roundtrip_refuted", "C31_git_roundtrip",
    "C31_node_size",
]
MODEL_FILES = ["Eol.v"]
MODELLED = ("utils/convert/stat.go GetStat (incl. ignored byte count of Read, final ^Z adjustment with uint wrap) and "
            "Stat.IsBinary; utils/convert/eol.go crlfToLFWriter.Write and lfToCRLFWriter.Write (bytes.Index loops, returned "
            "counts, the hadCR flag) under arbitrary chunking; the decisions of worktree.go copyObjectToWorktree, "
            "worktree_status.go fillEncodedObjectFromFile and filesystem/node.go doCalculateHashForRegular (size - CRLF) "
            "(Model/Eol.v); spec: git convert.c gather_stats / convert_is_binary / will_convert_lf_to_crlf / "
            "crlf_to_worktree / crlf_to_git / has_crlf_in_index for a path without attributes (Spec/GitConvert.v); "
            "not modelled: .gitattributes (go-git has no eol attributes), core.eol, core.safecrlf, write errors of the "
            "underlying writer, object storage and index plumbing (exercised by the flow suite only)")
TRUSTED = [
    "C-impl codec suite: convert.GetStat / Stat.IsBinary / NewLFWriter / NewCRLFWriter vs Model/Eol on every case",
    "C-impl flow suite: Worktree.Add / hard Reset on memory storage + memfs with core.autocrlf vs Model/Eol "
    "(checkout_conv, add_conv over 32 KiB chunks) on every case",
    "C-git: Spec/GitConvert vs git 2.39.5 (`checkout-index`, `add`, `ls-files --eol`) on the flow cases of every run",
]
ASSUMPTIONS = [
    "git's conversion for a path without attributes is as Spec/GitConvert says (validated against the git binary on each run)",
    "the readers handed to GetStat by the three callers are bufio.Readers (deliver each byte once, then (0, EOF))",
    "io.CopyBuffer hands the writer the source bytes in order, split into chunks (any split: the theorems quantify over it)",
]
RULE = ("codec cases = byte strings from buckets {LF, CRLF, mixed, lone CR, NUL, ^Z, DEL/ctrl near the 1/128 "
        "printable ratio, long lines} x chunkings {1..3 bytes, random cuts, cuts between CR and LF, empty chunks}; "
        "flow cases = (autocrlf, content[, staged prior content]) incl. > 32 KiB with a CR at the buffer edge; "
        "non-trivial = content contains CR or LF or a non-printable byte; distinct by content")

CR, LF = 13, 10


# ---------------------------------------------------------------- reference (git's convert.c, python)

def git_stats(b):
    s = dict(nul=0, lonecr=0, lonelf=0, crlf=0, pr=0, np=0)
    i, n = 0, len(b)
    while i < n:
        c = b[i]
        if c == CR:
            if i + 1 < n and b[i + 1] == LF:
                s["crlf"] += 1
                i += 2
                continue
            s["lonecr"] += 1
        elif c == LF:
            s["lonelf"] += 1
        elif c == 127:
            s["np"] += 1
        elif c < 32:
            if c in (8, 9, 27, 12):
                s["pr"] += 1
            elif c == 0:
                s["nul"] += 1
                s["np"] += 1
            else:
                s["np"] += 1
        else:
            s["pr"] += 1
        i += 1
    if n and b[-1] == 26:
        s["np"] -= 1
    return s


def git_is_binary(s):
    return s["lonecr"] > 0 or s["nul"] > 0 or (s["pr"] >> 7) < s["np"]


def lone_cr_free(b):
    return all(not (c == CR and (i + 1 >= len(b) or b[i + 1] != LF)) for i, c in enumerate(b))


def blob_id(b):
    return hashlib.sha1(b"blob %d\0" % len(b) + b).hexdigest()


# ---------------------------------------------------------------- generators

TEXT = b"abcdefghijklmnopqrstuvwxyz ABC012.,;(){}"


def content(rng, bucket, big=False):
    n = rng.choice([0, 1, 2, 3, 5, 8, 13, 30, 60]) if not big else rng.randrange(100, 300)
    def line():
        return bytes(rng.choice(TEXT) for _ in range(rng.choice([0, 0, 1, 2, 5, 9])))
    out = bytearray()
    if bucket == "lf":
        for _ in range(n):
            out += line() + b"\n"
    elif bucket == "crlf":
        for _ in range(n):
            out += line() + b"\r\n"
    elif bucket == "mixed":
        for _ in range(max(n, 2)):
            out += line() + rng.choice([b"\n", b"\r\n", b"\n\n", b"\r\n\n"])
    elif bucket == "lonecr":
        for _ in range(max(n, 1)):
            out += line() + rng.choice([b"\n", b"\r\n", b"\r", b"\r\r\n", b"\rx"])
    elif bucket == "nul":
        for _ in range(max(n, 1)):
            out += line() + rng.choice([b"\n", b"\r\n", b"\0", b"\0\n"])
    elif bucket == "ctrlz":
        for _ in range(n):
            out += line() + rng.choice([b"\n", b"\r\n"])
        out += rng.choice([b"\x1a", b"\x1a\n", b"\r\n\x1a", b"\x1a\x1a"])
    elif bucket == "ratio":
        # printable >> 7 against nonprintable: the boundary of convert_is_binary
        npn = rng.choice([1, 1, 2, 3])
        pr = 128 * npn + rng.choice([-2, -1, 0, 1, 127, -128])
        body = [rng.choice(TEXT) for _ in range(max(pr, 0))] + [rng.choice([1, 2, 7, 11, 14, 31, 127, 26]) for _ in range(npn)]
        rng.shuffle(body)
        out += bytes(body)
        for _ in range(rng.randrange(4)):
            pos = rng.randrange(len(out) + 1)
            out[pos:pos] = rng.choice([b"\n", b"\r\n"])
        if rng.random() < 0.3:
            out += b"\x1a"
    elif bucket == "noeol":
        for _ in range(n):
            out += line() + rng.choice([b"\n", b"\r\n"])
        out += bytes(rng.choice(TEXT) for _ in range(rng.randrange(1, 5))) + rng.choice([b"", b"\r"])
    else:  # random small alphabet
        out += bytes(rng.choice(b"\r\n\r\nab\0\x1a\x7f\t\x01") for _ in range(rng.randrange(0, 12)))
    return bytes(out)


BUCKETS = [(3, "lf"), (3, "crlf"), (4, "mixed"), (2, "lonecr"), (1, "nul"), (2, "ctrlz"), (3, "ratio"), (2, "noeol"), (3, "random")]


def chunking(rng, b):
    mode = rng.choice(["one", "bytes", "small", "cuts", "crsplit", "empties"])
    if mode == "one" or not b:
        return [b] if rng.random() < 0.8 else [b"", b]
    if mode == "bytes":
        return [b[i:i + 1] for i in range(len(b))]
    if mode == "small":
        out, i = [], 0
        while i < len(b):
            k = rng.randrange(1, 4)
            out.append(b[i:i + k])
            i += k
        return out
    cuts = set()
    if mode in ("crsplit", "empties"):
        for i in range(len(b) - 1):
            if b[i] == CR and rng.random() < 0.8:
                cuts.add(i + 1)
    for _ in range(rng.randrange(0, 4)):
        cuts.add(rng.randrange(0, len(b) + 1))
    cs = sorted(cuts)
    out, p = [], 0
    for c in cs:
        out.append(b[p:c])
        p = c
    out.append(b[p:])
    if mode == "empties":
        for _ in range(rng.randrange(1, 3)):
            out.insert(rng.randrange(len(out) + 1), b"")
    return out


class Codec(Suite):
    name = "codec"
    go_cmd = "c31"
    coq_imports = "From GoGit Require Import Model.Eol."
    quick_n = 500
    thorough_n = 4000

    def gen(self, rng, n, tier):
        cases = []
        for _ in range(n):
            op = pick_weighted(rng, [(3, "stat"), (1, "isbin"), (4, "lfw"), (4, "crlfw")])
            bucket = pick_weighted(rng, BUCKETS)
            if op == "isbin":
                npn = rng.choice([0, 1, 2, 3, 255, 2 ** 32])
                pr = max(0, 128 * npn + rng.choice([-129, -128, -1, 0, 1, 127, 128]))
                cases.append({"bucket": "isbin", "op": op, "nul": rng.choice([0, 0, 0, 1]), "lonecr": rng.choice([0, 0, 0, 1]),
                              "lonelf": rng.randrange(3), "crlf": rng.randrange(3), "pr": pr, "np": npn})
                continue
            b = content(rng, bucket, big=rng.random() < 0.05)
            if op == "stat":
                evs = list(b)
                r = rng.random()
                if r < 0.15 and evs:      # a reader answering (1, io.EOF) for the last byte
                    evs[-1] += 512
                elif r < 0.3:             # (0, nil) answers
                    for _ in range(rng.randrange(1, 3)):
                        evs.insert(rng.randrange(len(evs) + 1), 256)
                cases.append({"bucket": "stat-" + bucket, "op": op, "evs": evs})
            else:
                cases.append({"bucket": op + "-" + bucket, "op": op, "chunks": [x.hex() for x in chunking(rng, b)]})
        if tier == "thorough":
            # small-scope exhaustion: all strings <= 5 over {CR, LF, a} x all 2-chunk splits
            from vf.gen import all_strings
            for s in all_strings(b"\r\na", 5):
                for k in range(len(s) + 1):
                    for op in ("lfw", "crlfw"):
                        cases.append({"bucket": op + "-exh", "op": op, "chunks": [s[:k].hex(), s[k:].hex()]})
        return cases

    def model_expr(self, c):
        if c["op"] == "stat":
            return "c31_stat %s" % coq_list([coq_N(e) for e in c["evs"]])
        if c["op"] == "isbin":
            return "c31_isbin %s" % " ".join(coq_N(c[k]) for k in ("nul", "lonecr", "lonelf", "crlf", "pr", "np"))
        f = "c31_lfw" if c["op"] == "lfw" else "c31_crlfw"
        return "%s %s" % (f, coq_list(['"%s"' % x for x in c["chunks"]]))

    def nontrivial(self, c):
        if c["op"] == "isbin":
            return True
        b = bytes(e % 256 for e in c["evs"] if e != 256) if c["op"] == "stat" else b"".join(bytes.fromhex(x) for x in c["chunks"])
        return any(ch in (CR, LF) or ch < 32 or ch == 127 for ch in b)

    def oracle(self, ctx, cases, impl, model):
        """the codec-level property on the implementation: statistics and binary verdict as git computes them
        (well-behaved readers); writers' output a function of the concatenation, equal to git's loops, whenever
        the content is one for which the callers install them and git converts or leaves it (no lone CR / no CR)"""
        fails = {}
        for c in cases:
            r = impl.get(c["id"])
            if r is None:
                fails[c["id"]] = "no reply"
                continue
            out = r["out"]
            if c["op"] == "stat":
                if any(e >= 256 for e in c["evs"]):
                    continue   # outside the io.Reader behaviour of the callers' bufio.Reader: model comparison only
                b = bytes(c["evs"])
                s = git_stats(b)
                # go-git does not count NUL as non-printable (irrelevant to the verdict): compare modulo that
                want = "( ok %d %d %d %d %d %d %s )" % (s["nul"], s["lonecr"], s["lonelf"], s["crlf"], s["pr"], s["np"] - s["nul"],
                                                          "true" if git_is_binary(s) else "false")
                if out != want:
                    fails[c["id"]] = "GetStat %s != git gather_stats %s" % (out, want)
            elif c["op"] == "isbin":
                s = {k: c[k] for k in ("nul", "lonecr", "pr", "np")}
                want = "true" if git_is_binary(s) else "false"
                if out != want:
                    fails[c["id"]] = "IsBinary %s != convert_is_binary %s" % (out, want)
            else:
                chunks = [bytes.fromhex(x) for x in c["chunks"]]
                b = b"".join(chunks)
                ns = "( " + "".join("%d " % len(x) for x in chunks) + ")"
                want = None
                if c["op"] == "lfw" and lone_cr_free(b):
                    want = b.replace(b"\r", b"")
                elif c["op"] == "crlfw" and CR not in b:
                    want = b.replace(b"\n", b"\r\n")
                elif c["op"] == "crlfw" and lone_cr_free(b) and git_stats(b)["lonelf"] == 0:
                    want = b
                if want is not None:
                    w = "( ok x%s %s )" % (want.hex(), ns)
                    if out != w:
                        fails[c["id"]] = "writer output/counts %s != %s" % (out[:200], w[:200])
                elif not out.endswith(ns + " )"):
                    fails[c["id"]] = "Write returned counts other than len(data): %s" % out[-80:]
        return fails


# ---------------------------------------------------------------- flows against the git binary

ACN = {0: "false", 1: "input", 2: "true"}


def git(ctx_env, args, cwd, input=None):
    p = subprocess.run(["/usr/bin/git"] + args, cwd=cwd, env=ctx_env, input=input, stdout=subprocess.PIPE, stderr=subprocess.PIPE, timeout=300)
    if p.returncode != 0:
        raise RuntimeError("git %s failed: %s" % (" ".join(args), p.stderr[-500:]))
    return p.stdout


def git_env(tmp):
    return {"PATH": "/usr/bin:/bin", "HOME": tmp, "GIT_CONFIG_NOSYSTEM": "1", "GIT_CONFIG_GLOBAL": "/dev/null",
            "GIT_AUTHOR_NAME": "v", "GIT_AUTHOR_EMAIL": "v@v", "GIT_COMMITTER_NAME": "v", "GIT_COMMITTER_EMAIL": "v@v", "LC_ALL": "C"}


def git_flows(tmp, cases):
    """-> {id: bytes-or-blobid} what git produces for each flow case (batch: one repository per (op, autocrlf))"""
    env = git_env(tmp)
    res = {}
    groups = {}
    for c in cases:
        groups.setdefault((c["op"], c["ac"]), []).append(c)
    for (op, ac), cs in sorted(groups.items()):
        d = os.path.join(tmp, "g-%s-%d" % (op, ac))
        os.makedirs(d)
        git(env, ["init", "-q", "."], d)
        git(env, ["config", "core.safecrlf", "false"], d)
        acv = "core.autocrlf=" + ACN[ac]
        # 1. blobs to stage first (autocrlf off): the blob of checkout/roundtrip cases, the prior of add cases
        stage = []
        for c in cs:
            pre = c["data"] if op in ("checkout", "roundtrip") else c.get("prior")
            if pre is not None:
                stage.append((c["id"], bytes.fromhex(pre)))
        if stage:
            os.makedirs(os.path.join(d, ".in"))
            for i, b in stage:
                open(os.path.join(d, ".in", "b%d" % i), "wb").write(b)
            ids = git(env, ["-c", "core.autocrlf=false", "hash-object", "-w", "--no-filters", "--stdin-paths"], d,
                      input="".join(".in/b%d\n" % i for i, _ in stage).encode()).decode().split()
            git(env, ["update-index", "--index-info"], d,
                input="".join("100644 %s\tf%d\n" % (h, i) for (i, _), h in zip(stage, ids)).encode())
        if op in ("checkout", "roundtrip"):
            git(env, ["-c", acv, "checkout-index", "-a", "-f"], d)
        if op == "checkout":
            for c in cs:
                res[c["id"]] = open(os.path.join(d, "f%d" % c["id"]), "rb").read()
            continue
        if op == "add":
            for c in cs:
                open(os.path.join(d, "f%d" % c["id"]), "wb").write(bytes.fromhex(c["data"]))
        git(env, ["-c", acv, "add", "-A", "--", ":(glob)f*"], d)
        for line in git(env, ["ls-files", "-s", "-z"], d).split(b"\0"):
            if line:
                meta, name = line.split(b"\t", 1)
                res[int(name[1:])] = meta.split()[1].decode()
    return res


def git_eol_class(tmp, blobs):
    """`git ls-files --eol` index classification of each blob: none / lf / crlf / mixed / -text"""
    env = git_env(tmp)
    d = os.path.join(tmp, "g-eol")
    os.makedirs(os.path.join(d, ".in"))
    git(env, ["init", "-q", "."], d)
    for i, b in enumerate(blobs):
        open(os.path.join(d, ".in", "b%d" % i), "wb").write(b)
    ids = git(env, ["hash-object", "-w", "--no-filters", "--stdin-paths"], d, input="".join(".in/b%d\n" % i for i in range(len(blobs))).encode()).decode().split()
    git(env, ["update-index", "--index-info"], d, input="".join("100644 %s\tf%d\n" % (h, i) for i, h in enumerate(ids)).encode())
    out = {}
    for line in git(env, ["ls-files", "--eol"], d).decode().splitlines():
        info, name = line.split("\t", 1)
        out[int(name[1:])] = info.split()[0][2:]
    return [out[i] for i in range(len(blobs))]


def eol_class_ref(b):
    if not b:
        return "none"
    s = git_stats(b)
    if git_is_binary(s):
        return "-text"
    if s["crlf"] and s["lonelf"]:
        return "mixed"
    if s["crlf"]:
        return "crlf"
    if s["lonelf"]:
        return "lf"
    return "none"


class Flow(Suite):
    name = "flow"
    go_cmd = "c31"
    coq_imports = "From GoGit Require Import Model.Eol Spec.GitConvert."
    quick_n = 300
    thorough_n = 1500
    coq_chunk = 150

    def gen(self, rng, n, tier):
        cases = []
        nbig = 4 if tier == "quick" else 40
        for k in range(n):
            op = pick_weighted(rng, [(4, "checkout"), (3, "add"), (2, "addprior"), (2, "roundtrip")])
            ac = pick_weighted(rng, [(5, 2), (3, 1), (1, 0)])
            bucket = pick_weighted(rng, BUCKETS)
            b = content(rng, bucket, big=rng.random() < 0.05)
            if k < nbig:
                # more than one 32 KiB copy buffer, a CR as the last byte of the first buffer
                kind = ["crlf", "lf", "mixed", "crlf"][k % 4]
                eol = {"crlf": [b"\r\n"], "lf": [b"\n"], "mixed": [b"\r\n", b"\n", b"\n\n"]}[kind]
                body = bytearray()
                while len(body) < 32767 - 40:
                    body += bytes(rng.choice(TEXT) for _ in range(rng.randrange(20, 60))) + rng.choice(eol)
                body += b"x" * (32767 - len(body)) + b"\r\n" + (b"\n" if kind == "mixed" else b"") + b"tail" + rng.choice(eol)
                b, bucket = bytes(body), "big-" + kind
            c = {"bucket": "%s-%s" % (op, bucket), "op": op if op != "addprior" else "add", "ac": ac, "data": b.hex()}
            if op == "addprior":
                c["prior"] = content(rng, pick_weighted(rng, [(3, "crlf"), (2, "mixed"), (2, "lf"), (1, "lonecr"), (1, "nul"), (1, "random")])).hex()
            cases.append(c)
        return cases

    def model_expr(self, c):
        if len(c["data"]) > 16000:
            return None    # > 8 KiB: a 64 K-character literal overflows coqc's stack; these cases rely on the git oracle
        f = {"checkout": "c31_checkout", "add": "c31_add", "roundtrip": "c31_roundtrip"}[c["op"]]
        return '%s %s "%s"' % (f, coq_N(c["ac"]), c["data"])

    def nontrivial(self, c):
        return any(ch in (CR, LF) or ch < 32 or ch == 127 for ch in bytes.fromhex(c["data"]))

    def _git(self, ctx, cases):
        if getattr(self, "_git_key", None) != id(cases):
            d = os.path.join(ctx.tmp, "flows-%d" % len(os.listdir(ctx.tmp)))
            os.makedirs(d)
            self._git_res = git_flows(d, cases)
            self._git_key = id(cases)
        return self._git_res

    def oracle(self, ctx, cases, impl, model):
        """the property itself: bytes written on checkout / blob stored on add (and after checkout + re-add) equal git's"""
        ref = self._git(ctx, cases)
        fails = {}
        for c in cases:
            r = impl.get(c["id"])
            if r is None or not r["out"].startswith("( ok x"):
                fails[c["id"]] = "no result: %s" % (r and r["out"])
                continue
            got = bytes.fromhex(r["out"][6:-2])
            want = ref.get(c["id"])
            if want is None:
                fails[c["id"]] = "git produced no result"
            elif c["op"] == "checkout":
                if got != want:
                    fails[c["id"]] = "checkout bytes differ from git's: %r vs git %r" % (got[:60], want[:60])
            else:
                if blob_id(got) != want:
                    fails[c["id"]] = "stored blob %s (%r) differs from git's %s" % (blob_id(got), got[:60], want)
                elif c["op"] == "roundtrip" and want != blob_id(bytes.fromhex(c["data"])):
                    fails[c["id"]] = "git itself does not round-trip (machinery)"
        return fails

    def finding_class(self, c, reason, reply):
        if reason == "panic" or c["ac"] == 0:
            return None
        b = bytes.fromhex(c["data"])
        s = git_stats(b)
        text_crlf = lambda x: (not git_is_binary(git_stats(x))) and git_stats(x)["crlf"] > 0
        if c["op"] == "add" and c.get("prior") is not None and text_crlf(bytes.fromhex(c["prior"])) and text_crlf(b):
            return "add-index-crlf"
        if c["op"] == "roundtrip" and text_crlf(b):
            return "add-index-crlf"
        return None

    def extra(self, ctx, cases, impl, model):
        # C-git: S (Spec/GitConvert) against the git binary on the same cases
        ref = self._git(ctx, cases)
        exprs, ids = [], []
        for c in cases:
            if len(c["data"]) > 4000:
                continue
            if c["op"] == "checkout":
                exprs.append('c31_git_checkout %s "%s"' % (coq_N(c["ac"]), c["data"]))
            elif c["op"] == "add":
                pr = '(Some "%s")' % c["prior"] if c.get("prior") is not None else "None"
                exprs.append('c31_git_add %s %s "%s"' % (coq_N(c["ac"]), pr, c["data"]))
            else:
                continue
            ids.append(c["id"])
        outs = ctx.coq_eval(self.coq_imports, exprs, chunk=150)
        bad = 0
        byid = {c["id"]: c for c in cases}
        for i, o in zip(ids, outs):
            want = ref.get(i)
            sb = bytes.fromhex(o[1:]) if o and o.startswith("x") else None
            ok = sb is not None and (sb == want if byid[i]["op"] == "checkout" else blob_id(sb) == want)
            if not ok:
                bad += 1
                ctx.notes.append("spec_mismatch GitConvert vs git on case %s: %s vs %r" % ({k: v for k, v in byid[i].items() if k != "id"}, o, want))
        # statistics / binary verdict of S against `git ls-files --eol`
        blobs = [bytes.fromhex(c["data"]) for c in cases if len(c["data"]) <= 4000][:300]
        d = os.path.join(ctx.tmp, "eol-%d" % len(os.listdir(ctx.tmp)))
        os.makedirs(d)
        cls = git_eol_class(d, blobs)
        sbad = sum(1 for b, k in zip(blobs, cls) if eol_class_ref(b) != k)
        if sbad:
            ctx.notes.append("spec_mismatch: python/Coq gather_stats classification differs from `git ls-files --eol` on %d blobs" % sbad)
        # Coq S statistics against the python transcription used by the oracles
        souts = ctx.coq_eval(self.coq_imports, ['c31_git_stat "%s"' % b.hex() for b in blobs], chunk=150)
        for b, o in zip(blobs, souts):
            s = git_stats(b)
            want = "( ok %d %d %d %d %d %d %s )" % (s["nul"], s["lonecr"], s["lonelf"], s["crlf"], s["pr"], s["np"], "true" if git_is_binary(s) else "false")
            if o != want:
                sbad += 1
                ctx.notes.append("spec_mismatch: Coq git_stats %s vs python %s on %s" % (o, want, b.hex()[:80]))
        return {"spec_vs_git_cases": len(ids), "spec_mismatches": bad + sbad, "eol_class_cases": len(blobs)}


SUITES = [Codec(), Flow()]
