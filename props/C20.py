"""C20 The cached index view always equals the on-disk index (DESIGN.md §4.C20)."""
from vf.core import Suite, coq_list, coq_bool, coq_N
from vf.gen import pick_weighted

ID = "C20"
THEOREMS = ["C20_inv", "C20_alias_refuted", "C20_inv_partial", "C20_deepcopy_restores",
            "C20_ext_inv", "C20_ext_stale_refuted", "C20_ext_inv_partial",
            "C20_trace_quiet_loud", "C20_ext_trace_quiet_loud"]
MODEL_FILES = ["IndexCache.v", "IndexCacheExt.v"]
DEEP = True      # what copyIndex copies in the tree under test (True after "fix: copy the entries in copyIndex")
FIXED = True     # SetIndex caches an index without extension pointers (True after "fix: SetIndex caches an index without ...")
MODELLED = ("storage/filesystem/index.go: IndexStorage.Index, SetIndex, copyIndex; indexcache.go: statIndexCache Get/Set/Clear "
            "(Model/IndexCache.v: heap of entry cells, slices of addresses, stat key); callers' in-place writes "
            "(worktree_status.go doUpdateFileToIndex, Index.SkipUnless, indexBuilder.Write) are the model's OMutate/OReplace/OAppend/ORemove; "
            "the extension pointers Cache / ResolveUndo / EndOfIndexEntry carried by copyIndex, set by the decoder, never written by the encoder "
            "(Model/IndexCacheExt.v: an Index abstracted to 'reports extension data'); not modelled: the worktree operations themselves (exercised with injected faults by suite porc), partial writes of the index file")
TRUSTED = [
    "C-impl: harness/cmd/c20 kind store (filesystem.Storage over memfs; handles are the *index.Index values returned by Index()) vs "
    "Model/IndexCache.trace_q on every case (trace with the harness's observing Index() omitted after quiet steps)",
    "harness/cmd/c20/faultfs.go: billy.Filesystem wrapper failing the k-th filesystem / file call (worktree and .git share the counter)",
]
ASSUMPTIONS = ["every write of .git/index (SetIndex or external) changes its (mtime, size) key: the harness makes external rewrites unique in size "
               "(the premise stated by the property)", "entry names within one index are distinct (sort.Sort is not stable)"]
RULE = ("store: 3-14 operations over {Index, write through a returned entry, replace/append/remove in a returned slice, clear the extension "
        "pointers of a handle, SetIndex, external rewrite with or without a TREE extension, external delete} with up to 4 live handles; porc: two commits, then 3-9 of {write, delete, add, add -A, remove, move, commit, "
        "status, reset hard/mixed/merge, checkout, external rewrite} with a failure injected at the k-th filesystem call (k swept 1..120); "
        "quiet steps (flag q: the harness does not read the index after them) make the history's own next Index() the first reader after an external "
        "rewrite (a cache MISS): store buckets store-miss [warm; external q; Index(); modify the returned value; no SetIndex; Index()] and store-quiet, "
        "porc bucket porc-miss (every faulted worktree operation runs right after a quiet external rewrite); "
        "non-trivial = at least one write through a handle (store) / one injected fault or external rewrite (porc)")

H = lambda b: b.hex()


def gen_store(rng, quiet=False):
    ops = []
    nh = 0
    fresh = [100]
    sizes = {}      # conservative guess of handle lengths (only to aim slots; out-of-range slots are no-ops on both sides)

    def newname():
        fresh[0] += 1
        return fresh[0]
    n = rng.randrange(3, 15)
    if rng.random() < 0.7:
        ents = [[newname(), rng.randrange(1, 200)] for _ in range(rng.randrange(0, 5))]
        rng.shuffle(ents)
        ops.append({"op": "external", "entries": ents, "ext": rng.random() < 0.5})
    for _ in range(n):
        k = pick_weighted(rng, [(4, "index"), (5 if nh else 0, "mutate"), (2 if nh else 0, "replace"), (2 if nh else 0, "append"),
                                (1 if nh else 0, "remove"), (3 if nh else 0, "setindex"), (2, "external"), (0.5, "extdelete"),
                                (0.7 if nh else 0, "drop")])
        h = rng.randrange(nh) if nh else 0
        if k == "index":
            ops.append({"op": "index"})
            nh += 1
        elif k == "mutate":
            ops.append({"op": "mutate", "h": h, "k": rng.randrange(0, 4), "v": rng.randrange(200, 400)})
        elif k == "replace":
            ops.append({"op": "replace", "h": h, "k": rng.randrange(0, 4), "n": newname(), "v": rng.randrange(400, 600)})
        elif k == "append":
            ops.append({"op": "append", "h": h, "n": newname(), "v": rng.randrange(600, 800)})
        elif k == "remove":
            ops.append({"op": "remove", "h": h, "k": rng.randrange(0, 4)})
        elif k == "setindex":
            ops.append({"op": "setindex", "h": h})
        elif k == "external":
            ents = [[newname(), rng.randrange(1, 200)] for _ in range(rng.randrange(0, 5))]
            rng.shuffle(ents)
            ops.append({"op": "external", "entries": ents, "ext": rng.random() < 0.5})
        elif k == "drop":
            ops.append({"op": "drop", "h": h})
        else:
            ops.append({"op": "extdelete"})
    bucket = "store"
    if quiet:
        # quiet steps: the harness does not read the index after them, so the history's own next Index() meets the cache
        # as the operation left it (after an external rewrite: a MISS whose result the history then holds and modifies)
        bucket = "store-quiet"
        for o in ops[:-1]:
            if rng.random() < (0.75 if o["op"] in ("external", "extdelete") else 0.3):
                o["q"] = True
    return {"bucket": bucket, "kind": "store", "ops": ops}


def gen_miss(rng):
    """[warm the cache; external rewrite (unobserved); Index() = MISS; modify the returned value; no SetIndex; Index()]"""
    fresh = [100]

    def newname():
        fresh[0] += 1
        return fresh[0]

    def ents(lo):
        e = [[newname(), rng.randrange(1, 200)] for _ in range(rng.randrange(lo, 5))]
        rng.shuffle(e)
        return e
    ops = []
    nh = 0
    warm = rng.randrange(0, 4)          # 0: cold cache (cache == nil branch of the miss), 1: warm by observation, 2: by Index(), 3: by SetIndex
    if warm:
        ops.append({"op": "external", "entries": ents(0), "ext": rng.random() < 0.5})
        if warm >= 2:
            ops.append({"op": "index"})
            nh += 1
        if warm == 3:
            ops.append({"op": "append", "h": 0, "n": newname(), "v": rng.randrange(600, 800)})
            ops.append({"op": "setindex", "h": 0})
    for rnd in range(rng.randrange(1, 3)):
        if rng.random() < 0.15 and nh:
            ops.append({"op": "extdelete", "q": True})
        ops.append({"op": "external", "entries": ents(1), "ext": rng.random() < 0.5, "q": True})
        ops.append({"op": "index", "q": rng.random() < 0.5})       # the MISS
        h = nh
        nh += 1
        for _ in range(rng.randrange(1, 4)):
            k = pick_weighted(rng, [(4, "mutate"), (2, "replace"), (2, "append"), (2, "remove"), (1, "drop")])
            q = rng.random() < 0.3
            if k == "mutate":
                o = {"op": "mutate", "h": h, "k": rng.randrange(0, 3), "v": rng.randrange(200, 400)}
            elif k == "replace":
                o = {"op": "replace", "h": h, "k": rng.randrange(0, 3), "n": newname(), "v": rng.randrange(400, 600)}
            elif k == "append":
                o = {"op": "append", "h": h, "n": newname(), "v": rng.randrange(600, 800)}
            elif k == "remove":
                o = {"op": "remove", "h": h, "k": rng.randrange(0, 3)}
            else:
                o = {"op": "drop", "h": h}
            if q:
                o["q"] = True
            ops.append(o)
        ops.append({"op": "index"})                                 # no SetIndex: the operation "failed"; read again
        nh += 1
        if rng.random() < 0.3:
            ops.append({"op": "setindex", "h": rng.randrange(nh)})
    return {"bucket": "store-miss", "kind": "store", "ops": ops}


def coq_val(n, v):
    return "(%s, %s)" % (coq_N(n), coq_N(v))


def coq_op(o):
    k = o["op"]
    if k == "index":
        return "OIndex"
    if k == "mutate":
        return "OMutate %d %d %s" % (o["h"], o["k"], coq_N(o["v"]))
    if k == "replace":
        return "OReplace %d %d %s" % (o["h"], o["k"], coq_val(o["n"], o["v"]))
    if k == "append":
        return "OAppend %d %s" % (o["h"], coq_val(o["n"], o["v"]))
    if k == "remove":
        return "ORemove %d %d" % (o["h"], o["k"])
    if k == "setindex":
        return "OSetIndex %d" % o["h"]
    if k == "external":
        return "OExternal %s" % coq_list([coq_val(n, v) for n, v in o["entries"]])
    if k == "drop":
        return "OMutate %d 4000 %s" % (o["h"], coq_N(0))      # nothing happens to the entries (no slice is that long)
    return "OExtDelete"


def coq_eop(o):
    k = o["op"]
    if k == "index":
        return "EIndex"
    if k == "setindex":
        return "ESetIndex %d" % o["h"]
    if k == "drop":
        return "EDrop %d" % o["h"]
    if k == "external":
        return "EExternal %s" % coq_bool(o.get("ext", False))
    if k == "extdelete":
        return "EExtDelete"
    return "ENop"


def split_top(s):
    """'( a b ( c ) )' -> top-level items as strings"""
    items, depth, cur = [], 0, []
    for t in s.split():
        if t == "(":
            depth += 1
            if depth == 1:
                continue
        if t == ")":
            depth -= 1
            if depth == 0:
                continue
        cur.append(t)
        if depth == 1:
            items.append(" ".join(cur))
            cur = []
    return items


class Store(Suite):
    name = "store"
    go_cmd = "c20"
    coq_imports = "From GoGit Require Import Model.IndexCache Model.IndexCacheExt."
    quick_n = 250
    thorough_n = 5000

    def gen(self, rng, n, tier):
        cases = []
        for i in range(n):
            if i % 5 == 3:
                cases.append(gen_miss(rng))
            elif i % 5 == 4:
                cases.append(gen_store(rng, quiet=True))
            else:
                cases.append(gen_store(rng))
        return cases

    def model_expr(self, c):
        q = lambda o: coq_bool(bool(o.get("q")))
        return "OList [c20_store_q %s %s; c20_ext_q %s %s]" % (
            coq_bool(DEEP), coq_list(["(%s, %s)" % (q(o), coq_op(o)) for o in c["ops"]]),
            coq_bool(FIXED), coq_list(["(%s, %s)" % (q(o), coq_eop(o)) for o in c["ops"]]))

    def nontrivial(self, c):
        return any(o["op"] == "mutate" for o in c["ops"])

    def oracle(self, ctx, cases, impl, model):
        """the property itself: after every operation (but the quiet ones, where nothing is read) Index() returns what
        decoding .git/index returns"""
        fails = {}
        for c in cases:
            r = impl.get(c["id"])
            if r is None or r.get("panic"):
                fails[c["id"]] = "no reply / panic"
                continue
            entries, exts = split_top(r["out"])
            for k, step in enumerate(split_top(entries)):
                if step == "quiet" and c["ops"][k].get("q"):
                    continue
                vd = split_top(step)
                if len(vd) != 2 or vd[0] != vd[1]:
                    fails[c["id"]] = "after operation %d (%s): Index() returns %s, the file holds %s" % (k, c["ops"][k]["op"], vd[0][:200], vd[-1][:200])
                    break
            else:
                for k, step in enumerate(split_top(exts)):
                    if step == "quiet" and c["ops"][k].get("q"):
                        continue
                    vd = split_top(step)
                    if len(vd) != 2 or vd[0] != vd[1]:
                        fails[c["id"]] = "after operation %d (%s): extensions: Index() reports %s, the file has %s" % (k, c["ops"][k]["op"], vd[0], vd[-1])
                        break
        return fails

    def finding_class(self, case, reason, reply):
        if "extensions:" in reason:
            return "stale-extensions"
        if any(o["op"] == "mutate" for o in case["ops"]):
            return "shallow-copy-alias"
        return None


FILES = [b"a.txt", b"d/b.txt", b"d/c.txt", b"d/e/f.txt", b"g.txt", b"h/i.txt"]


def gen_porc(rng, k_fault=None, miss=False):
    """miss: every faulted operation runs IMMEDIATELY after an unobserved (quiet) external rewrite of .git/index, so the Index()
    inside the operation is a cache miss and the operation modifies (and, failing, abandons) what that miss returned"""
    files = [[H(n), H(b"one:" + n)] for n in FILES if miss or rng.random() < 0.85]
    files2 = [[n, H(b"two::" + bytes.fromhex(n))] for n, _ in files if rng.random() < 0.4]
    names = [bytes.fromhex(n) for n, _ in files] or [b"a.txt"]
    ops = []
    w = 0

    def arm(fault, kk):
        if miss or rng.random() < 0.25:
            ops.append({"op": "external", "how": rng.choice(["add", "add", "drop", "hash", "tree"]), "v": rng.randrange(1, 60000), "q": True})
        if fault:
            ops.append({"op": "fault", "k": kk})
    for _ in range(rng.randrange(2, 6) if miss else rng.randrange(3, 10)):
        k = pick_weighted(rng, [(4, "edit+add"), (5 if miss else 2, "adddir"), (3 if miss else 1, "addall"), (1, "remove"), (1, "move"), (1, "commit"), (1, "status"),
                                (2, "reset"), (1, "checkout"), (2, "external"), (1, "delete+add")])
        fault = rng.random() < (0.85 if miss else 0.6)
        kk = k_fault if k_fault is not None else rng.randrange(1, 140 if miss else 120)   # Add reaches its first in-memory staging after ~80 calls
        if miss and k == "external":
            k = "adddir"
        if k == "edit+add":
            for nm in rng.sample(names, min(len(names), rng.randrange(1, 3))):
                w += 1
                ops.append({"op": "write", "name": H(nm), "content": H(b"edit%d:" % w + nm + b"!" * w)})
            arm(fault, kk)
            ops.append({"op": "add", "name": H(rng.choice(names))})
        elif k == "adddir":
            for nm in [x for x in names if x.startswith(b"d/")]:
                w += 1
                ops.append({"op": "write", "name": H(nm), "content": H(b"dir%d:" % w + nm + b"#" * w)})
            arm(fault, kk)
            ops.append({"op": "add", "name": H(b"d")})
        elif k == "addall":
            for nm in rng.sample(names, min(len(names), 2)):
                w += 1
                ops.append({"op": "write", "name": H(nm), "content": H(b"all%d:" % w + nm + b"%" * w)})
            w += 1
            ops.append({"op": "write", "name": H(b"new%d.txt" % w), "content": H(b"new file %d" % w)})
            arm(fault, kk)
            ops.append({"op": "addall"})
        elif k == "delete+add":
            nm = rng.choice(names)
            ops.append({"op": "delete", "name": H(nm)})
            arm(fault, kk)
            ops.append({"op": "add", "name": H(nm)})
        elif k == "remove":
            arm(fault, kk)
            ops.append({"op": "remove", "name": H(rng.choice(names + [b"d"]))})
        elif k == "move":
            arm(fault, kk)
            w += 1
            ops.append({"op": "move", "name": H(rng.choice(names)), "to": H(b"moved%d.txt" % w)})
        elif k == "commit":
            arm(fault, kk)
            ops.append({"op": "commit"})
        elif k == "status":
            arm(fault, kk)
            ops.append({"op": "status"})
        elif k == "reset":
            arm(fault, kk)
            ops.append({"op": "reset", "mode": rng.choice(["hard", "mixed", "merge"]), "first": rng.random() < 0.6})
        elif k == "checkout":
            arm(fault, kk)
            ops.append({"op": "checkout", "force": rng.random() < 0.7})
        else:
            ops.append({"op": "external", "how": rng.choice(["add", "drop", "hash", "tree"]), "v": rng.randrange(1, 60000)})
    return {"bucket": "porc-miss" if miss else "porc", "kind": "porc", "files": files, "files2": files2, "ops": ops}


class Porc(Suite):
    """worktree operations with injected failures and external rewrites: direct oracle only (no model of the porcelain)"""
    name = "porc"
    go_cmd = "c20"
    quick_n = 200
    thorough_n = 3000

    def gen(self, rng, n, tier):
        cases = [gen_porc(rng, miss=(i % 4 == 3)) for i in range(n)]
        if tier == "thorough":            # every k for a fixed family of histories
            for k in range(1, 121):
                cases.append(gen_porc(rng, k))
            for k in range(1, 141):       # ... and with every faulted operation right after an external rewrite
                cases.append(gen_porc(rng, k, miss=True))
        return cases

    def model_expr(self, c):
        return None

    def nontrivial(self, c):
        return any(o["op"] in ("fault", "external") for o in c["ops"])

    def oracle(self, ctx, cases, impl, model):
        fails = {}
        self._cls = {}
        stats = {"faults_fired": 0, "ops_failed": 0, "both_fail": 0}
        for c in cases:
            r = impl.get(c["id"])
            if r is None or r.get("panic"):
                fails[c["id"]] = "no reply / panic: %s" % ((r or {}).get("panic", "")[:300])
                continue
            log = r.get("extra") or []
            if log:
                stats["faults_fired"] += log[-1].get("faults_fired", 0)
            for k, e in enumerate(log):
                stats["ops_failed"] += bool(e["err"])
                stats["both_fail"] += e["eq"] == "both_fail"
                if e["eq"] == "quiet" and c["ops"][self._opidx(c, k)].get("q"):
                    continue
                if e["eq"] not in ("equal", "both_fail"):
                    fails[c["id"]] = "after %s (step %d, error %r): %s: %s" % (e["op"], k, e["err"][:80], e["eq"], e["detail"][:300])
                    self._cls[c["id"]] = {"entries_differ": "shallow-copy-alias", "extensions_differ": "stale-extensions"}.get(e["eq"])
                    break
        self.stats = stats
        return fails

    @staticmethod
    def _opidx(c, k):
        """index in c["ops"] of the k-th log entry (fault ops are not logged)"""
        return [i for i, o in enumerate(c["ops"]) if o["op"] != "fault"][k]

    def finding_class(self, case, reason, reply):
        return getattr(self, "_cls", {}).get(case["id"])

    def extra(self, ctx, cases, impl, model):
        return getattr(self, "stats", {})


SUITES = [Store(), Porc()]
