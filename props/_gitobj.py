"""git 2.39.5 as the reference for C02/C03: a scratch repository under ctx.tmp,
objects stored with `hash-object --literally`, payload/signature captured by a
fake gpg.program, fields reported by `git log --format` / `git for-each-ref`.
git is run per object (a malformed object makes git die, which would take a
whole batch with it) on a small thread pool."""
import os
import subprocess
from concurrent.futures import ThreadPoolExecutor

GIT = "/usr/bin/git"
DUMP_SH = r"""#!/bin/sh
# fake gpg / gpgsm / ssh-keygen: dump the payload (stdin) and the signature file into $DUMPDIR
mode=gpg; sig=; prev=; prev2=
for a; do
  case "$a" in find-principals) mode=sshfind;; verify) [ "$prev" = "-Y" ] && mode=sshverify;; check-novalidate) mode=sshverify;; esac
  [ "$prev" = "-s" ] && sig=$a
  prev2=$prev; prev=$a
done
case $mode in
 gpg) sig=$prev2; cp "$sig" "$DUMPDIR/sig"; cat > "$DUMPDIR/payload"
      echo "[GNUPG:] GOODSIG 0123456789ABCDEF t"; exit 0;;
 sshfind) echo "principal"; exit 0;;
 sshverify) cp "$sig" "$DUMPDIR/sig"; cat > "$DUMPDIR/payload"; echo 'Good "git" signature for principal with ED25519 key SHA256:x'; exit 0;;
esac
"""


class GitRepo:
    def __init__(self, tmp, name="gitref", fmt="sha1"):
        self.dir = os.path.join(tmp, name)
        self.aux = os.path.join(tmp, name + "-aux")
        os.makedirs(self.aux, exist_ok=True)
        self.env = {"PATH": os.environ.get("PATH", "/usr/bin:/bin"), "HOME": self.aux, "GIT_CONFIG_NOSYSTEM": "1",
                    "GIT_NO_REPLACE_OBJECTS": "1", "LC_ALL": "C", "TZ": "UTC", "GIT_CONFIG_GLOBAL": "/dev/null"}
        subprocess.run([GIT, "init", "-q", "--object-format=" + fmt, self.dir], env=self.env, check=True,
                       stdout=subprocess.DEVNULL, stderr=subprocess.DEVNULL)
        self.dump = os.path.join(self.aux, "dump.sh")
        with open(self.dump, "w") as f:
            f.write(DUMP_SH)
        os.chmod(self.dump, 0o755)
        self.allowed = os.path.join(self.aux, "allowed_signers")
        open(self.allowed, "w").close()
        self.n = 0

    def git(self, *args, inp=None, env=None, timeout=60):
        e = dict(self.env)
        if env:
            e.update(env)
        p = subprocess.run([GIT, "-C", self.dir] + list(args), input=inp, stdout=subprocess.PIPE, stderr=subprocess.PIPE,
                           env=e, timeout=timeout)
        return p.returncode, p.stdout, p.stderr

    def store(self, typ, raws):
        """store byte strings as objects of type typ (no validation); -> list of oids"""
        if not raws:
            return []
        paths = []
        d = os.path.join(self.aux, "in%d" % self.n)
        self.n += 1
        os.makedirs(d)
        for i, r in enumerate(raws):
            p = os.path.join(d, "%d" % i)
            with open(p, "wb") as f:
                f.write(r)
            paths.append(p)
        rc, out, err = self.git("hash-object", "-t", typ, "-w", "--literally", "--stdin-paths",
                                inp=("\n".join(paths) + "\n").encode(), timeout=600)
        oids = out.decode().split()
        if rc != 0 or len(oids) != len(raws):
            raise RuntimeError("git hash-object failed: %r" % err[:300])
        return oids

    def pmap(self, f, xs, workers=12):
        with ThreadPoolExecutor(max_workers=workers) as ex:
            return list(ex.map(f, xs))

    def verify(self, kind, oid):
        """kind: commit|tag -> (payload, sig) as git hands them to the verifier, or (None, reason)"""
        d = os.path.join(self.aux, "v-" + oid + "-" + kind)
        os.makedirs(d, exist_ok=True)
        rc, out, err = self.git("-c", "gpg.program=" + self.dump, "-c", "gpg.x509.program=" + self.dump,
                                "-c", "gpg.ssh.program=" + self.dump, "-c", "gpg.ssh.allowedSignersFile=" + self.allowed,
                                "verify-" + kind, oid, env={"DUMPDIR": d})
        try:
            with open(os.path.join(d, "payload"), "rb") as f:
                pay = f.read()
            with open(os.path.join(d, "sig"), "rb") as f:
                sig = f.read()
            return pay, sig
        except OSError:
            e = err.decode("utf-8", "replace")
            if rc < 0 or "stack smashing" in e:
                return None, "crash"
            if "no signature found" in e:
                return None, "nosig"
            if "bad/incompatible signature" in e:
                return None, "badformat"
            return None, "refused: " + e.strip()[:120]

    def amend_many(self, oids, workers=6):
        """what git takes the extra headers of root commits to be: `git commit --amend` re-writes the commit from its own parse
        (read_commit_extra_headers, gpgsig excluded).  -> list of new commit bytes, or None where git refuses.  Each worker owns
        a small repository that borrows the objects of this one (HEAD is written directly)."""
        if not oids:
            return []
        subs = []
        for w in range(min(workers, len(oids))):
            d = "%s-amend%d-%d" % (self.dir, self.n, w)
            subprocess.run([GIT, "init", "-q", "--object-format=sha1", d], env=self.env, check=True, stdout=subprocess.DEVNULL, stderr=subprocess.DEVNULL)
            with open(os.path.join(d, ".git", "objects", "info", "alternates"), "w") as f:
                f.write(os.path.join(self.dir, ".git", "objects") + "\n")
            subs.append(d)
        self.n += 1
        env = dict(self.env)
        env.update({"GIT_COMMITTER_NAME": "N", "GIT_COMMITTER_EMAIL": "e@f", "GIT_COMMITTER_DATE": "1700000000 +0000"})

        def run(wk):
            d, mine, out = subs[wk], oids[wk::len(subs)], []
            head = os.path.join(d, ".git", "HEAD")
            for o in mine:
                with open(head, "w") as f:
                    f.write(o + "\n")
                p = subprocess.run([GIT, "-C", d, "commit", "-q", "--amend", "--allow-empty", "--allow-empty-message", "--no-edit",
                                    "--cleanup=verbatim"], env=env, stdout=subprocess.PIPE, stderr=subprocess.PIPE, timeout=60)
                with open(head) as f:
                    new = f.read().strip()
                if p.returncode != 0 or new == o:
                    out.append(None)
                    continue
                q = subprocess.run([GIT, "-C", d, "cat-file", "commit", new], env=env, stdout=subprocess.PIPE, stderr=subprocess.PIPE, timeout=60)
                out.append(q.stdout if q.returncode == 0 else None)
            return out
        res = self.pmap(run, list(range(len(subs))), workers=len(subs))
        merged = [None] * len(oids)
        for wk, out in enumerate(res):
            for j, b in enumerate(out):
                merged[wk + j * len(subs)] = b
        return merged

    LOGFMT = "%T%x00%P%x00%an%x00%ae%x00%ad%x00%cn%x00%ce%x00%cd%x00%e%x00%B"

    def log_fields(self, oid):
        """git's own report of a commit's fields, or None when git refuses the object"""
        rc, out, err = self.git("-c", "i18n.logOutputEncoding=", "-c", "log.mailmap=false", "log", "-1", "--no-walk", "--date=raw",
                                "--no-color", "--no-notes", "--encoding=none" if False else "--no-decorate", "--format=" + self.LOGFMT, oid)
        if rc != 0:
            return None
        f = out.split(b"\0", 9)
        if len(f) != 10:
            return None
        return {"tree": f[0], "parents": f[1].split(), "an": f[2], "ae": f[3], "ad": f[4], "cn": f[5], "ce": f[6], "cd": f[7],
                "enc": f[8], "body": f[9]}

    def log_fields_many(self, oids, expect_ok, max_single=None):
        """fields of many commits: the objects expected to parse go through ONE `git log --stdin`; if git dies on that
        batch (a prediction was wrong) or for the others, git is asked per object.  Every answer is git's own."""
        res = {}
        good = [o for o, e in zip(oids, expect_ok) if e]
        if good:
            uniq = list(dict.fromkeys(good))
            rc, out, err = self.git("-c", "i18n.logOutputEncoding=", "-c", "log.mailmap=false", "log", "--no-walk=unsorted", "--stdin", "-z",
                                    "--date=raw", "--no-color", "--no-notes", "--no-decorate", "--format=%H%x00" + self.LOGFMT,
                                    inp=("\n".join(uniq) + "\n").encode(), timeout=600)
            f = out.split(b"\0")
            if rc == 0 and len(f) == 11 * len(uniq) + 1:
                for k in range(len(uniq)):
                    h, t, p, an, ae, ad, cn, ce, cd, enc, body = f[11 * k: 11 * k + 11]
                    res[h.decode()] = {"tree": t, "parents": p.split(), "an": an, "ae": ae, "ad": ad, "cn": cn, "ce": ce, "cd": cd,
                                       "enc": enc, "body": body + b"\n"}
        rest = [o for o in dict.fromkeys(oids) if o not in res]
        skipped = rest[max_single:] if max_single is not None else []
        rest = rest[:max_single] if max_single is not None else rest
        for o, r in zip(rest, self.pmap(self.log_fields, rest)):
            res[o] = r
        return [res.get(o, "unasked") for o in oids]

    def tag_fields_many(self, oids, expect_ok, prefix, max_single=None):
        res = {}
        good = list(dict.fromkeys(o for o, e in zip(oids, expect_ok) if e))
        if good:
            ns = "refs/tags/%s" % prefix
            upd = "".join("create %s/%s %s\n" % (ns, o, o) for o in good)
            rc, out, err = self.git("update-ref", "--stdin", inp=upd.encode(), timeout=600)
            if rc == 0:
                rc, out, err = self.git("for-each-ref", "--format=%(refname)%00" + self.TAGFMT + "%00", ns + "/", timeout=600)
                f = out.split(b"\0")
                if rc == 0 and len(f) == 8 * len(good) + 1:
                    for k in range(len(good)):
                        ref, ob, ty, tg, tn, te, td, contents = f[8 * k: 8 * k + 8]
                        res[ref.decode().strip().rsplit("/", 1)[1]] = {"object": ob, "type": ty, "tag": tg, "tn": tn, "te": te, "td": td,
                                                                        "contents": contents + b"\n"}
        rest = [o for o in dict.fromkeys(oids) if o not in res]
        rest = rest[:max_single] if max_single is not None else rest
        for o, r in zip(rest, self.pmap(lambda io: self.tag_fields(io[1], "refs/tags/%s-single/%d" % (prefix, io[0])), list(enumerate(rest)))):
            res[o] = r
        return [res.get(o, "unasked") for o in oids]

    TAGFMT = "%(object)%00%(type)%00%(tag)%00%(taggername)%00%(taggeremail)%00%(taggerdate:raw)%00%(contents)"

    def tag_fields(self, oid, ref):
        rc, out, err = self.git("update-ref", ref, oid)
        if rc != 0:
            return None
        rc, out, err = self.git("for-each-ref", "--format=" + self.TAGFMT, ref)
        if rc != 0:
            return None
        f = out.split(b"\0", 6)
        if len(f) != 7:
            return None
        return {"object": f[0], "type": f[1], "tag": f[2], "tn": f[3], "te": f[4], "td": f[5], "contents": f[6]}
