"""C46 Blame attributes lines the way git does (DESIGN.md §4.C46) — partial by design."""
import os
import re
from vf import core
from vf.core import Suite
from vf.gen import pick_weighted
from props import _b17 as U

ID = "C46"
THEOREMS = ["C46_total", "C46_sound", "C46_step", "C46_result"]
MODEL_FILES = ["Blame.v"]
MODELLED = ("blame.go: Blame/addBlames/finishNeeds/applyNeeds as the attribution function 'a line goes to the first parent "
            "(parent order, parents containing the path) where the line-diff oracle marks it Equal, every line to an "
            "identical parent blob, otherwise it is charged to the commit' (Model/Blame.v blame_pos). Not modelled: the "
            "priority queue, merging of queue items, IdenticalToChild/ MergedChildren short cuts, numParentsNeedResolving "
            "(evaluation strategy — exercised by C-impl on linear and merge histories), rename following in "
            "parentsContainingPath, sergi/go-diff (its answers are recorded per edge in the case and checked against the "
            "oracle contract by the model)")
TRUSTED = [
    "C-impl: git.Blame on in-memory commits (harness/cmd/c46) vs Model/Blame c46_run with the go-diff answers of the same source tree recorded per (parent, child) edge",
    "direct oracle: every line's attributed commit contains that line and, on histories whose versions are sub-sequences of one universe of pairwise distinct lines (unique alignment), the attribution equals git blame --porcelain (git 2.39.5)",
]
ASSUMPTIONS = ["the line-diff oracle is consistent: Equal/Delete counts cover the parent version, Equal/Add counts cover the child, Equal runs join equal lines (boolean oracle_ok, evaluated on every case)",
               "equality with git blame is claimed only where the alignment of versions is unique; other histories are compared with the model and checked for soundness only (counted as ambiguous)"]
RULE = ("case = history of one file: 2..10 commits, linear / branching / merges (2-3 parents), commit times increasing / equal / skewed, "
        "file absent in some commits; buckets distinct-* (unique alignment, compared with git) and dup-* (duplicated, moved, re-added "
        "lines; model + soundness only); non-trivial = at least two versions differ; distinct by content")

BUCKETS = [(3, "distinct-linear"), (3, "distinct-merge"), (1, "distinct-merge-big"), (1, "distinct-merge-skew"),
           (1, "distinct-merge-equaltime"), (1, "distinct-merge-absent"), (3, "distinct-twin-merge"), (1, "distinct-twin-merge-equaltime"), (2, "dup-linear"), (3, "dup-merge"), (1, "dup-merge-absent"),
           (1, "dup-merge-skew")]


def edges_of(case):
    out = []
    for ci, c in enumerate(case["commits"]):
        if c["content"] is None:
            continue
        for p in c["parents"]:
            pc = case["commits"][p]["content"]
            if pc is not None and pc != c["content"] and (p, ci) not in out:
                out.append((p, ci))
    return out


def record_diffs(cases):
    """ask the implementation's line-diff oracle (utils/diff.Do) for the shape of every edge"""
    reqs, where = [], []
    for k, c in enumerate(cases):
        es = edges_of(c)
        if es:
            reqs.append({"id": len(reqs), "mode": "diff",
                         "pairs": [[c["commits"][p]["content"], c["commits"][ci]["content"]] for p, ci in es]})
            where.append((k, es))
        c["diffs"] = []
    if not reqs:
        return
    r = core.run_impl("c46", reqs)
    for q, (k, es) in zip(reqs, where):
        ds = ((r.get(q["id"]) or {}).get("extra") or {}).get("diffs") or []
        cases[k]["diffs"] = [[p, ci, d] for (p, ci), d in zip(es, ds)]


class Main(Suite):
    name = "main"
    go_cmd = "c46"
    coq_imports = "From GoGit Require Import Model.Blame."
    quick_n = 240
    thorough_n = 1500
    coq_chunk = 80

    def gen(self, rng, n, tier):
        cases = []
        for _ in range(n):
            b = pick_weighted(rng, BUCKETS)
            h = U.gen_history(rng, b)
            cases.append(dict(h, bucket=b, mode="blame"))
        record_diffs(cases)
        return cases

    def model_expr(self, c):
        cs = []
        for k in c["commits"]:
            cs.append("mk_commit [%s] %s" % ("; ".join("%d%%N" % p for p in k["parents"]),
                                               "None" if k["content"] is None else '(Some "%s")' % k["content"]))
        es = []
        for p, ci, d in c.get("diffs", []):
            es.append("mk_edge %d%%N %d%%N [%s]" % (p, ci, "; ".join("(%d%%N, %d%%N)" % (o, n) for o, n in d)))
        return "c46_run [%s] [%s] %d%%N" % ("; ".join(cs), "; ".join(es), c["head"])

    def nontrivial(self, c):
        return len(set(k["content"] for k in c["commits"])) > 1

    @staticmethod
    def unique_alignment(c):
        """every version has pairwise distinct lines and any two versions list their common lines in the same order"""
        vs = []
        for k in c["commits"]:
            if k["content"] is not None:
                ls = U.split_keep(bytes.fromhex(k["content"]))
                ls = [l.rstrip(b"\n") for l in ls]
                if len(set(ls)) != len(ls):
                    return False
                vs.append(ls)
        for i in range(len(vs)):
            for j in range(i + 1, len(vs)):
                sj = set(vs[j])
                si = set(vs[i])
                if [x for x in vs[i] if x in sj] != [x for x in vs[j] if x in si]:
                    return False
        return True

    def oracle(self, ctx, cases, impl, model):
        fails = {}
        repo = U.Repo(os.path.join(ctx.tmp, "c46-%d" % len(cases)))
        stats = {"git_compared": 0, "ambiguous_skipped": 0, "differs_from_git_on_ambiguous": 0}
        for c in cases:
            r = impl.get(c["id"])
            if r is None or r.get("panic"):
                continue
            e = r.get("extra") or {}
            head = c["commits"][c["head"]]
            if "who" not in e:
                fails[c["id"]] = "Blame failed: %s" % e.get("error")
                continue
            who = e["who"] or []
            lines = [bytes.fromhex(x) for x in e["lines"] or []]
            want_lines = [l.rstrip(b"\n") for l in U.split_keep(bytes.fromhex(head["content"]))]
            if lines != want_lines:
                fails[c["id"]] = "blame lists %d lines, the file has %d (or their text differs)" % (len(lines), len(want_lines))
                continue
            why = None
            for n, (l, w) in enumerate(zip(lines, who)):
                cont = c["commits"][w]["content"] if 0 <= w < len(c["commits"]) else None
                if cont is None or l not in [x.rstrip(b"\n") for x in U.split_keep(bytes.fromhex(cont))]:
                    why = "line %d is attributed to commit %d whose version of the file does not contain it" % (n + 1, w)
                    break
            if why:
                fails[c["id"]] = why
                continue
            # git
            ids = []
            for k in c["commits"]:
                es = [U.F("keep", b"keep\n")]
                if k["content"] is not None:
                    es.append(U.F("f", bytes.fromhex(k["content"])))
                th = repo.put_tree(U.canon(es))
                ids.append(repo.put_commit(th, [ids[p] for p in k["parents"]], k["when"], msg=b"c%d\n" % len(ids)))
            if e.get("ids") != ids:
                fails[c["id"]] = "commit ids differ between go-git and python/git"
                continue
            if not self.unique_alignment(c):
                stats["ambiguous_skipped"] += 1
                continue
            p = repo.git(["blame", "--porcelain", ids[c["head"]], "--", "f"])
            if p.returncode != 0:
                ctx.notes.append("git blame failed on case %s: %s" % (c["id"], p.stderr[-100:]))
                continue
            gwho = []
            for ln in p.stdout.split(b"\n"):
                m = re.match(rb"^([0-9a-f]{40}) \d+ \d+", ln)
                if m:
                    gwho.append(ids.index(m.group(1).decode()))
            stats["git_compared"] += 1
            if gwho != who:
                fails[c["id"]] = "attribution differs from git blame on a history with a unique alignment: go-git %r, git %r" % (who, gwho)
        self.stats = stats
        return fails

    def extra(self, ctx, cases, impl, model):
        return getattr(self, "stats", {})


SUITES = [Main()]
