"""C33 Linked worktrees are isolated and recognised by git (DESIGN.md §4.C33)."""
import os
import subprocess
from vf.core import Suite, coq_bool
from vf.gen import pick_weighted

ID = "C33"
THEOREMS = ["C33_isolated", "C33_shared", "C33_own_read", "C33_common_keeps_private", "C33_private_paths",
            "C33_common_paths", "C33_routing_eq_families", "C33_per_worktree_refs_refuted", "C33_bisect_refuted",
            "C33_routing_refuted", "C33_add_files", "C33_open_pointer_never_main", "C33_open_gone_fails",
            "C33_gitdir_files_are_pointers"]
MODEL_FILES = ["WtRoute.v"]
MODELLED = ("storage/filesystem/dotgit/repository_filesystem.go mapToRepositoryFsByPath for clean relative paths (exact "
            "exceptions, first path element) and the dual filesystem it induces; x/plumbing/worktree Add: name rule and "
            "the commondir / gitdir / HEAD / .git files; Worktree.Open / getDualFS: parsing of the worktree's .git file "
            "(1024-byte limit, 9-byte minimum, the `gitdir` prefix, TrimSpace, relative pointers) and the decision "
            "dual filesystem / main storage / error (Model/WtRoute.v); spec: git's path.c common_list with longest "
            "match and .lock stripping (Spec/GitCommonDir.v); not modelled: absolute paths and filepath.Clean, "
            "Checkout into the new worktree (C25), Remove/List/Init, the storage behind the filesystem")
TRUSTED = [
    "C-impl route suite: dotgit.NewRepositoryFilesystem over two in-memory filesystems, Create(path), where the file lands vs Model/WtRoute.go_common",
    "C-git route suite: Spec/GitCommonDir.git_common vs `git rev-parse --git-path` inside a linked worktree on every case",
    "layout suite: worktree.Add on a repository built by git vs Model/WtRoute.add_files; `git worktree list --porcelain`, "
    "`git status`, `git fsck` in the new worktree; isolation scenarios (go-git commits / checkouts / tags in one linked "
    "worktree) observed through git in every worktree",
]
ASSUMPTIONS = ["git's common-directory rules are as Spec/GitCommonDir says (validated against the git binary on each run)",
               "paths handed to the repository filesystem are relative and clean (what dotgit passes)"]
RULE = ("route cases = relative paths built from the names git and go-git know (HEAD, index, logs/HEAD, refs/bisect/..., "
        "info/sparse-checkout, *.lock, objects/..., worktrees/...) plus near misses and random joins; layout cases = "
        "worktree names (valid and invalid) x detached; isolation = random go-git operation sequences in one worktree; "
        "non-trivial = all; distinct by content")

NAMES = ["HEAD", "index", "ORIG_HEAD", "FETCH_HEAD", "MERGE_HEAD", "CHERRY_PICK_HEAD", "logs", "logs/HEAD", "logs/HEAD.lock",
         "logs/refs/heads/x", "logs/refs/bisect", "logs/refs/bisect/x", "logs/refs/worktree/x", "logs/refs/rewritten/x",
         "refs", "refs/heads/x", "refs/heads/a/b", "refs/tags/v1", "refs/remotes/origin/main", "refs/bisect", "refs/bisect/bad",
         "refs/bisect/good-1", "refs/worktree", "refs/worktree/foo", "refs/rewritten", "refs/rewritten/onto", "refs/bisectx",
         "refs/stash", "refs/notes/commits", "objects", "objects/ab/cdef", "objects/info/alternates", "objects/pack/p.pack",
         "info", "info/exclude", "info/sparse-checkout", "info/sparse-checkout.lock", "info/grafts", "info/attributes",
         "hooks/pre-commit", "config", "config.lock", "config.worktree", "configx", "packed-refs", "packed-refs.lock",
         "packed-refs.new", "shallow", "shallow.lock", "branches/x", "remotes/x", "worktrees", "worktrees/w/HEAD",
         "common/x", "lost-found/x", "rr-cache/x", "svn/x", "gc.pid", "gc.pid.lock", "description", "modules/sub/HEAD",
         "rebase-merge/head-name", "sequencer/todo", "index.lock", "HEAD.lock", "logsx/HEAD", "objectsx", "refsx/heads/x",
         "a", "logs/refs", "logs/refs/remotes/o/m", "refs/heads", "COMMIT_EDITMSG", "BISECT_LOG", "AUTO_MERGE"]
FILES = {"config", "packed-refs", "shallow", "HEAD", "index", "logs/HEAD", "info/sparse-checkout", "gc.pid"}
PARTS = ["refs", "logs", "bisect", "worktree", "rewritten", "heads", "HEAD", "info", "objects", "config", "x", "sparse-checkout",
         "packed-refs", "shallow", "hooks", "common", "index", "worktrees", "a.lock", "lost-found"]


class Route(Suite):
    name = "route"
    go_cmd = "c33"
    coq_imports = "From GoGit Require Import Model.WtRoute Spec.GitCommonDir."
    quick_n = 160
    thorough_n = 3000

    def gen(self, rng, n, tier):
        cases = [{"bucket": "known", "op": "route", "path": p.encode().hex()} for p in NAMES]
        while len(cases) < n + len(NAMES) // 2:
            k = rng.choice([1, 2, 2, 3, 3, 4])
            p = "/".join(rng.choice(PARTS) for _ in range(k))
            comps = p.split("/")
            # a regular file of the layout cannot have children: such paths cannot exist in a repository
            if any("/".join(comps[:i]) in FILES or comps[i - 1].endswith(".lock") for i in range(1, len(comps))):
                continue
            cases.append({"bucket": "joined", "op": "route", "path": p.encode().hex()})
        return cases

    def model_expr(self, c):
        return 'c33_route "%s"' % c["path"]

    def _git(self, ctx, cases):
        """-> {id: 'common'|'private'} by `git rev-parse --git-path` in a linked worktree"""
        d = os.path.join(ctx.tmp, "route-%d" % len(os.listdir(ctx.tmp)))
        os.makedirs(d)
        env = {"PATH": "/usr/bin:/bin", "HOME": d, "GIT_CONFIG_NOSYSTEM": "1", "GIT_CONFIG_GLOBAL": "/dev/null",
               "GIT_AUTHOR_NAME": "v", "GIT_AUTHOR_EMAIL": "v@v", "GIT_COMMITTER_NAME": "v", "GIT_COMMITTER_EMAIL": "v@v"}
        run = lambda args, cwd: subprocess.run(["/usr/bin/git"] + args, cwd=cwd, env=env, stdout=subprocess.PIPE, stderr=subprocess.PIPE, timeout=120, check=True).stdout
        m = os.path.join(d, "m")
        os.makedirs(m)
        run(["init", "-q", "."], m)
        run(["commit", "-q", "--allow-empty", "-m", "c"], m)
        run(["worktree", "add", "-q", "../lw"], m)
        args = ["rev-parse"]
        for c in cases:
            args += ["--git-path", bytes.fromhex(c["path"]).decode()]
        out = run(args, os.path.join(d, "lw")).decode().split("\n")
        res = {}
        for c, line in zip(cases, out):
            res[c["id"]] = "private" if "/worktrees/lw/" in line or line.endswith("/worktrees/lw") else "common"
        return res

    def oracle(self, ctx, cases, impl, model):
        """the property on the implementation: a path is routed to the common directory exactly when git shares it"""
        ref = self._git(ctx, cases)
        self._ref = ref
        fails = {}
        for c in cases:
            r = impl.get(c["id"])
            if r is None or r["out"] != ref[c["id"]]:
                fails[c["id"]] = "path %s routed %s by go-git, %s by git" % (bytes.fromhex(c["path"]).decode(), r and r["out"], ref[c["id"]])
        return fails

    def finding_class(self, c, reason, reply):
        p = bytes.fromhex(c["path"]).decode()
        for d in ("refs/bisect/", "refs/worktree/", "refs/rewritten/"):
            if p.startswith(d):
                return "per-worktree-refs"
            if p.startswith("logs/" + d) or p == "logs/" + d[:-1]:
                return "per-worktree-reflogs"
        if p in ("info/sparse-checkout", "info/sparse-checkout.lock"):
            return "sparse-checkout-file"
        if p.endswith(".lock") and p[:-5] in ("config", "packed-refs", "shallow", "logs/HEAD", "refs/bisect", "refs/worktree", "refs/rewritten"):
            return "lock-files"
        if p.split("/")[0] in ("common", "lost-found", "rr-cache", "svn") or p in ("gc.pid", "gc.pid.lock"):
            return "other-common-names"
        return None

    def extra(self, ctx, cases, impl, model):
        outs = ctx.coq_eval(self.coq_imports, ['c33_git_route "%s"' % c["path"] for c in cases])
        bad = 0
        for c, o in zip(cases, outs):
            if o != self._ref[c["id"]]:
                bad += 1
                ctx.notes.append("spec_mismatch GitCommonDir vs git on %s: %s vs %s" % (bytes.fromhex(c["path"]).decode(), o, self._ref[c["id"]]))
        return {"spec_vs_git_cases": len(cases), "spec_mismatches": bad}


class Layout(Suite):
    name = "layout"
    go_cmd = "c33"
    coq_imports = "From GoGit Require Import Model.WtRoute."
    quick_n = 14
    thorough_n = 50

    def gen(self, rng, n, tier):
        cases = []
        names = ["lw1", "a-b", "X9", "feature", "w", "-x", "0"]
        bad = ["a/b", "a b", "", "a.b", "é", "a_b", ".."]
        # Remove -> Open again, and damaged admin data: every family in every run (both tiers)
        damages = ["removed", "admin-deleted", "dotgit-dangling", "dotgit-elsewhere", "dotgit-relative", "dotgit-relative-gone",
                   "dotgit-crlf", "gitdir-missing", "gitdir-dangling", "gitdir-elsewhere", "commondir-missing",
                   "commondir-dangling", "commondir-elsewhere", "head-missing", "none"]
        reps = 1 if tier == "quick" else 4
        for d in damages * reps:
            steps = [rng.choice(["commit", "reset", "add", "checkout"]) for _ in range(rng.randrange(1, 4))]
            if d in ("removed", "admin-deleted") and "commit" not in steps:
                steps.insert(0, "commit")
            cases.append({"bucket": "reopen-" + d, "op": "reopen", "damage": d, "steps": steps})
        for k in range(n):
            r = k % 7
            if r < 3:
                cases.append({"bucket": "layout", "op": "layout", "name": rng.choice(names), "detached": rng.random() < 0.4})
            elif r == 3:
                cases.append({"bucket": "layout-badname", "op": "layout", "name": rng.choice(bad), "detached": False})
            else:
                steps = [rng.choice(["commit", "branch", "tag", "reset", "commit"]) for _ in range(rng.randrange(1, 5))]
                steps = [x for i, x in enumerate(steps) if x != "branch" or "branch" not in steps[:i]]   # one new branch per scenario
                if rng.random() < 0.5:
                    steps.append("modify")
                cases.append({"bucket": "isolation", "op": "isolation", "steps": steps})
        return cases

    def model_expr(self, c):
        if c["op"] == "reopen":
            hx = lambda b: '"%s"' % b.hex()
            d = c["damage"]
            admin = b"/R/w/.git/worktrees/wa"
            dotgit = {"dotgit-dangling": b"gitdir: /R/w/.git/worktrees/nosuch\n", "dotgit-elsewhere": b"gitdir: /R/other/.git/worktrees/wa\n",
                      "dotgit-relative": b"gitdir: ../w/.git/worktrees/wa\n", "dotgit-relative-gone": b"gitdir: ../w/.git/worktrees/wa\n",
                      "dotgit-crlf": b"gitdir: " + admin + b" \r\n"}.get(d, b"gitdir: " + admin + b"\n")
            ok = d not in ("removed", "admin-deleted", "dotgit-dangling", "dotgit-elsewhere", "dotgit-relative-gone", "head-missing")
            return "c33_open %s (Some %s) %s" % (hx(b"/R/wa"), hx(dotgit), coq_bool(ok))
        if c["op"] != "layout":
            return None
        hx = lambda s: '"%s"' % s.encode().hex()
        return "c33_layout %s %s %s %s" % (hx(c["name"]), hx("$R/lw-" + c["name"]), hx("$R/w/.git"), coq_bool(c["detached"]))

    def oracle(self, ctx, cases, impl, model):
        """git lists and can use the worktree go-git created; operations in one worktree leave the others' HEAD, index
        and files alone while refs are shared"""
        fails = {}
        for c in cases:
            r = impl.get(c["id"])
            ex = r.get("extra") if r else None
            if r is None:
                fails[c["id"]] = "no reply"
                continue
            if c["op"] == "layout":
                if r["out"].startswith("( err"):
                    import re
                    if re.match(r"^[a-zA-Z0-9\-]+$", c["name"]) and (c["detached"] or not c["name"].startswith("-")):
                        fails[c["id"]] = "Add failed for a valid name: %s" % ex
                    continue
                want = "worktree $R/lw-%s\nHEAD %s\n%s\n" % (c["name"], ex["commit"], "detached" if c["detached"] else "branch refs/heads/" + c["name"])
                why = []
                if want not in ex.get("worktree_list", ""):
                    why.append("git worktree list does not show it: %r" % ex.get("worktree_list"))
                lw, mainr = ex["lw"], ex["main"]
                if lw["head"] != ex["commit"] or lw["status"] != "" or lw["files"] != mainr["files"] or lw["index"] != mainr["index"]:
                    why.append("git in the new worktree: head %s status %r files %s" % (lw["head"], lw["status"], lw["files"]))
                if mainr["branch"] != "refs/heads/main" or mainr["status"] != "":
                    why.append("main worktree disturbed: %s" % mainr)
                if ex.get("fsck_err") or ex.get("worktree_list_err"):
                    why.append("git error: %s %s" % (ex.get("fsck_err"), ex.get("worktree_list_err")))
                if why:
                    fails[c["id"]] = "; ".join(why)
            elif c["op"] == "reopen":
                # either Open fails, or nothing done through the returned repository changes any OTHER worktree's
                # HEAD, branch, index, files or status (observed through git)
                if not isinstance(ex, dict) or "after" not in ex:
                    fails[c["id"]] = "scenario failed: %s %s" % (r["out"], ex)
                    continue
                why = []
                for n in ("main", "wb"):
                    if ex["before"][n] != ex["after"][n]:
                        diff = {k: (str(ex["before"][n][k])[:80], str(ex["after"][n][k])[:80]) for k in ex["before"][n] if ex["before"][n][k] != ex["after"][n][k]}
                        why.append("worktree %s changed through the re-opened wa (%s, opened as %s): %s" % (n, c["damage"], r["out"], diff))
                if c["damage"] in ("none", "dotgit-crlf", "dotgit-relative") and r["out"] != "dual":
                    why.append("an intact linked worktree is not opened on its own admin directory: %s %s" % (r["out"], ex.get("open_err")))
                if why:
                    fails[c["id"]] = "; ".join(why)[:700]
            else:
                if not isinstance(ex, dict) or "after" not in ex:
                    fails[c["id"]] = "scenario failed: %s %s" % (r["out"], ex)
                    continue
                why = []
                for n in ("main", "wb"):
                    if ex["before"][n] != ex["after"][n]:
                        why.append("worktree %s changed by operations in wa: %s -> %s" % (n, ex["before"][n], ex["after"][n]))
                if ex["refs_from_main"] != ex["refs_from_wb"]:
                    why.append("refs differ between worktrees")
                a = ex["after"]["wa"]
                if "commit" in c["steps"] and a["head"] == ex["before"]["wa"]["head"]:
                    why.append("commit in wa did not advance its HEAD")
                if ("refs/heads/wa " + (a["head"] if "branch" not in c["steps"] else "")) not in ex["refs_from_main"] and "branch" not in c["steps"]:
                    why.append("branch wa not visible from main with wa's HEAD")
                if "tag" in c["steps"] and "refs/tags/t" not in ex["refs_from_wb"]:
                    why.append("tag created in wa not visible from wb")
                if ex.get("fsck_err") or ex.get("worktree_list_err") or ex.get("step_err"):
                    why.append("error: %s %s %s" % (ex.get("fsck_err"), ex.get("worktree_list_err"), ex.get("step_err")))
                if a["status"].startswith("error"):
                    why.append("git cannot use wa: " + a["status"])
                if why:
                    fails[c["id"]] = "; ".join(why)[:600]
        return fails


SUITES = [Route(), Layout()]
