"""Pack file helpers shared by props/C08.py and props/C09.py: a pack builder with lies, an independent
python resolver (zlib + delta application), git drivers, and the zlib table for the model."""
import hashlib
import json
import os
import struct
import subprocess
import zlib

from vf import core

TYPES = {1: "commit", 2: "tree", 3: "blob", 4: "tag", 6: "ofs-delta", 7: "ref-delta"}
TNUM = {v: k for k, v in TYPES.items()}


def H(hs, data):
    return (hashlib.sha256 if hs == 32 else hashlib.sha1)(data).digest()


def oid(hs, typ, content):
    return H(hs, typ.encode() + b" " + str(len(content)).encode() + b"\0" + content)


# ------------------------------------------------------------------ encoding

def entry_header(tnum, size):
    b = [(tnum << 4) | (size & 15)]
    size >>= 4
    while size:
        b[-1] |= 0x80
        b.append(size & 0x7f)
        size >>= 7
    return bytes(b)


def ofs_varint(n):
    b = [n & 0x7f]
    n >>= 7
    while n:
        n -= 1
        b.insert(0, 0x80 | (n & 0x7f))
        n >>= 7
    return bytes(b)


def leb(n):
    out = []
    while True:
        b = n & 0x7f
        n >>= 7
        if n == 0:
            out.append(b)
            return bytes(out)
        out.append(b | 0x80)


def deflate(data, level=6, stored=False):
    if stored:
        co = zlib.compressobj(0)
        return co.compress(data) + co.flush()
    return zlib.compress(data, level)


def mk_delta(src, tgt, ops=None, src_size=None, tgt_size=None):
    """ops: list of ("copy", off, size) / ("ins", bytes); default: a naive delta (common prefix copy + insert)"""
    if ops is None:
        k = 0
        while k < min(len(src), len(tgt)) and src[k] == tgt[k]:
            k += 1
        ops = []
        if k:
            ops.append(("copy", 0, k))
        rest = tgt[k:]
        while rest:
            ops.append(("ins", rest[:127]))
            rest = rest[127:]
    out = leb(len(src) if src_size is None else src_size) + leb(len(tgt) if tgt_size is None else tgt_size)
    for op in ops:
        if op[0] == "copy":
            _, off, size = op
            cmd, args = 0x80, b""
            for i in range(4):
                byte = (off >> (8 * i)) & 0xff
                if byte:
                    cmd |= 1 << i
                    args += bytes([byte])
            sz = 0 if size == 0x10000 else size
            for i in range(3):
                byte = (sz >> (8 * i)) & 0xff
                if byte:
                    cmd |= 0x10 << i
                    args += bytes([byte])
            out += bytes([cmd]) + args
        elif op[0] == "ins":
            out += bytes([len(op[1])]) + op[1]
        else:  # raw bytes
            out += op[1]
    return out


class PackBuilder:
    """entries are appended with explicit control over every field (so that every lie can be told)"""

    def __init__(self, hs=20):
        self.hs = hs
        self.body = b""
        self.count = 0
        self.offsets = []

    def pos(self):
        return 12 + len(self.body)

    def add_raw(self, raw):
        self.offsets.append(self.pos())
        self.body += raw
        self.count += 1
        return self.offsets[-1]

    def add(self, typ, content, declared=None, z=None, level=6, stored=False):
        raw = entry_header(TNUM[typ], len(content) if declared is None else declared)
        raw += deflate(content, level, stored) if z is None else z
        return self.add_raw(raw)

    def add_ofs(self, base_off, delta, declared=None, neg=None, z=None):
        here = self.pos()
        raw = entry_header(6, len(delta) if declared is None else declared)
        raw += ofs_varint(here - base_off if neg is None else neg)
        raw += deflate(delta) if z is None else z
        return self.add_raw(raw)

    def add_ref(self, base_id, delta, declared=None, z=None):
        raw = entry_header(7, len(delta) if declared is None else declared) + base_id
        raw += deflate(delta) if z is None else z
        return self.add_raw(raw)

    def build(self, count=None, trailer=None, version=2, sig=b"PACK", extra=b""):
        head = sig + struct.pack(">II", version, self.count if count is None else count)
        data = head + self.body
        return data + (H(self.hs, data) if trailer is None else trailer) + extra


def fix_trailer(pack, hs=20):
    return pack[:-hs] + H(hs, pack[:-hs])


# ------------------------------------------------------------------ independent resolver

class PyPack:
    """sequential parse with python's zlib; entries: dict offset -> info"""

    def __init__(self, pack, hs=20):
        self.pack, self.hs = pack, hs
        self.entries = []
        self.error = None
        try:
            self._scan()
        except Exception as e:  # any structural problem
            self.error = "%s: %s" % (type(e).__name__, e)

    def _scan(self):
        p, hs = self.pack, self.hs
        if p[:4] != b"PACK" or len(p) < 12 + hs:
            raise ValueError("header")
        ver, count = struct.unpack(">II", p[4:12])
        if ver != 2:
            raise ValueError("version")
        pos = 12
        for _ in range(count):
            start = pos
            b = p[pos]
            pos += 1
            t = (b >> 4) & 7
            size = b & 15
            shift = 4
            while b & 0x80:
                b = p[pos]
                pos += 1
                size |= (b & 0x7f) << shift
                shift += 7
            e = {"off": start, "t": t, "size": size}
            if t == 6:
                b = p[pos]
                pos += 1
                n = b & 0x7f
                while b & 0x80:
                    b = p[pos]
                    pos += 1
                    n = ((n + 1) << 7) | (b & 0x7f)
                e["base_off"] = start - n
            elif t == 7:
                e["base_id"] = p[pos:pos + hs]
                pos += hs
            elif t not in (1, 2, 3, 4):
                raise ValueError("type %d" % t)
            d = zlib.decompressobj()
            data = d.decompress(p[pos:])
            if not d.eof:
                raise ValueError("zlib truncated")
            pos = len(p) - len(d.unused_data)
            e["data"], e["end"] = data, pos
            e["crc"] = zlib.crc32(p[start:pos]) & 0xffffffff
            self.entries.append(e)
        self.end = pos
        self.trailer_ok = p[pos:pos + hs] == H(hs, p[:pos])
        self.junk = len(p) - pos - hs

    def resolve(self, store=None):
        """-> list of (off, type name, content, id) for entries that resolve; iterates to a fix-point"""
        hs = self.hs
        by_off = {e["off"]: e for e in self.entries}
        done = {}
        by_id = {}
        for e in self.entries:
            if e["t"] in (1, 2, 3, 4):
                typ = TYPES[e["t"]]
                done[e["off"]] = (typ, e["data"])
                by_id.setdefault(oid(hs, typ, e["data"]), (typ, e["data"]))
        for i, (typ, c) in (store or {}).items():
            by_id.setdefault(i, (typ, c))
        progress = True
        while progress:
            progress = False
            for e in self.entries:
                if e["off"] in done or e["t"] not in (6, 7):
                    continue
                base = done.get(e["base_off"]) if e["t"] == 6 else by_id.get(e["base_id"])
                if base is None:
                    continue
                tgt = apply_delta(base[1], e["data"])
                if tgt is None:
                    done[e["off"]] = None
                else:
                    done[e["off"]] = (base[0], tgt)
                    by_id.setdefault(oid(hs, base[0], tgt), (base[0], tgt))
                progress = True
        out = []
        for e in self.entries:
            r = done.get(e["off"])
            if r:
                out.append((e["off"], r[0], r[1], oid(hs, r[0], r[1])))
        return out


def apply_delta(src, delta):
    """git's patch_delta; None when git would reject the delta"""
    try:
        pos = 0

        def rd():
            nonlocal pos
            n = shift = 0
            while True:
                b = delta[pos]
                pos += 1
                n |= (b & 0x7f) << shift
                shift += 7
                if not b & 0x80:
                    return n
        ss, ts = rd(), rd()
        if ss != len(src):
            return None
        out = bytearray()
        while pos < len(delta):
            cmd = delta[pos]
            pos += 1
            if cmd & 0x80:
                off = size = 0
                for i in range(4):
                    if cmd & (1 << i):
                        off |= delta[pos] << (8 * i)
                        pos += 1
                for i in range(3):
                    if cmd & (0x10 << i):
                        size |= delta[pos] << (8 * i)
                        pos += 1
                if size == 0:
                    size = 0x10000
                if off + size > len(src) or size > ts - len(out):
                    return None
                out += src[off:off + size]
            elif cmd:
                if cmd > ts - len(out) or pos + cmd > len(delta):
                    return None
                out += delta[pos:pos + cmd]
                pos += cmd
            else:
                return None
        if len(out) != ts:
            return None
        return bytes(out)
    except IndexError:
        return None


# ------------------------------------------------------------------ reference idx/rev (git's layout)

def ref_idx(ents, pack_sum, hs):
    """ents: list of (id, offset, crc) -> idx v2 bytes"""
    ents = sorted(ents)
    fan = [0] * 256
    for h, _, _ in ents:
        fan[h[0]] += 1
    acc, fo = 0, []
    for k in range(256):
        acc += fan[k]
        fo.append(acc)
    body = b"\xfftOc" + struct.pack(">I", 2) + b"".join(struct.pack(">I", x) for x in fo)
    body += b"".join(h for h, _, _ in ents) + b"".join(struct.pack(">I", c) for _, _, c in ents)
    o64 = []
    for _, o, _ in ents:
        if o >= 1 << 31:
            body += struct.pack(">I", (1 << 31) | len(o64))
            o64.append(o)
        else:
            body += struct.pack(">I", o)
    body += b"".join(struct.pack(">Q", o) for o in o64) + pack_sum
    return body + H(hs, body)


# ------------------------------------------------------------------ git drivers

GIT_ENV = dict(os.environ, GIT_AUTHOR_NAME="a", GIT_AUTHOR_EMAIL="a@x", GIT_COMMITTER_NAME="c", GIT_COMMITTER_EMAIL="c@x",
               GIT_AUTHOR_DATE="1700000000 +0000", GIT_COMMITTER_DATE="1700000000 +0000", GIT_CONFIG_NOSYSTEM="1",
               HOME="/nonexistent", GIT_CONFIG_GLOBAL="/dev/null", LC_ALL="C", TZ="UTC")


def git(args, cwd, input=None, check=True):
    p = subprocess.run(["git"] + args, cwd=cwd, input=input, stdout=subprocess.PIPE, stderr=subprocess.PIPE, env=GIT_ENV, timeout=120)
    if check and p.returncode != 0:
        raise RuntimeError("git %s failed: %s" % (" ".join(args), p.stderr.decode("utf-8", "replace")[:300]))
    return p


def git_index_pack(tmp, pack, hs, name, repo=None, thin=False):
    """-> (rc, stderr, idx bytes or None, rev bytes or None, completed pack bytes or None)"""
    d = os.path.join(tmp, "ip")
    os.makedirs(d, exist_ok=True)
    pp = os.path.join(d, name + ".pack")
    for ext in (".pack", ".idx", ".rev"):
        try:
            os.remove(os.path.join(d, name + ext))
        except OSError:
            pass
    fmt = ["--object-format=sha256"] if hs == 32 and repo is None else []
    if thin:
        p = git(["index-pack", "--fix-thin", "--stdin", "--rev-index", pp], cwd=repo, input=pack, check=False)
    else:
        with open(pp, "wb") as f:
            f.write(pack)
        p = git(["index-pack", "--rev-index"] + fmt + ["-o", os.path.join(d, name + ".idx"), pp], cwd=repo or d, check=False)
    idx = rev = full = None
    if p.returncode == 0:
        try:
            idx = open(os.path.join(d, name + ".idx"), "rb").read()
            rev = open(os.path.join(d, name + ".rev"), "rb").read()
            full = open(pp, "rb").read()
        except OSError:
            pass
    return p.returncode, p.stderr.decode("utf-8", "replace").strip(), idx, rev, full


# ------------------------------------------------------------------ zlib table for the model (Go's stdlib inflate)

def ztables(packs):
    """packs: list of bytes -> list of Coq expressions `[(pos, data, consumed); ...]` computed by harness/bin/c08"""
    cases = [{"id": i, "kind": "ztable", "pack": p.hex()} for i, p in enumerate(packs)]
    res = core.run_impl("c08", cases)
    out = []
    for i in range(len(packs)):
        r = res.get(i)
        rows = []
        if r and r["out"].startswith("( ok"):
            toks = r["out"].split()
            j = 2
            while j < len(toks) and toks[j] == "(":
                rows.append((int(toks[j + 1]), toks[j + 2][1:], int(toks[j + 3])))
                j += 5
        out.append(rows)
    return out


def coq_ztable(rows):
    return "[" + "; ".join('Z3 %d "%s" %d' % tuple(r) for r in rows) + "]"


# ------------------------------------------------------------------ git repositories and packs for the generators

import atexit
import shutil
import tempfile

_TMP = []


def _cleanup():
    for d in _TMP:
        shutil.rmtree(d, ignore_errors=True)


atexit.register(_cleanup)


def scratch():
    d = tempfile.mkdtemp(prefix="verif-pack-")
    _TMP.append(d)
    return d


WORDS = [b"alpha", b"beta", b"gamma", b"delta", b"epsilon", b"zeta", b"eta", b"theta", b"iota", b"kappa", b"lambda", b"mu"]


def text(rng, nlines):
    return b"".join(b" ".join(rng.choice(WORDS) for _ in range(rng.randrange(2, 9))) + b"\n" for _ in range(nlines))


def edit(rng, data):
    lines = data.split(b"\n")
    for _ in range(rng.randrange(1, 4)):
        r = rng.random()
        i = rng.randrange(len(lines)) if lines else 0
        if r < 0.4 and lines:
            lines[i] = b" ".join(rng.choice(WORDS) for _ in range(rng.randrange(1, 6)))
        elif r < 0.7:
            lines.insert(i, b" ".join(rng.choice(WORDS) for _ in range(rng.randrange(1, 6))))
        elif lines:
            del lines[i]
    return b"\n".join(lines)


class GitRepo:
    """a small history with similar files (so that pack-objects finds deltas), built with fast-import"""

    def __init__(self, rng, hs=20, ncommits=8, big=False):
        self.hs = hs
        self.dir = scratch()
        git(["init", "-q", "--object-format=" + ("sha256" if hs == 32 else "sha1"), "-b", "main", "."], cwd=self.dir)
        files = {}
        for k in range(rng.randrange(3, 6)):
            files["f%d.txt" % k] = text(rng, rng.randrange(3, 25))
        files["empty"] = b""
        files["dir/bin"] = bytes(rng.randrange(256) for _ in range(rng.randrange(10, 200)))
        if big:
            files["big.txt"] = text(rng, 40000)
        out = []
        mark = 0
        prev = None
        for c in range(ncommits):
            changed = list(files) if c == 0 else rng.sample(sorted(files), rng.randrange(1, 4))
            ms = []
            for name in changed:
                if c > 0:
                    files[name] = edit(rng, files[name]) if name != "dir/bin" else bytes(rng.randrange(256) for _ in range(rng.randrange(10, 200)))
                mark += 1
                out.append(b"blob\nmark :%d\ndata %d\n%s\n" % (mark, len(files[name]), files[name]))
                ms.append(b"M 100644 :%d %s\n" % (mark, name.encode()))
            mark += 1
            msg = b"commit %d\n" % c
            out.append(b"commit refs/heads/main\nmark :%d\ncommitter c <c@x> %d +0000\ndata %d\n%s" % (mark, 1700000000 + c, len(msg), msg))
            if prev:
                out.append(b"from :%d\n" % prev)
            out.extend(ms)
            out.append(b"\n")
            prev = mark
        tagmsg = b"release\n"
        out.append(b"tag v1\nfrom :%d\ntagger c <c@x> 1700000100 +0000\ndata %d\n%s\n" % (prev, len(tagmsg), tagmsg))
        git(["fast-import", "--quiet"], cwd=self.dir, input=b"".join(out))
        self.ncommits = ncommits

    def pack(self, revs, window=10, depth=50, ofs=True, thin=False):
        args = ["pack-objects", "--stdout", "--revs", "--threads=1", "--window=%d" % window, "--depth=%d" % depth]
        if ofs:
            args.append("--delta-base-offset")
        if thin:
            args.append("--thin")
        return git(args, cwd=self.dir, input=("\n".join(revs) + "\n").encode()).stdout

    def objects(self, ids):
        """-> {id: (type, content)} via cat-file --batch"""
        if not ids:
            return {}
        p = git(["cat-file", "--batch"], cwd=self.dir, input=b"".join(i.hex().encode() + b"\n" for i in ids))
        out, data, pos = {}, p.stdout, 0
        for i in ids:
            nl = data.index(b"\n", pos)
            head = data[pos:nl].split()
            if len(head) < 3:
                pos = nl + 1
                continue
            size = int(head[2])
            out[i] = (head[1].decode(), data[nl + 1:nl + 1 + size])
            pos = nl + 1 + size + 1
        return out


def external_bases(pack, hs):
    """ids of REF-delta bases that are not objects of the pack (needs a python-parsable pack)"""
    pp = PyPack(pack, hs)
    if pp.error:
        return []
    have = {r[3] for r in pp.resolve()}
    need, seen = [], set()
    for e in pp.entries:
        if e["t"] == 7 and e["base_id"] not in have and e["base_id"] not in seen:
            seen.add(e["base_id"])
            need.append(e["base_id"])
    return need
