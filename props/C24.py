"""C24 An acquired pack descriptor is never closed under its reader (DESIGN.md §4.C24)."""
from vf.core import Suite, coq_list, coq_bool
from vf.gen import pick_weighted

ID = "C24"
THEOREMS = ["C24_pinned_open", "C24_refs_exact", "C24_lru_wf", "C24_bound_refuted", "C24_bound_partial",
            "C24_bound_quiescent", "C24_close_final", "C24_idle_armed", "C24_idle_fire_closes",
            "C24_idle_pooled_reachable", "C24_grace_respected", "C24_exec_sound"]
MODEL_FILES = ["SharedFile.v"]
MODELLED = ("internal/sharedfile/sharedfile.go: Acquire, Release, ReleaseNow, Close, Pinned and the grace-timer callback; "
            "x/fdpool/pool.go: Touch (hit / insert / two-pass victim choice / unlocked ReleaseNow / re-lock) and Forget "
            "(Model/SharedFile.v, one step per outermost critical section, unbounded files and threads, the eviction victim "
            "a label argument so the theorems hold for any victim policy). Not modelled: internal/packhandle (cursor and "
            "index plumbing around Acquire/Release), Stats counters, errors returned by the descriptor's Close")
TRUSTED = [
    "C-impl: harness/cmd/c24 builds cmd/c24/inner with `go build -overlay`: the CURRENT internal/sharedfile and x/fdpool "
    "sources with the import \"sync\" redirected to harness/vsync (import path only); every outermost Mutex.Lock is a "
    "scheduling point, cases run in a testing/synctest bubble (fake clock); the harness owns open(), the ReadAtCloser and time",
    "verif hooks (add-only, build tag verif): sharedfile.VerifState/VerifPoolHandle/VerifMutex, fdpool.VerifOrder/VerifRegistered/VerifMutex, x/verifhooks re-export",
    "direct oracle on the implementation: closed flags of the harness-owned descriptors against the holds the harness handed out, "
    "open-descriptor counts against capacity + pinned (+ evictions in flight), LRU well-formedness, idle descriptors after grace",
]
ASSUMPTIONS = ["sync.Mutex provides mutual exclusion (critical sections are atomic steps)",
               "time.AfterFunc runs its callback at or after the deadline; Timer.Stop prevents a callback that has not started",
               "readers balance every successful Acquire with exactly one Release (API contract)"]
RULE = ("case = capacity, grace, pooled flag per file, command list (acquire/release/close/release-now/step/sleep/fire) over 3 files "
        "and 4 threads from buckets {random, nopool timers, mixed, all-pinned fallback, eviction window, close race, capacity 0, "
        "open failure}; every case ends with a drain tail; non-trivial = at least one eviction, timer firing or close; distinct by content")
TECHNIQUE = "machine-checked inductive invariants over an interleaving state machine in Coq + trace validation of the real pool under a cooperative scheduler"

NT, NF = 4, 3


class Sim:
    """python mirror of Model/SharedFile.v, used ONLY to steer the generator
    (which commands are enabled, when a case is interesting)."""

    def __init__(self, cap, grace, pooled):
        self.cap, self.grace, self.pooled = cap, grace, pooled
        n = len(pooled)
        self.file = [None] * n
        self.refs = [0] * n
        self.gen = [0] * n
        self.timer = [None] * n
        self.cbs = [[] for _ in range(n)]
        self.closed = [False] * n
        self.latch = [False] * n
        self.inlru = [False] * n
        self.lru = []
        self.holds = []
        self.pc = {}
        self.nexth = 0
        self.now = 0
        self.events = set()

    def idle(self, t):
        return t not in self.pc

    def release_now(self, f):
        if self.closed[f]:
            return
        self.gen[f] += 1
        self.timer[f] = None
        if self.refs[f] == 0:
            if self.file[f] is not None:
                self.events.add("evict-close")
            self.file[f] = None
        else:
            self.latch[f] = True
            self.events.add("latch")

    def do(self, k):
        op = k[0]
        if op == "acq":
            _, t, f, fail = k
            if not self.idle(t):
                return False
            if self.closed[f]:
                self.events.add("acq-closed")
                return True
            self.timer[f] = None
            if self.file[f] is None:
                if fail:
                    self.events.add("openfail")
                    return True
                self.file[f] = self.nexth
                self.nexth += 1
            self.refs[f] += 1
            self.gen[f] += 1
            self.holds.append((t, f))
            if self.pooled[f] and self.cap > 0:
                self.pc[t] = ("touch", f)
            return True
        if op == "step":
            t = k[1]
            if self.idle(t):
                return False
            p = self.pc[t]
            if p[0] == "touch":
                f = p[1]
                if self.inlru[f]:
                    self.lru.remove(f)
                    self.lru.insert(0, f)
                    del self.pc[t]
                else:
                    self.inlru[f] = True
                    if len(self.lru) + 1 > self.cap:
                        v = None
                        for x in reversed(self.lru):
                            if self.refs[x] == 0:
                                v = x
                                break
                        if v is None:
                            v = self.lru[-1]
                            self.events.add("fallback")
                        self.lru.remove(v)
                        self.inlru[v] = False
                        self.lru.insert(0, f)
                        self.pc[t] = ("evict", f, v)
                        self.events.add("evict")
                    else:
                        self.lru.insert(0, f)
                        del self.pc[t]
            elif p[0] == "evict":
                self.release_now(p[2])
                self.pc[t] = ("relock", p[1])
            elif p[0] == "relock":
                del self.pc[t]
            elif p[0] == "forget":
                f = p[1]
                if self.inlru[f]:
                    self.lru.remove(f)
                    self.inlru[f] = False
                del self.pc[t]
            return True
        if op == "rel":
            _, t, f = k
            if not self.idle(t) or (t, f) not in self.holds:
                return False
            self.holds.remove((t, f))
            if self.refs[f] == 0:
                return True
            self.refs[f] -= 1
            self.gen[f] += 1
            if self.refs[f] > 0 or self.closed[f] or self.file[f] is None:
                return True
            if self.latch[f]:
                self.latch[f] = False
                self.file[f] = None
                self.events.add("latch-close")
                return True
            if self.pooled[f] and self.cap > 0:
                return True
            self.timer[f] = (self.gen[f], self.now + self.grace)
            return True
        if op == "close":
            _, t, f = k
            if not self.idle(t):
                return False
            if self.closed[f]:
                return True
            self.closed[f] = True
            self.gen[f] += 1
            self.timer[f] = None
            self.file[f] = None
            self.events.add("close")
            if self.pooled[f] and self.cap > 0:
                self.pc[t] = ("forget", f)
            return True
        if op == "rnow":
            _, t, f = k
            if not self.idle(t):
                return False
            self.release_now(f)
            return True
        if op == "sleep":
            self.now += k[1]
            for f in range(len(self.pooled)):
                if self.timer[f] and self.timer[f][1] <= self.now:
                    self.cbs[f].append(self.timer[f][0])
                    self.timer[f] = None
            return True
        if op == "fire":
            f = k[1]
            if not self.cbs[f]:
                return False
            g = self.cbs[f].pop(0)
            if not (self.closed[f] or self.gen[f] != g or self.refs[f] > 0 or self.file[f] is None):
                self.file[f] = None
                self.events.add("timer-close")
            else:
                self.events.add("timer-stale")
            return True
        return False

    def inflight(self):
        return sum(1 for p in self.pc.values() if p[0] == "evict")


def tail(sim, nf, grace, nsleeps):
    """drain every thread, release every hold, let every grace timer fire, mark the idle check, close everything"""
    ks = []

    def add(k):
        sim.do(k)
        ks.append(k)
    for _ in range(4):
        for t in range(NT):
            add(["step", t])
    for (t, f) in list(sim.holds):
        add(["rel", t, f])
    add(["sleep", grace + 1])
    for f in range(nf):
        for _ in range(nsleeps + 1):
            add(["fire", f])
    mark = len(ks)
    for f in range(nf):
        add(["close", 0, f])
        add(["step", 0])
    for f in range(nf):
        add(["fire", f])
    return ks, mark


def random_cmd(rng, sim, w):
    """one command, biased towards enabled ones"""
    for _ in range(20):
        op = pick_weighted(rng, w)
        t, f = rng.randrange(NT), rng.randrange(NF)
        if op == "acq":
            k = ["acq", t, f, rng.random() < 0.04]
            if sim.idle(t):
                return k
        elif op == "step":
            busy = sorted(sim.pc)
            if busy:
                return ["step", rng.choice(busy)]
        elif op == "rel":
            hs = sorted(set(h for h in sim.holds if sim.idle(h[0])))
            if hs:
                h = rng.choice(hs)
                return ["rel", h[0], h[1]]
        elif op == "close":
            if sim.idle(t):
                return ["close", t, f]
        elif op == "rnow":
            if sim.idle(t):
                return ["rnow", t, f]
        elif op == "sleep":
            return ["sleep", rng.choice([1, sim.grace - 1, sim.grace, sim.grace + 1, 2 * sim.grace])]
        elif op == "fire":
            fs = [x for x in range(NF) if sim.cbs[x]]
            if fs:
                return ["fire", rng.choice(fs)]
    return ["step", rng.randrange(NT)]


W_POOL = [(6, "acq"), (8, "step"), (6, "rel"), (0.4, "close"), (0.7, "rnow")]
W_TIMER = [(6, "acq"), (6, "rel"), (3, "sleep"), (3, "fire"), (0.3, "close"), (0.5, "rnow")]
W_MIXED = [(6, "acq"), (6, "step"), (6, "rel"), (2, "sleep"), (2, "fire"), (0.4, "close"), (0.6, "rnow")]
W_CLOSE = [(5, "acq"), (6, "step"), (4, "rel"), (2.5, "close"), (0.5, "rnow")]

PREFIX = {
    # every registered member pinned, then one more acquire: the all-pinned fallback unlinks an open, pinned victim
    "fallback1": [["acq", 0, 0, False], ["step", 0], ["acq", 1, 1, False], ["step", 1]],
    # an eviction in flight (victim unlinked, ReleaseNow not yet run)
    "window1": [["acq", 0, 0, False], ["step", 0], ["acq", 1, 1, False], ["step", 1]],
    # two acquirers of the same file between A1 and Touch
    "double": [["acq", 0, 0, False], ["step", 0], ["acq", 1, 1, False], ["acq", 2, 1, False], ["step", 1]],
}


def make_case(rng, bucket, tier):
    cap, grace, pooled = 1, 10, [True] * NF
    w, pre, n = W_POOL, [], rng.randrange(8, 34)
    if bucket == "random":
        cap = rng.choice([1, 1, 2, 2, 3])
    elif bucket == "nopool":
        pooled, w, grace = [False] * NF, W_TIMER, rng.choice([2, 5, 10])
    elif bucket == "mixed":
        pooled = [rng.random() < 0.6 for _ in range(NF)]
        w, cap, grace = W_MIXED, rng.choice([1, 2]), rng.choice([2, 10])
    elif bucket == "fallback":
        pre, cap = PREFIX["fallback1"], 1
    elif bucket == "window":
        pre, cap = PREFIX[rng.choice(["window1", "double"])], 1
    elif bucket == "close":
        w, cap = W_CLOSE, rng.choice([1, 2])
    elif bucket == "cap0":
        cap, w = 0, W_MIXED
    sim = Sim(cap, grace, pooled)
    ks = []
    for k in pre:
        sim.do(k)
        ks.append(k)
    for _ in range(n):
        k = random_cmd(rng, sim, w)
        sim.do(k)
        ks.append(k)
    nsleeps = sum(1 for k in ks if k[0] == "sleep")
    tl, mark = tail(sim, NF, grace, nsleeps + 1)
    return {"bucket": bucket, "cap": cap, "grace": grace, "pooled": pooled, "cmds": ks + tl,
            "mark": len(ks) + mark, "events": sorted(sim.events)}


def merges(seqs):
    """all interleavings of the given command sequences"""
    def rec(pos):
        if all(p == len(q) for p, q in zip(pos, seqs)):
            yield []
            return
        for i, q in enumerate(seqs):
            if pos[i] < len(q):
                p2 = list(pos)
                p2[i] += 1
                for r in rec(p2):
                    yield [q[pos[i]]] + r
    return rec([0] * len(seqs))


def exhaustive_cases():
    """small-scope exhaustion (thorough tier): every interleaving of two or three short thread programs
    around the eviction window, capacity 1, three pooled files"""
    out = []
    configs = [
        # t1 holds file 0; t2 acquires 1 (fallback eviction of 0) while t1 releases 0 and acquires 2
        ([["acq", 1, 0, False], ["step", 1]],
         [[["acq", 2, 1, False], ["step", 2], ["step", 2], ["step", 2], ["rel", 2, 1]],
          [["rel", 1, 0], ["acq", 1, 2, False], ["step", 1], ["step", 1], ["step", 1]]]),
        # two acquirers of the same file and an evictor
        ([["acq", 1, 0, False], ["step", 1]],
         [[["acq", 2, 1, False], ["step", 2], ["step", 2]],
          [["acq", 3, 1, False], ["step", 3], ["step", 3]],
          [["rel", 1, 0], ["acq", 0, 2, False], ["step", 0]]]),
        # close racing an acquire and an eviction
        ([["acq", 1, 0, False], ["step", 1], ["rel", 1, 0]],
         [[["acq", 2, 1, False], ["step", 2], ["step", 2], ["step", 2]],
          [["close", 3, 0], ["step", 3], ["acq", 3, 0, False]],
          [["acq", 1, 0, False], ["step", 1]]]),
    ]
    for pre, seqs in configs:
        for m in merges(seqs):
            sim = Sim(1, 10, [True] * NF)
            ks = []
            for k in pre + m:
                sim.do(k)
                ks.append(k)
            tl, mark = tail(sim, NF, 10, 1)
            out.append({"bucket": "exhaustive", "cap": 1, "grace": 10, "pooled": [True] * NF, "cmds": ks + tl,
                        "mark": len(ks) + mark, "events": sorted(sim.events)})
    return out


def coq_cmd(k):
    op = k[0]
    if op == "acq":
        return "CAcquire %d %d %s" % (k[1], k[2], coq_bool(k[3]))
    if op == "rel":
        return "CRelease %d %d" % (k[1], k[2])
    if op == "close":
        return "CClose %d %d" % (k[1], k[2])
    if op == "rnow":
        return "CReleaseNow %d %d" % (k[1], k[2])
    if op == "step":
        return "CStep %d" % k[1]
    if op == "sleep":
        return "CSleep %d" % k[1]
    if op == "fire":
        return "CFire %d" % k[1]
    raise ValueError(op)


class Main(Suite):
    name = "main"
    go_cmd = "c24"
    coq_imports = "From GoGit Require Import Model.SharedFile."
    quick_n = 240
    thorough_n = 2500
    coq_chunk = 40

    def gen(self, rng, n, tier):
        buckets = [(4, "random"), (3, "nopool"), (3, "mixed"), (3, "fallback"), (3, "window"), (2, "close"), (1, "cap0")]
        cases = [make_case(rng, pick_weighted(rng, buckets), tier) for _ in range(n)]
        if tier == "thorough":
            cases += exhaustive_cases()
        return cases

    def model_expr(self, c):
        return "c24_run %d %d %s %s" % (c["cap"], c["grace"], coq_list([coq_bool(p) for p in c["pooled"]]),
                                        coq_list([coq_cmd(k) for k in c["cmds"]]))

    def nontrivial(self, c):
        return bool(set(c.get("events", ["x"])) & {"evict", "timer-close", "close", "latch", "latch-close", "x"})

    def show(self, c):
        return {k: v for k, v in c.items() if k != "events"}

    def oracle(self, ctx, cases, impl, model):
        """C24 on the implementation alone, from what the harness-owned descriptors and the hooks report"""
        fails = {}
        for c in cases:
            r = impl.get(c["id"])
            if r is None or not isinstance(r.get("extra"), dict):
                fails[c["id"]] = "no trace from the implementation"
                continue
            steps = r["extra"]["steps"]
            cap = c["cap"]
            bad, over = None, None
            for nt in r["extra"].get("notes") or []:
                if nt.startswith("close-final"):
                    bad = nt
            for i, s in enumerate(steps):
                if bad:
                    break
                if s.get("viol"):
                    bad = "step %d: %s" % (i, s["viol"][0])
                    break
                if cap > 0:
                    if s["open"] > cap + s["pinned"] + s["inflight"]:
                        bad = "step %d: bound-partial: %d pooled descriptors open > capacity %d + %d pinned + %d evictions in flight" % (
                            i, s["open"], cap, s["pinned"], s["inflight"])
                        break
                    if s["open"] > cap + s["pinned"] and over is None:
                        over = "bound-transient-overshoot at step %d: %d pooled descriptors open > capacity %d + %d pinned (%d evictions in flight)" % (
                            i, s["open"], cap, s["pinned"], s["inflight"])
            mark = c.get("mark")
            if bad is None and mark is not None and 0 < mark <= len(steps):
                # every operation has ended and every grace timer has fired: idle descriptors are closed
                s = steps[mark - 1]
                if s["idle_open"] > 0:
                    bad = "idle-closed: %d descriptors not governed by a pool still open after the grace period with no reader%s" % (
                        s["idle_open"], " (no-op pool, capacity <= 0)" if cap == 0 and any(c["pooled"]) else "")
                elif cap > 0 and s["open"] > cap:
                    bad = "idle-closed: %d pooled descriptors open with no reader and no eviction in flight, capacity %d" % (s["open"], cap)
            if bad:
                fails[c["id"]] = bad
            elif over:
                fails[c["id"]] = over
        return fails

    def finding_class(self, case, reason, reply):
        if reason.startswith("bound-transient-overshoot"):
            return "bound-transient-overshoot"
        return None

    def extra(self, ctx, cases, impl, model):
        ev = {}
        for c in cases:
            for e in c.get("events", []):
                ev[e] = ev.get(e, 0) + 1
        und = sum(1 for c in cases if (impl.get(c["id"]) or {}).get("extra", {}).get("undrained"))
        return {"model_branch_hits": ev, "cases_needing_forced_drain": und}


SUITES = [Main()]
