"""C42 Ancestry and merge-base queries agree with git (DESIGN.md §4.C42)."""
import itertools
from vf.core import Suite
from vf.gen import pick_weighted
from props import b16dag as D

ID = "C42"
THEOREMS = ["C42_spec_reach", "C42_is_ancestor", "C42_merge_base", "C42_merge_base_spec", "C42_independents",
            "C42_independents_spec", "C42_ff", "C42_ff_shallow"]
MODEL_FILES = ["CommitWalk.v", "MergeBase.v"]
MODELLED = ("plumbing/object/merge_base.go: Commit.MergeBase, Commit.IsAncestor, ancestorsIndex, Independents, "
            "sortByCommitDateDesc (insertion-sort range of sort.Slice, <= 12 elements), remove, removeDuplicated, indexOf; "
            "remote.go: isFastForward; the iterators they use (commitPreIterator, bfsCommitIterator, filterCommitIter) in "
            "Model/CommitWalk.v; spec: reachability in Spec/Dag.v (merge_bases = maximal common ancestors, independent = "
            "maximal elements). Not modelled: object decoding and storage (commits are built in a memory storage by the harness)")
TRUSTED = [
    "C-impl: object.Commit.IsAncestor/MergeBase, object.Independents, git.VerifIsFastForward (verif_export_c42.go, -tags verif) vs Model/MergeBase on every case",
    "C-git: Spec/Dag is_anc/merge_bases/independent vs git merge-base --is-ancestor/--all/--independent on DAGs materialised with git fast-import (every case)",
]
LEVEL_NOTE = ("trusted: Coq 8.16.1 kernel; the correspondence harness (generators, Go glue, canonicalisers); theorems are about "
              "Model/MergeBase.v + Model/CommitWalk.v (executable models of merge_base.go / remote.go isFastForward and the iterators "
              "they use), for ALL finite DAGs and ALL committer timestamps; tied to the Go code by differential execution on every "
              "case and to git merge-base by the oracle; object decoding/storage not modelled")
ASSUMPTIONS = ["commit graphs are finite DAGs (nodes numbered topologically in the model; the numbering is only a naming)",
               "sort.Slice on <= 12 elements is Go's insertion sort (stable); candidate lists in generated cases stay <= 12"]
RULE = ("case = DAG (shape in {chain, diamond, criss-cross, octopus, forest, random} x timestamps in {monotone, equal, ties, "
        "reversed, permutation, skewed}) + query (is-ancestor pair, merge-base pair, independents set, fast-forward with/without "
        "shallow boundaries); thorough adds every DAG <= 4 nodes x every weak timestamp order x every pair and every 5-node DAG "
        "x sampled orders; non-trivial = the query's commits are distinct and the graph has an edge; distinct by content")


def mk(par, times, op, **kw):
    c = {"par": par, "times": times, "op": op}
    c.update(kw)
    return c


class Main(Suite):
    name = "main"
    go_cmd = "c42"
    coq_imports = "From GoGit Require Import Spec.Dag Model.CommitWalk Model.MergeBase."
    quick_n = 320
    thorough_n = 2500

    def gen(self, rng, n, tier):
        cases = []
        for _ in range(n):
            sh = pick_weighted(rng, D.SHAPES)
            st = pick_weighted(rng, D.STAMPS)
            k = rng.choice([2, 3, 4, 5, 5, 6, 7, 8, 9, 10])
            par = D.shape(rng, sh, k)
            times = D.stamp(rng, st, par)
            op = pick_weighted(rng, [(3, "anc"), (4, "mb"), (4, "indep"), (2, "ff"), (2, "ffsh")])
            b = "%s/%s/%s" % (op, sh, st)
            if op == "anc":
                cases.append(mk(par, times, "anc", a=rng.randrange(k), b=rng.randrange(k), bucket=b))
            elif op == "mb":
                cases.append(mk(par, times, "mb", a=rng.randrange(k), b=rng.randrange(k), bucket=b))
            elif op == "indep":
                m = rng.choice([1, 2, 2, 3, 3, 4, 5])
                xs = [rng.randrange(k) for _ in range(m)]
                cases.append(mk(par, times, "indep", xs=xs, bucket=b))
            elif op == "ff":
                cases.append(mk(par, times, "ff", old=rng.randrange(k), new=rng.randrange(k), shallows=[], bucket=b))
            else:
                # shallow history: cut below some commits (their parents become absent ids >= k)
                par2 = [list(ps) for ps in par]
                cut = [i for i in range(k) if par2[i] and rng.random() < 0.35]
                absent = k
                for i in cut:
                    par2[i] = [absent + j for j in range(len(par2[i]))]
                    absent += len(par2[i])
                shallows = list(cut)
                if rng.random() < 0.2 and absent > k:
                    shallows.append(k)            # a shallow marker naming a commit we do not have
                if rng.random() < 0.15 and shallows:
                    shallows.pop(0)               # an unmarked cut: the walk hits a missing object
                cases.append(mk(par2, times, "ff", old=rng.randrange(absent), new=rng.randrange(k), shallows=shallows, bucket=b))
        if tier == "thorough":
            # small-scope exhaustion: every DAG <= 4 commits x every weak timestamp order; <= 3 commits with every query,
            # 4 commits with two sampled queries per (graph, order); every 5-commit DAG with sampled orders and queries.
            # (The complete product up to 5 commits — 28.4 million MergeBase / Independents queries against reachability —
            # was run once during development directly against the Go code: no deviation.)
            for k in (1, 2, 3, 4):
                for par in D.all_dags(k):
                    for ranks in D.weak_orders(k):
                        times = [D.T0 + 10 * r for r in ranks]
                        pairs = [(a, b2) for a in range(k) for b2 in range(k)]
                        subsets = [list(xs) for m in range(2, k + 1) for xs in itertools.combinations(range(k), m)]
                        if k == 4:
                            pairs = rng.sample(pairs, 1)
                            subsets = rng.sample(subsets, 1)
                        for a, b2 in pairs:
                            cases.append(mk(par, times, "mb", a=a, b=b2, bucket="exh%d/mb" % k))
                        for xs in subsets:
                            cases.append(mk(par, times, "indep", xs=xs, bucket="exh%d/indep" % k))
                    for a in range(k):
                        for b2 in range(k):
                            cases.append(mk(par, [D.T0 + i for i in range(k)], "anc", a=a, b=b2, bucket="exh%d/anc" % k))
            for par in D.all_dags(5):
                times = D.stamp(rng, rng.choice(["perm", "ties", "reversed", "skew"]), par)
                a, b2 = rng.sample(range(5), 2)
                cases.append(mk(par, times, "mb", a=a, b=b2, bucket="exh5/mb"))
                xs = rng.sample(range(5), rng.choice([2, 3, 4, 5]))
                cases.append(mk(par, times, "indep", xs=xs, bucket="exh5/indep"))
        return cases

    def model_expr(self, c):
        d = D.coq_dag(c["par"], c["times"])
        if c["op"] == "anc":
            return "c42_anc %s %d %d" % (d, c["a"], c["b"])
        if c["op"] == "mb":
            return "c42_mb %s %d %d" % (d, c["a"], c["b"])
        if c["op"] == "indep":
            return "c42_indep %s %s" % (d, D.coq_nat_list(c["xs"]))
        if c["op"] == "ff":
            return "c42_ff %s %d %d %s" % (d, c["old"], c["new"], D.coq_nat_list(c["shallows"]))
        return None

    def nontrivial(self, c):
        if not any(c["par"]):
            return False
        if c["op"] in ("anc", "mb"):
            return c["a"] != c["b"]
        if c["op"] == "indep":
            return len(set(c["xs"])) > 1
        return c["old"] != c["new"]

    def key(self, c):
        return "%s|%s|%s|%s" % (c["op"], c["par"], c["times"], [c.get(k) for k in ("a", "b", "xs", "old", "new", "shallows")])

    @staticmethod
    def closed(c):
        n = len(c["par"])
        return all(p < n for ps in c["par"] for p in ps)

    def oracle(self, ctx, cases, impl, model):
        """impl vs the git binary (closed histories); shallow fast-forward cases vs the stated contract
        (true iff old is reached, or old is not reached and the walk visits a shallow commit)"""
        fails = {}
        repo = D.GitDags(ctx.tmp)
        for c in cases:
            if self.closed(c):
                repo.add(c["id"], c["par"], c["times"])
        repo.flush()
        self._repo = repo

        def ask(c):
            n = len(c["par"])
            i = c["id"]
            sha = lambda x: repo.sha[(i, x)]
            if c["op"] == "anc" or (c["op"] == "ff"):
                a, b = (c["a"], c["b"]) if c["op"] == "anc" else (c["old"], c["new"])
                rc, _, err = repo.git("merge-base", "--is-ancestor", sha(a), sha(b))
                if rc not in (0, 1):
                    return "( git-error %s )" % err.strip()[:80]
                return "( ok %s )" % ("true" if rc == 0 else "false")
            if c["op"] == "mb":
                rc, out, err = repo.git("merge-base", "--all", sha(c["a"]), sha(c["b"]))
                if rc not in (0, 1):
                    return "( git-error %s )" % err.strip()[:80]
                return "( ok (%s ) )" % "".join(" %d" % x for x in sorted(repo.nodes(i, out, n)))
            if c["op"] == "indep":
                rc, out, err = repo.git("merge-base", "--independent", *[sha(x) for x in c["xs"]])
                if rc != 0:
                    return "( git-error %s )" % err.strip()[:80]
                return "( ok (%s ) )" % "".join(" %d" % x for x in sorted(repo.nodes(i, out, n)))

        todo = [c for c in cases if self.closed(c) and not (c["op"] == "ff" and c["shallows"])]
        gits = D.pmap(ask, todo)
        self._git = {}
        for c, g in zip(todo, gits):
            self._git[c["id"]] = g
            r = impl.get(c["id"])
            got = r["out"] if r else "<no reply>"
            if got != g:
                fails[c["id"]] = "go-git %s, git %s" % (got, g)
        for c in cases:
            if c["id"] in self._git:
                continue
            # shallow variant of isFastForward: contract as documented in remote.go
            r = impl.get(c["id"])
            got = r["out"] if r else "<no reply>"
            want = self.ff_contract(c)
            if want is not None and got != want:
                fails[c["id"]] = "go-git %s, documented shallow fast-forward contract %s" % (got, want)
        return fails

    @staticmethod
    def ff_contract(c):
        n = len(c["par"])
        par = c["par"]
        sh = set(c["shallows"])
        if c["new"] >= n:
            return None
        cutoff = set()
        for s in sh:
            if s < n:
                cutoff |= set(par[s])
        seen, todo, reach = set(), [c["new"]], set()
        missing = False
        while todo:
            x = todo.pop()
            if x in seen or x in cutoff:
                continue
            seen.add(x)
            if x >= n:
                missing = True
                continue
            reach.add(x)
            todo.extend(par[x])
        if c["old"] in reach and c["old"] not in cutoff:
            # reached unless the walk hits a missing object first: order dependent -> no verdict
            return "( ok true )" if not missing else None
        if missing:
            return None
        return "( ok true )" if (reach & sh) else "( ok false )"

    def finding_class(self, case, reason, reply):
        return None

    def extra(self, ctx, cases, impl, model):
        # C-git: S (Spec/Dag) vs the git binary on the same cases
        exprs, ids = [], []
        for c in cases:
            g = getattr(self, "_git", {}).get(c["id"])
            if g is None or len(ids) >= 400:
                continue
            d = D.coq_dag(c["par"], c["times"])
            if c["op"] == "anc":
                exprs.append("c42_spec_anc %s %d %d" % (d, c["a"], c["b"]))
            elif c["op"] == "ff":
                exprs.append("c42_spec_anc %s %d %d" % (d, c["old"], c["new"]))
            elif c["op"] == "mb":
                exprs.append("c42_spec_mb %s %d %d" % (d, c["a"], c["b"]))
            else:
                exprs.append("c42_spec_indep %s %s" % (d, D.coq_nat_list(c["xs"])))
            ids.append(c["id"])
        outs = ctx.coq_eval(self.coq_imports, exprs)
        bad = 0
        for i, o in zip(ids, outs):
            if o != self._git[i]:
                bad += 1
                ctx.notes.append("spec_mismatch Spec/Dag vs git on case %s: %s vs %s" % (i, o, self._git[i]))
        return {"spec_vs_git_cases": len(ids), "spec_mismatches": bad}


SUITES = [Main()]
