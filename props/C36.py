"""C36 Fetch and clone deliver complete history and correct refs (DESIGN.md §4.C36) — partial by design:
the protocol core is proved on the model, the transports are exercised (suite `wire`)."""
import json
import os
import shutil
import subprocess
import zlib
from vf.core import Suite, coq_list, coq_N, coq_bool, HARNESS
from vf.gen import pick_weighted
from props.C37 import World, gen_world, finish_case, coq_store, CaseWorld, reach, ancestors

ID = "C36"
THEOREMS = ["C36_flush_constants", "C36_refspec_roundtrip", "C36_terminates", "C36_wants_cover", "C36_ref_update", "C36_prune_only_stale", "C36_complete", "C36_v2_deepen_covers", "C36_v2_plain_covers", "C36_shallow_partial", "C36_shallow_eq_refuted"]
MODEL_FILES = ["RefSpec.v", "RevList.v", "PushRules.v", "FetchProto.v"]
MODELLED = ("remote.go Remote.fetch reference logic: referenceStorageFromRefs, calculateRefs/doCalculateRefs (wildcard, "
            "exact-hash and short-name sources through ExpandRef, symbolic references), getWants, pruneRemotes, "
            "updateLocalReferenceStorage (tag / fast-forward / force rules, isFastForward), buildFetchedTags, the up-to-date "
            "verdict; plumbing/transport/negotiate.go NegotiatePack round loop (batches, nextFlush, inVein/maxInVein, "
            "gotContinue/gotReady, sendDoneAfterReady, stateless common re-sending, applyServerACKs) against any "
            "acknowledgement table; plumbing/transport/upload_pack.go getShallowCommits and serveFetchV2's selection (grafting boundary: "
            "client's old shallow commits vs the new boundary of a deepen, empty = full history; new view minus client view; "
            "shallow-info / unshallowedCommits) with the client's updateShallow (Model/FetchProto.v, Model/RefSpec.v). "
            "Exercised, not modelled: getHaves, the pkt-line codecs (C34/C35), the v0/v1/v2 servers (UploadPack, serveFetchV2), "
            "the file transport, spawned git upload-pack / go-git serving a git client, pack encoding and indexing. "
            "Not exercised: git://, http(s) and ssh sockets (no network in the sandbox)")
LEVEL_NOTE = ("partial by design (DESIGN.md §4.C36): the theorems cover the protocol core on the model — refspec mapping and its "
              "inverse, want computation, the per-reference update rule, pruning, termination of the negotiation loop against any "
              "server, completeness of a pack selected by revlist.Objects (C37), the shallow walk (sound; equality with git's boundary "
              "refuted) — tied to remote.go / negotiate.go / upload_pack.go by differential execution; sockets, processes, HTTP, the "
              "v0/v1/v2 servers' wire handling and the git-as-peer pairings are exercised by suite wire, not proved. trusted: Coq "
              "8.16.1 kernel; the correspondence harness; git 2.39.5 as the reference peer")
TRUSTED = [
    "C-impl refs: Remote.FetchContext through a scripted transport (client.WithTransport) that hands over every server object vs Model/FetchProto.fetch: verdict, wants, final local references",
    "C-impl neg: transport.NegotiatePack against a scripted server (acknowledgement table) vs Model/FetchProto.negotiate: the have batches, done flags, request re-sending of every round",
    "C-impl shallow: transport.getShallowCommits (verif export) vs Model/FetchProto.shallow_walk; spec = minimum-distance boundary (what git clone --depth leaves in .git/shallow, checked in suite wire)",
    "C-impl v2serve: the go-git upload-pack server reached through the in-process file transport (StreamSession.Fetch, protocol v2) by a client store that is fresh, partial or already shallow, depth none / below / exactly / beyond the root / unshallow, vs Model/FetchProto.serve_fetch_v2 + update_shallow: objects gained, shallow list afterwards; oracle: everything reachable from the wants and the old haves down to the new shallow list is held",
    "suite deepen: already-shallow clients (depth 1..3; git and go-git) deepening to below / exactly / beyond the root and unshallow against the go-git server v0 and v2, vs git <-> git: fsck --connectivity-only, rev-list --count --all, shallow file",
    "suite wire: go-git client <-> go-git server (file transport, protocol v0 and v2), go-git client <-> git upload-pack (spawned), git client <-> go-git server (git fetch --upload-pack), against the git <-> git outcome: git for-each-ref, git fsck --connectivity-only, .git/shallow",
]
ASSUMPTIONS = [
    "the server's pack holds every object reachable from the wants and not from the common haves (C37 for a go-git server; git's contract otherwise)",
    "the client holds the full history (up to its shallow commits, which it reports) of every commit it offers as a have",
]
RULE = ("refs: generated server store + advertisement (branches, tags with peeled entries, symbolic HEAD) + client prior state "
        "(objects held, tracking refs behind/diverged/stale, tags, shallow) + refspecs (default, unforced, exact, short names, "
        "exact hash, tags) x tag mode x force x prune x depth; neg: have lists of 0..400 ids with acknowledgement tables "
        "(common/ready/continue), stateful and stateless; shallow: generated DAGs x depth 1..5; wire: on-disk repositories built "
        "from generated DAGs, prior client states (empty, partial, shallow, diverged) x pairings x protocol x depth")

GIT = "/usr/bin/git"
ENV = dict(os.environ, GIT_CONFIG_NOSYSTEM="1", GIT_CONFIG_GLOBAL="/dev/null", HOME="/nonexistent",
           GIT_AUTHOR_NAME="a", GIT_AUTHOR_EMAIL="a@x", GIT_COMMITTER_NAME="c", GIT_COMMITTER_EMAIL="c@x")


def hx(s):
    return (s if isinstance(s, bytes) else s.encode()).hex()


def sexp(text):
    """parse the canonical observable text into nested python lists of tokens"""
    toks = text.split()
    pos = [0]

    def rd():
        t = toks[pos[0]]
        pos[0] += 1
        if t != "(":
            return t
        l = []
        while toks[pos[0]] != ")":
            l.append(rd())
        pos[0] += 1
        return l
    return rd()


def unhx(s):
    return bytes.fromhex(s).decode("latin1")


def coq_refs(l):
    return coq_list(["(unhex \"%s\", %s)" % (n, ("RSym (unhex \"%s\")" % v) if k == "s" else "RHash %s" % coq_N(v)) for n, k, v in l])


def coq_hexes(c):
    return coq_list(["(unhex \"%s\", %s)" % (h.encode().hex(), coq_N(int(i))) for i, h in sorted(c["hashes"].items(), key=lambda x: int(x[0]))])


# ================================================================== suite refs

BRANCHES = ["main", "dev", "feat/x", "rel"]
FSPECS = ["+refs/heads/*:refs/remotes/origin/*", "refs/heads/*:refs/remotes/origin/*",
          "+refs/heads/main:refs/remotes/origin/main", "refs/heads/dev:refs/remotes/origin/dev",
          "refs/heads/main:refs/heads/main", "main:refs/remotes/origin/main", "+HEAD:refs/remotes/origin/HEAD",
          "refs/tags/*:refs/tags/*", "+refs/tags/*:refs/tags/*", "refs/heads/feat/*:refs/remotes/origin/feat/*",
          "refs/heads/nonexistent:refs/remotes/origin/nonexistent", "+refs/*:refs/mirror/*", "dev:devlocal",
          "refs/tags/v1:refs/tags/v1"]
BAD_SPECS = ["refs/heads/main", "a:b:c", "refs/heads/*:refs/heads/main", "refs/heads/main:"]


def gen_refs_case(rng, bucket):
    w, commits, tags, trees_pool = gen_world(rng, "random")
    remote, local = [], []
    for b in BRANCHES:
        if rng.random() < 0.75:
            remote.append(["refs/heads/" + b, "h", rng.choice(commits)])
    if not remote:
        remote.append(["refs/heads/main", "h", commits[-1]])
    if rng.random() < 0.8:
        remote.insert(0, ["HEAD", "s", rng.choice(remote)[0]])
    for i, t in enumerate(tags[:3]):
        remote.append(["refs/tags/v%d" % i, "h", t])
        if rng.random() < 0.8:
            # the peeled entry of the advertisement
            tgt = t
            while w.get(tgt)["t"] == "tag":
                tgt = w.get(tgt)["abs"][1]
            remote.append(["refs/tags/v%d^{}" % i, "h", tgt])
    if rng.random() < 0.4:
        remote.append(["refs/tags/light", "h", rng.choice(commits)])
    # client prior state
    kind = pick_weighted(rng, [(2, "empty"), (3, "partial"), (2, "full"), (1, "shallow")]) if bucket != "shallow" else "shallow"
    shallow = []
    if kind == "empty":
        have = set()
    elif kind == "full":
        have = {o["id"] for o in w.objs if o["present"]}
    else:
        tips = rng.sample(commits, min(len(commits), rng.choice([1, 2])))
        if kind == "shallow":
            cs = [c for c in ancestors(w, tips) if w.get(c)["abs"][2]]
            if cs:
                shallow = sorted(set(rng.sample(sorted(cs), min(len(cs), rng.choice([1, 2])))))
        have = reach(w, tips, set(shallow))
    have_commits = [c for c in commits if c in have]
    for r in list(remote):
        n, k, v = r
        if k != "h" or not n.startswith("refs/heads/"):
            continue
        x = rng.random()
        tr = "refs/remotes/origin/" + n[len("refs/heads/"):]
        if x < 0.3 and have_commits:
            anc = [c for c in ancestors(w, [v]) if c in have and c != v]
            if anc:
                local.append([tr, "h", rng.choice(sorted(anc))])            # behind: fast-forward
        elif x < 0.5 and have_commits:
            local.append([tr, "h", rng.choice(have_commits)])               # anything held: often diverged
        elif x < 0.6 and v in have:
            local.append([tr, "h", v])                                      # up to date
    if rng.random() < 0.4 and have_commits:
        local.append(["refs/remotes/origin/gone", "h", rng.choice(have_commits)])     # prune material
    if rng.random() < 0.3 and have_commits:
        local.append(["refs/heads/main", "h", rng.choice(have_commits)])
        local.append(["HEAD", "s", "refs/heads/main"])
    if rng.random() < 0.3 and have_commits:
        local.append(["refs/tags/v0", "h", rng.choice(have_commits)])       # a local tag that differs from the remote's
    if rng.random() < 0.15 and have_commits:
        local.append(["refs/tags/light", "h", rng.choice(have_commits)])
    nspec = pick_weighted(rng, [(4, 0), (4, 1), (2, 2)])
    specs = [rng.choice(FSPECS) for _ in range(nspec)]
    if bucket == "hash":
        o = rng.choice([x for x in w.objs if x["present"] and x["t"] == "commit"])
        specs.append(rng.choice(["+%s:refs/heads/byhash" % o["hash"], "%s:%s" % (o["hash"], o["hash"])]))
    if bucket == "invalid":
        specs.append(rng.choice(BAD_SPECS))
    base = finish_case(w, bucket, [], [], shallow)
    return {"op": "fetchlogic", "bucket": bucket, "objs": base["objs"], "hashes": base["hashes"], "abs": base["abs"],
            "client_objs": sorted(have), "shallow": list(shallow),
            "local": [[hx(n), k, (hx(v) if k == "s" else v)] for n, k, v in local],
            "remote": [[hx(n), k, (hx(v) if k == "s" else v)] for n, k, v in remote],
            "config_specs": [hx(rng.choice(["+refs/heads/*:refs/remotes/origin/*", "refs/heads/*:refs/remotes/origin/*"]))],
            "specs": [hx(s) for s in specs], "tags": rng.choice(["following", "following", "all", "none"]),
            "force": rng.random() < 0.2, "prune": rng.random() < (0.7 if bucket == "prune" else 0.25),
            "depth": rng.choice([0, 0, 0, 1, 2]) if kind != "shallow" else rng.choice([0, 1, 3])}


def valid_spec(s):
    if s.count(":") != 1 or s.endswith(":"):
        return False
    a, b = s.split(":")
    return a.count("*") == b.count("*") and a.count("*") < 2


def glob_match(pat, name):
    if "*" not in pat:
        return "" if pat == name else None
    pre, suf = pat.split("*", 1)
    if len(name) >= len(pre) + len(suf) and name.startswith(pre) and name.endswith(suf):
        return name[len(pre):len(name) - len(suf)]
    return None


def parse_fetch_out(out):
    """'( ok ( 1 2 ) ( ( xNAME h 3 ) ( xNAME s xTARGET ) ) )' -> (verdict, wants, {name: ('h', id)|('s', target)})"""
    t = out.split()
    verdict = t[1]
    if len(t) <= 3:
        return verdict, [], {}
    i = 3
    wants = []
    while t[i] != ")":
        wants.append(int(t[i]))
        i += 1
    i += 2
    refs = {}
    while t[i] == "(":
        name = bytes.fromhex(t[i + 1][1:]).decode("latin1")
        if t[i + 2] == "h":
            refs[name] = ("h", int(t[i + 3]))
        else:
            refs[name] = ("s", bytes.fromhex(t[i + 3][1:]).decode("latin1"))
        i += 5
    return verdict, wants, refs


class Refs(Suite):
    name = "refs"
    go_cmd = "c36"
    coq_imports = "From GoGit Require Import Model.RefSpec Model.RevList Model.PushRules Model.FetchProto."
    quick_n = 110
    thorough_n = 2000
    coq_chunk = 90
    BUCKETS = [(5, "random"), (2, "prune"), (1, "hash"), (1, "invalid"), (2, "shallow")]

    def gen(self, rng, n, tier):
        return [gen_refs_case(rng, pick_weighted(rng, self.BUCKETS)) for _ in range(n)]

    def show(self, c):
        return {k: v for k, v in c.items() if k != "objs"}

    def key(self, c):
        return json.dumps([c["abs"], c["client_objs"], c["local"], c["remote"], c["specs"], c["config_specs"], c["tags"],
                           c["force"], c["prune"], c["depth"], c["shallow"]])

    def nontrivial(self, c):
        return bool(c["local"]) and len(c["remote"]) >= 2

    def model_expr(self, c):
        have = set(c["client_objs"])
        client = dict(c)
        client["abs"] = [a for a in c["abs"] if a[0] in have]
        tm = {"following": "TagFollowing", "all": "AllTags", "none": "NoTags"}[c["tags"]]
        opts = "(mkFO %s %s %s %s %d)" % (coq_list(['(unhex "%s")' % s for s in c["specs"]]), tm, coq_bool(c["force"]),
                                          coq_bool(c["prune"]), c["depth"])
        return "c36_fetch %s %s %s %s %s %s %s %s" % (
            coq_store(client), coq_store(c), coq_list([coq_N(x) for x in c["shallow"]]), coq_hexes(c),
            coq_list(['(unhex "%s")' % s for s in c["config_specs"]]), coq_refs(c["local"]), coq_refs(c["remote"]), opts)

    def oracle(self, ctx, cases, impl, model):
        fails = {}
        for c in cases:
            r = impl.get(c["id"])
            if r is None:
                fails[c["id"]] = "no reply"
                continue
            if r.get("panic"):
                continue
            why = self.judge(c, r)
            if why:
                fails[c["id"]] = why
        return fails

    def judge(self, c, r):
        """the reference half of the property on the implementation: after a successful fetch every advertised
        reference a refspec maps is present locally under the mapped name with the advertised value (unless the update
        needs force, which must then be reported), everything the mapped references point to and the client lacks was
        asked for, pruning removes exactly the stale mapped names, and nothing else is touched"""
        specs = [unhx(s) for s in c["specs"]] or [unhx(s) for s in c["config_specs"]]
        if not all(valid_spec(unhx(s)) for s in c["specs"]):
            return None if r["out"].startswith("( invalid") else "malformed refspec accepted: " + r["out"][:80]
        verdict, wants, refs = parse_fetch_out(r["out"])
        if verdict in ("fail", "ref_not_found", "invalid"):
            return None
        before = {unhx(n): (k, (unhx(v) if k == "s" else v)) for n, k, v in c["local"]}
        adv = {}
        sym = {}
        for n, k, v in c["remote"]:
            n = unhx(n)
            if n.endswith("^{}"):
                continue
            if k == "h":
                adv[n] = v
            else:
                sym[n] = unhx(v)
        w = CaseWorld(c)
        have = set(c["client_objs"])
        shallow_mode = c["depth"] != 1 and bool(c["shallow"])
        mapped = {}          # local name -> list of (value, forced)
        for s in specs:
            force = s.startswith("+")
            src, dst = (s[1:] if force else s).split(":", 1)
            if "*" in src:
                for n, v in adv.items():
                    m = glob_match(src, n)
                    if m is not None:
                        b, a = dst.split("*", 1)
                        mapped.setdefault(b + m + a, []).append((v, force or c["force"]))
            elif src in adv and dst.startswith("refs/"):
                mapped.setdefault(dst, []).append((adv[src], force or c["force"]))
        for lname, vals in mapped.items():
            if len({v for v, _ in vals}) != 1:
                continue                         # two refspecs disagree about this name: not judged
            v, forced = vals[0][0], any(f for _, f in vals)
            got = refs.get(lname)
            b4 = before.get(lname)
            if got == ("h", v) and b4 and b4[0] == "h" and b4[1] != v and not forced and not c["shallow"] \
                    and not lname.startswith("refs/tags/"):
                # an unforced update of an existing reference must be a fast-forward
                if not (w.get(b4[1])["t"] == "commit" and w.get(v)["t"] == "commit" and b4[1] in ancestors(w, [v], cut=False)):
                    return "reference %s moved from %d to %d: not a fast-forward and not forced" % (lname, b4[1], v)
            if got == ("h", v):
                if v not in have and v not in wants:
                    return "reference %s -> %d: the object is neither held nor wanted" % (lname, v)
                if shallow_mode and v not in wants:
                    return "shallow repository: %d not re-requested" % v
                continue
            if verdict in ("ok", "uptodate"):
                return "fetch succeeded but %s is %s, the server has %d" % (lname, got, v)
            # force_needed: the stale value must be the old one and the update must really need force
            if forced:
                return "force needed reported for the forced reference %s" % lname
            if got != before.get(lname) and not (before.get(lname, ("", ""))[0] == "s"):
                return "reference %s changed to %s although the update was refused" % (lname, got)
        # pruning and footprint
        dsts = []
        for s in specs:
            force = s.startswith("+")
            src, dst = (s[1:] if force else s).split(":", 1)
            dsts.append((src, dst))
        for lname, val in before.items():
            if lname in refs:
                continue
            # removed: must be pruning of a name whose remote counterpart is gone
            if not c["prune"]:
                return "reference %s disappeared without prune" % lname
            ok = False
            for src, dst in dsts:
                m = glob_match(dst, lname)
                if m is not None:
                    back = src.replace("*", m, 1) if "*" in src else src
                    if back not in adv and back not in sym:
                        ok = True
            if not ok:
                return "reference %s pruned although the server still has its source" % lname
        for lname, val in refs.items():
            if lname in before and before[lname] == val:
                continue
            if lname in mapped and any(val == ("h", v) for v, _ in mapped[lname]):
                continue
            if lname.startswith("refs/tags/") and c["tags"] != "none" and val == ("h", adv.get(lname, -1)):
                continue
            # short-name sources, exact-hash sources and HEAD are resolved by rules the oracle does not restate
            if any(("*" not in s and not s.lstrip("+").split(":")[0].startswith("refs/")) for s in specs):
                continue
            return "reference %s set to %s, which no refspec or tag rule asks for" % (lname, val)
        return None


# ================================================================== suite neg

class Neg(Suite):
    name = "neg"
    go_cmd = "c36"
    coq_imports = "From GoGit Require Import Model.RevList Model.FetchProto."
    quick_n = 30
    thorough_n = 400
    coq_chunk = 20

    def gen(self, rng, n, tier):
        cases = []
        for _ in range(n):
            nh = pick_weighted(rng, [(2, rng.randrange(0, 4)), (3, rng.randrange(4, 40)), (2, rng.randrange(40, 120)),
                                     (1, rng.randrange(250, 420))])
            ids = list(range(1, nh + 1))
            rng.shuffle(ids)
            hashes = {str(i): "%040x" % (0x1000 + i * 7919) for i in range(1, nh + 6)}
            wants = [nh + 1] + ([nh + 2] if rng.random() < 0.3 else [])
            if rng.random() < 0.1 and ids:
                wants = [rng.choice(ids)]            # a want that is also a have: no-change short cut
            acks = []
            mode = rng.choice(["none", "common", "ready", "continue", "mixed", "late_ready"])
            for i in ids:
                x = rng.random()
                if mode == "common" and x < 0.3:
                    acks.append([i, "common"])
                elif mode == "ready" and x < 0.1:
                    acks.append([i, "ready"])
                elif mode == "continue" and x < 0.2:
                    acks.append([i, "continue"])
                elif mode == "mixed" and x < 0.3:
                    acks.append([i, rng.choice(["common", "common", "continue", "ready"])])
            if mode == "late_ready" and ids:
                acks.append([ids[0], "ready"])       # the have sent last
                for i in ids[len(ids) // 2:]:
                    if rng.random() < 0.2:
                        acks.append([i, "common"])
            cases.append({"op": "negotiate", "bucket": mode, "objs": [], "hashes": hashes, "wants": wants, "haves": ids,
                          "acks": acks, "stateless": rng.random() < 0.4})
        return cases

    def model_expr(self, c):
        st = {"common": "AckCommon", "ready": "AckReady", "continue": "AckContinue"}
        return "c36_negotiate %s %s %s true %s" % (
            coq_bool(c["stateless"]), coq_list([coq_N(x) for x in c["wants"]]), coq_list([coq_N(x) for x in c["haves"]]),
            coq_list(["(%s, %s)" % (coq_N(i), st[s]) for i, s in c["acks"]]))

    def nontrivial(self, c):
        return len(c["haves"]) > 16

    def oracle(self, ctx, cases, impl, model):
        """termination and bounded work on the implementation: the negotiation ends, within |haves|+2 rounds, every have
        is sent at most once as a fresh have (stateless re-sends only acknowledged common ones), and the last round says done"""
        fails = {}
        for c in cases:
            r = impl.get(c["id"])
            if r is None or r.get("panic"):
                if r is None:
                    fails[c["id"]] = "no reply (negotiation did not terminate?)"
                continue
            e = sexp(r["out"])
            if e[0] != "ok":
                fails[c["id"]] = "negotiation failed: " + r["out"][:100]
                continue
            nochange, rounds = e[1] == "true", e[2]
            if len(rounds) > len(c["haves"]) + 2:
                fails[c["id"]] = "%d rounds for %d haves" % (len(rounds), len(c["haves"]))
            elif not nochange and rounds and rounds[-1][1] != "true":
                fails[c["id"]] = "the last round does not say done"
            else:
                fresh = [h for rd_ in rounds for h in rd_[0]]
                acked = {str(i) for i, st_ in c["acks"] if st_ == "common"}
                dup = [h for h in set(fresh) if fresh.count(h) > 1 and not (c["stateless"] and h in acked)]
                if dup:
                    fails[c["id"]] = "haves sent twice: %s" % sorted(dup)[:5]
        return fails


# ================================================================== suite shallow

def min_depth_sets(w, heads, depth):
    """git's boundary for --depth: commits at minimum distance = depth (from the commit heads); interior = closer"""
    dist = {}
    frontier = [h for h in heads if w.get(h)["t"] == "commit" and w.get(h)["present"]]
    d = 1
    while frontier:
        nxt = []
        for c in frontier:
            if c in dist:
                continue
            dist[c] = d
        for c in frontier:
            if dist[c] == d and d < depth:
                nxt.extend(p for p in w.get(c)["abs"][2] if p not in dist)
        frontier = nxt
        d += 1
    return {c for c, k in dist.items() if k == depth}, {c for c, k in dist.items() if k < depth}


class Shallow(Suite):
    name = "shallow"
    go_cmd = "c36"
    coq_imports = "From GoGit Require Import Model.RevList Model.FetchProto."
    quick_n = 60
    thorough_n = 1500
    coq_chunk = 60

    def gen(self, rng, n, tier):
        cases = []
        for _ in range(n):
            b = pick_weighted(rng, [(3, "random"), (2, "chain"), (2, "crisscross"), (1, "octopus")])
            w, commits, tags, _ = gen_world(rng, b)
            heads = rng.sample(commits, min(len(commits), rng.choice([1, 1, 2])))
            if tags and rng.random() < 0.15:
                heads.append(rng.choice(tags))
            base = finish_case(w, b, [], [], [])
            cases.append({"op": "shallow", "bucket": b, "objs": base["objs"], "hashes": base["hashes"], "abs": base["abs"],
                          "heads": heads, "depth": rng.choice([1, 2, 2, 3, 3, 4, 5])})
        return cases

    def show(self, c):
        return {k: v for k, v in c.items() if k != "objs"}

    def model_expr(self, c):
        ncommit = sum(1 for a in c["abs"] if a[1] == "c")
        fuel = 40 + 4 * (ncommit + len(c["heads"])) * (2 ** min(c["depth"], 6))
        return "c36_shallow %s %s %d %d" % (coq_store(c), coq_list([coq_N(x) for x in c["heads"]]), c["depth"], fuel)

    def nontrivial(self, c):
        return any(a[1] == "c" and len(a[3]) >= 2 for a in c["abs"]) and c["depth"] >= 2

    def oracle(self, ctx, cases, impl, model):
        """the boundary of the property: the shallow commits a depth request yields are the ones at distance `depth`
        from the wanted tips (what git leaves in .git/shallow)"""
        fails = {}
        for c in cases:
            r = impl.get(c["id"])
            if r is None:
                fails[c["id"]] = "no reply"
                continue
            if r.get("panic") or not r["out"].startswith("( ok"):
                continue
            w = CaseWorld(c)
            got_sh = {int(x) for x in sexp(r["out"])[1]}
            want_sh, interior = min_depth_sets(w, c["heads"], c["depth"])
            if got_sh != want_sh:
                fails[c["id"]] = "shallow boundary %s, git's is %s" % (sorted(got_sh), sorted(want_sh))
        return fails

    def finding_class(self, c, reason, reply):
        if reason.startswith("shallow boundary"):
            w = CaseWorld(c)
            merges = any(a[1] == "c" and len(a[3]) >= 2 for a in c["abs"])
            tagheads = any(w.get(h)["t"] != "commit" for h in c["heads"])
            if merges or tagheads or len(c["heads"]) > 1:
                return "shallow-boundary"
        return None


# ================================================================== suite wire

def git(d, *a, inp=None, ok=True):
    p = subprocess.run([GIT, "-C", d] + list(a), input=inp, stdout=subprocess.PIPE, stderr=subprocess.PIPE, env=ENV, timeout=120)
    if ok and p.returncode != 0:
        raise RuntimeError("git %s: %s" % (a, p.stderr.decode()[-300:]))
    return p


def mkrepo(d, w, refs, ids=None, bare=True, head=None):
    subprocess.run([GIT, "init", "-q", "-b", "main"] + (["--bare"] if bare else []) + [d], check=True, env=ENV, stdout=subprocess.DEVNULL)
    g = d if bare else d + "/.git"
    for o in w.objs:
        if not o["present"] or (ids is not None and o["id"] not in ids):
            continue
        h = o["hash"]
        os.makedirs(g + "/objects/" + h[:2], exist_ok=True)
        with open(g + "/objects/" + h[:2] + "/" + h[2:], "wb") as f:
            f.write(zlib.compress(b"%s %d\0" % (o["t"].encode(), len(o["data"])) + o["data"], 1))
    if refs:
        git(d, "update-ref", "--stdin", inp="".join("update %s %s\n" % (n, w.get(i)["hash"]) for n, i in refs).encode())


def repo_state(d):
    refs = sorted(x for x in git(d, "for-each-ref", "--format=%(refname) %(objectname)").stdout.decode().split("\n") if x)
    f = git(d, "fsck", "--connectivity-only", ok=False)
    g = d if os.path.exists(d + "/objects") else d + "/.git"
    sh = sorted(open(g + "/shallow").read().split()) if os.path.exists(g + "/shallow") else []
    return {"refs": refs, "fsck": f.returncode, "fsck_msg": (f.stderr + f.stdout).decode()[-300:], "shallow": sh}


class Wire(Suite):
    """fetch over real transports.  The cases carry a recipe; the oracle builds the repositories, runs git<->git as the
    reference and every other pairing through the harness / the git binary, and compares the client repositories."""
    name = "wire"
    go_cmd = "c36"
    quick_n = 2
    thorough_n = 30

    def gen(self, rng, n, tier):
        cases = []
        for k in range(n):
            cases.append({"op": "noop", "bucket": pick_weighted(rng, [(3, "fresh"), (3, "partial"), (2, "shallow"), (1, "diverged")]),
                          "seed": rng.randrange(1 << 30), "depth": rng.choice([0, 0, 0, 1, 2, 3]), "all_pairings": tier != "quick",
                          "tags": rng.choice(["following", "all", "none"])})
        return cases

    def oracle(self, ctx, cases, impl, model):
        import random
        fails = {}
        self.stats = {"pairings_run": 0, "pairings_compared": 0, "client_failures": 0}
        bin_ = os.path.join(HARNESS, "bin", "c36")
        for c in cases:
            if c.get("op") != "noop":
                continue
            rng = random.Random(c["seed"])
            why = self.run_case(ctx, c, rng, bin_)
            if why:
                fails[c["id"]] = why
        return fails

    def run_case(self, ctx, c, rng, bin_):
        root = os.path.join(ctx.tmp, "wire-%s" % c["id"])
        os.makedirs(root)
        try:
            return self._run(c, rng, bin_, root)
        finally:
            shutil.rmtree(root, ignore_errors=True)

    def _run(self, c, rng, bin_, root):
        w, commits, tags, _ = gen_world(rng, rng.choice(["random", "crisscross", "chain", "skew"]))
        # the server now
        refs_new = []
        for b in ["main", "dev", "topic"]:
            if rng.random() < 0.8 or b == "main":
                refs_new.append(("refs/heads/" + b, rng.choice(commits)))
        for i, t in enumerate(tags[:2]):
            if w.get(t)["t"] == "tag":
                refs_new.append(("refs/tags/v%d" % i, t))
        srv = root + "/srv"
        mkrepo(srv, w, refs_new)
        if repo_state(srv)["fsck"] != 0:
            return None                                   # generator produced an unwalkable store: skip
        # the server as the client saw it before
        old_tips = rng.sample(commits, min(len(commits), rng.choice([1, 2])))
        refs_old = [("refs/heads/" + b, t) for b, t in zip(["main", "dev"], old_tips)]
        if c["bucket"] == "diverged":
            refs_old = [("refs/heads/main", rng.choice(commits)), ("refs/heads/gone", rng.choice(commits))]
        srv_old = root + "/srv_old"
        mkrepo(srv_old, w, refs_old, ids=reach(w, [t for _, t in refs_old]))
        prior = root + "/prior"
        mkrepo(prior, w, [], ids=set(), bare=False)
        spec = "+refs/heads/*:refs/remotes/origin/*"
        if c["bucket"] in ("partial", "diverged"):
            git(prior, "fetch", "-q", "file://" + srv_old, spec)
        elif c["bucket"] == "shallow":
            git(prior, "fetch", "-q", "--depth=%d" % rng.choice([1, 2]), "file://" + srv_old, spec)
        depth = c["depth"]
        tagopt = {"following": [], "all": ["--tags"], "none": ["--no-tags"]}[c["tags"]]
        deptho = ["--depth=%d" % depth] if depth else []
        prune = rng.random() < 0.4
        pruneo = ["--prune"] if prune else []

        def clone_prior(name):
            d = root + "/" + name
            shutil.copytree(prior, d)
            return d
        base = clone_prior("ref")
        p = git(base, "fetch", "-q", *deptho, *tagopt, *pruneo, "file://" + srv, spec, ok=False)
        if p.returncode != 0:
            return None                                   # git itself refuses this scenario
        want = repo_state(base)
        if want["fsck"] != 0:
            return None

        def mapped(st):
            keep = [r for r in st["refs"] if r.startswith("refs/remotes/origin/") or (c["tags"] == "all" and r.startswith("refs/tags/"))]
            return keep
        problems = []
        pairings = [("gogit", 0), ("gogit", 2), ("git", 0), ("git", 2), ("gitclient", 0), ("gitclient", 2)]
        if not c.get("all_pairings"):
            pairings = rng.sample(pairings, 2)
        for server in ("gogit", "git"):
            for proto in (0, 2):
                if (server, proto) not in pairings:
                    continue
                d = clone_prior("gg-%s-%d" % (server, proto))
                git(d, "config", "protocol.version", str(proto))
                case = {"id": 0, "op": "wire", "mode": "fetch", "server": server, "client_dir": d, "server_dir": srv,
                        "specs": [spec], "depth": depth, "tags": c["tags"], "prune": prune}
                pr = subprocess.run([bin_], input=(json.dumps(case) + "\n").encode(), stdout=subprocess.PIPE, stderr=subprocess.PIPE, env=ENV, timeout=180)
                self.stats["pairings_run"] += 1
                try:
                    rep = json.loads(pr.stdout.decode().splitlines()[0])
                except Exception:
                    problems.append("go-git client <- %s server v%d: no reply (%s)" % (server, proto, pr.stderr.decode()[-200:]))
                    continue
                if rep.get("panic"):
                    problems.append("go-git client <- %s server v%d: panic %s" % (server, proto, rep["panic"][:200]))
                    continue
                if not (rep["out"].startswith("( ok") or "uptodate" in rep["out"]):
                    self.stats["client_failures"] += 1
                    continue                              # an unsuccessful fetch is outside the property
                got = repo_state(d)
                self.stats["pairings_compared"] += 1
                tag = "go-git client <- %s server v%d depth=%d %s" % (server, proto, depth, c["bucket"])
                if got["fsck"] != 0:
                    problems.append("%s: client repository not connected after a successful fetch: %s" % (tag, got["fsck_msg"][-160:].replace("\n", " | ")))
                elif mapped(got) != mapped(want):
                    problems.append("%s: references differ from git's: %s vs %s" % (tag, mapped(got)[:4], mapped(want)[:4]))
                elif c["bucket"] == "fresh" and got["shallow"] != want["shallow"]:
                    # with a prior state the boundary also depends on which tips the client chooses to ask for again
                    # (git re-requests every tip under --depth, go-git only the missing ones and keeps the history
                    # it has): only connectivity up to the recorded boundary (fsck) is required there
                    problems.append("%s: shallow boundary differs from git's: %s vs %s" % (tag, [x[:7] for x in got["shallow"]], [x[:7] for x in want["shallow"]]))
        for proto in (0, 2):
            if ("gitclient", proto) not in pairings:
                continue
            d = clone_prior("git-gg-%d" % proto)
            p = git(d, "-c", "protocol.version=%d" % proto, "fetch", "-q", *deptho, *tagopt, *pruneo,
                    "--upload-pack=%s serve upload-pack" % bin_, srv, spec, ok=False)
            self.stats["pairings_run"] += 1
            if p.returncode != 0:
                self.stats["client_failures"] += 1
                continue
            got = repo_state(d)
            self.stats["pairings_compared"] += 1
            tag = "git client <- go-git server v%d depth=%d %s" % (proto, depth, c["bucket"])
            if got["fsck"] != 0:
                problems.append("%s: client repository not connected: %s" % (tag, got["fsck_msg"][-160:].replace("\n", " | ")))
            elif mapped(got) != mapped(want):
                problems.append("%s: references differ from git's" % tag)
            elif c["bucket"] == "fresh" and got["shallow"] != want["shallow"]:
                problems.append("%s: shallow boundary differs from git's: %s vs %s" % (tag, [x[:7] for x in got["shallow"]], [x[:7] for x in want["shallow"]]))
        return "; ".join(problems[:3]) if problems else None

    def finding_class(self, c, reason, reply):
        if "shallow boundary differs" in reason and "not connected" not in reason and "references differ" not in reason \
                and "<- git server" not in reason:
            return "shallow-boundary"
        if "not connected" in reason and "gogit server v0" in reason and c["bucket"] == "shallow":
            return "v0-server-ignores-client-shallow"
        return None

    def extra(self, ctx, cases, impl, model):
        return dict(getattr(self, "stats", {}))


# ================================================================== suite deepen (wire)

UNSHALLOW = 2147483647          # git fetch --unshallow asks for this depth


class Deepen(Suite):
    """an ALREADY SHALLOW client deepens: prior depth 1..3 x new depth {below the root, exactly the root, beyond the
    root, unshallow} x client {go-git, git} x go-git server {v0, v2}, against what git <-> git leaves.  After a fetch that
    reports success every commit reachable from the fetched references down to the recorded shallow boundary must be
    present (git fsck --connectivity-only), the number of commits must be git's (git rev-list --count --all) and the
    shallow file must be git's."""
    name = "deepen"
    go_cmd = "c36"
    quick_n = 4
    thorough_n = 72

    KEY = [("git", 2, "root"), ("gogit", 2, "max"), ("git", 2, "beyond"), ("gogit", 2, "root"), ("git", 2, "max"), ("gogit", 2, "beyond")]

    def gen(self, rng, n, tier):
        cases = []
        for k in range(n):
            if k < len(self.KEY):          # the combinations that reach the root against the v2 server: in every run
                client, proto, deepen = self.KEY[k]
            else:
                client, proto, deepen = rng.choice(["git", "gogit"]), rng.choice([0, 2]), rng.choice(["below", "root", "beyond", "max"])
            cases.append({"op": "noop", "bucket": "%s-v%d-%s" % (client, proto, deepen), "client": client, "proto": proto,
                          "deepen": deepen, "prior": rng.choice([1, 1, 2, 3]), "length": rng.choice([4, 4, 5, 6]),
                          "shape": pick_weighted(rng, [(4, "chain"), (1, "side"), (1, "merge")]), "seed": rng.randrange(1 << 30)})
        return cases

    def oracle(self, ctx, cases, impl, model):
        import random
        fails = {}
        self.stats = {"deepen_run": 0, "deepen_compared": 0, "deepen_client_failures": 0}
        bin_ = os.path.join(HARNESS, "bin", "c36")
        for c in cases:
            if c.get("op") != "noop":
                continue
            root = os.path.join(ctx.tmp, "deepen-%s" % c["id"])
            os.makedirs(root)
            try:
                why = self._run(c, random.Random(c["seed"]), bin_, root)
            finally:
                shutil.rmtree(root, ignore_errors=True)
            if why:
                fails[c["id"]] = why
        return fails

    def _run(self, c, rng, bin_, root):
        w = World()
        commits = []
        n = c["length"]
        for k in range(n):
            t = w.tree([(b"f", "file", w.blob(b"v%d\n" % k)), (b"g", "file", w.blob(b"g%d\n" % (k // 2)))])
            commits.append(w.commit(t, [commits[-1]] if commits else [], 1000 + 10 * k, b"c%d" % k))
        refs = [("refs/heads/main", commits[-1])]
        if c["shape"] == "side":
            refs.append(("refs/heads/old", commits[max(0, n - 3)]))
        elif c["shape"] == "merge" and n >= 4:
            side = w.commit(w.tree([(b"s", "file", w.blob(b"side\n"))]), [commits[1]], 1005, b"side")
            m = w.commit(w.get(commits[-1])["abs"][1], [commits[-1], side], 1000 + 10 * n, b"merge")
            commits.append(m)
            refs = [("refs/heads/main", m)]
        srv = root + "/srv"
        mkrepo(srv, w, refs)
        spec = "+refs/heads/*:refs/remotes/origin/*"
        prior = root + "/prior"
        mkrepo(prior, w, [], ids=set(), bare=False)
        git(prior, "fetch", "-q", "--depth=%d" % c["prior"], "file://" + srv, spec)
        if not repo_state(prior)["shallow"]:
            return None                    # the prior depth already covers the history: not a shallow client
        depth_root = n + (1 if c["shape"] == "merge" and n >= 4 else 0)
        depth = {"below": max(c["prior"] + 1, depth_root - 1), "root": depth_root, "beyond": depth_root + 3, "max": UNSHALLOW}[c["deepen"]]

        def copy(name):
            d = root + "/" + name
            shutil.copytree(prior, d)
            return d

        def full_state(d):
            st = repo_state(d)
            st["count"] = git(d, "rev-list", "--count", "--all", ok=False).stdout.decode().strip()
            return st
        ref = copy("ref")
        p = git(ref, "fetch", "-q", "--depth=%d" % depth, "file://" + srv, spec, ok=False)
        if p.returncode != 0:
            return None
        want = full_state(ref)
        if want["fsck"] != 0:
            return None
        d = copy("test")
        self.stats["deepen_run"] += 1
        tag = "%s client <- go-git server v%d, prior depth %d, deepen to %s (%s, %d commits, %s)" % (
            c["client"], c["proto"], c["prior"], c["deepen"], depth, n, c["shape"])
        if c["client"] == "git":
            p = git(d, "-c", "protocol.version=%d" % c["proto"], "fetch", "-q", "--depth=%d" % depth,
                    "--upload-pack=%s serve upload-pack" % bin_, srv, spec, ok=False)
            if p.returncode != 0:
                self.stats["deepen_client_failures"] += 1
                return None                # an unsuccessful fetch is outside the property
        else:
            git(d, "config", "protocol.version", str(c["proto"]))
            case = {"id": 0, "op": "wire", "mode": "fetch", "server": "gogit", "client_dir": d, "server_dir": srv,
                    "specs": [spec], "depth": depth, "tags": "following"}
            pr = subprocess.run([bin_], input=(json.dumps(case) + "\n").encode(), stdout=subprocess.PIPE, stderr=subprocess.PIPE, env=ENV, timeout=180)
            try:
                rep = json.loads(pr.stdout.decode().splitlines()[0])
            except Exception:
                return "%s: no reply (%s)" % (tag, pr.stderr.decode()[-200:])
            if rep.get("panic"):
                return "%s: panic %s" % (tag, rep["panic"][:200])
            if not (rep["out"].startswith("( ok") or "uptodate" in rep["out"]):
                self.stats["deepen_client_failures"] += 1
                return None
        got = full_state(d)
        self.stats["deepen_compared"] += 1
        if got["fsck"] != 0:
            return "%s: history not connected after a successful fetch: %s" % (tag, got["fsck_msg"][-200:].replace("\n", " | "))
        if [r for r in got["refs"] if r.startswith("refs/remotes/")] != [r for r in want["refs"] if r.startswith("refs/remotes/")]:
            return "%s: references differ from git's" % tag
        if got["count"] != want["count"]:
            return "%s: %s commits reachable, git has %s" % (tag, got["count"], want["count"])
        if got["shallow"] != want["shallow"]:
            return "%s: shallow boundary differs from git's: %s vs %s" % (tag, [x[:7] for x in got["shallow"]], [x[:7] for x in want["shallow"]])
        return None

    def finding_class(self, c, reason, reply):
        # a merge, or two wanted tips one of which is an ancestor of the other: the path-measured depth of getShallowCommits
        if c["shape"] in ("merge", "side") and ("shallow boundary differs" in reason or "commits reachable" in reason):
            return "shallow-boundary"
        if c["proto"] == 0 and c["client"] == "gogit" and ("not connected" in reason or "commits reachable" in reason
                                                           or "shallow boundary differs" in reason):
            return "v0-server-ignores-client-shallow"
        return None

    def extra(self, ctx, cases, impl, model):
        return dict(getattr(self, "stats", {}))


# ================================================================== suite v2serve

def boundary_of(w, tip, depth):
    """(shallow commits, commits held) of a client that cloned `tip` with --depth (minimum-distance boundary)"""
    shl, interior = min_depth_sets(w, [tip], depth)
    return sorted(c for c in shl if w.get(c)["abs"][2]), shl | interior


class V2Serve(Suite):
    """the go-git upload-pack server (protocol v2, a few v0) serving a client store directly: fresh, partial and ALREADY
    SHALLOW clients x depth {0, below the root, exactly the root, beyond, unshallow}.  Model: Model/FetchProto.serve_fetch_v2
    (boundary selection, the two views, shallow-info) + update_shallow."""
    name = "v2serve"
    go_cmd = "c36"
    coq_imports = "From GoGit Require Import Model.RevList Model.FetchProto."
    quick_n = 50
    thorough_n = 1200
    coq_chunk = 35

    def gen(self, rng, n, tier):
        cases = []
        for k in range(n):
            shape = pick_weighted(rng, [(4, "chain"), (2, "random"), (1, "crisscross")])
            w, commits, tags, _ = gen_world(rng, shape)
            want = commits[-1] if rng.random() < 0.7 else rng.choice(commits)
            anc = sorted(ancestors(w, [want]))
            kind = pick_weighted(rng, [(5, "shallow"), (1, "fresh"), (2, "partial")])
            csh, have, haves = [], set(), []
            if kind != "fresh":
                tip = rng.choice(anc)
                if kind == "shallow":
                    csh, held = boundary_of(w, tip, rng.choice([1, 1, 2, 3]))
                else:
                    held = ancestors(w, [tip])
                have = reach(w, sorted(held), set(csh)) if csh else reach(w, [tip])
                haves = [tip]
                if rng.random() < 0.2 and len(held) > 1:
                    haves.append(rng.choice(sorted(held)))
            dist = {}
            frontier, d = [want], 1
            while frontier:
                nxt = []
                for c in frontier:
                    if c not in dist:
                        dist[c] = d
                        nxt.extend(w.get(c)["abs"][2])
                frontier, d = nxt, d + 1
            root_depth = max(dist.values())
            mode = pick_weighted(rng, [(2, "none"), (2, "below"), (3, "root"), (2, "beyond"), (2, "max")])
            depth = {"none": 0, "below": max(1, root_depth - 1), "root": root_depth, "beyond": root_depth + 3, "max": UNSHALLOW}[mode]
            base = finish_case(w, "%s-%s" % (kind, mode), [], [], csh)
            cases.append({"op": "v2serve", "bucket": base["bucket"], "objs": base["objs"], "hashes": base["hashes"], "abs": base["abs"],
                          "client_objs": sorted(have), "shallow": list(csh), "wants": [want], "haves": haves, "depth": depth,
                          "proto": 0 if rng.random() < 0.12 else 2})
        return cases

    def show(self, c):
        return {k: v for k, v in c.items() if k != "objs"}

    def key(self, c):
        return json.dumps([c["abs"], c["client_objs"], c["shallow"], c["wants"], c["haves"], c["depth"], c["proto"]])

    def nontrivial(self, c):
        return bool(c["shallow"]) and c["depth"] > 0

    def model_expr(self, c):
        if c["proto"] != 2:
            return None
        ncommit = sum(1 for a in c["abs"] if a[1] == "c")
        depth = min(c["depth"], ncommit + 5)         # a depth beyond the history behaves like any other: keep the numeral small
        fuel = 60 + 6 * (ncommit + 2) * (2 ** min(depth, ncommit, 7))
        have = set(c["client_objs"])
        client = dict(c)
        client["abs"] = [a for a in c["abs"] if a[0] in have]
        return "c36_v2serve %s %s %s %s %s %d %d" % (coq_store(c), coq_store(client), coq_list([coq_N(x) for x in c["wants"]]),
                                                     coq_list([coq_N(x) for x in c["haves"]]), coq_list([coq_N(x) for x in c["shallow"]]),
                                                     depth, fuel)

    def oracle(self, ctx, cases, impl, model):
        """after a successful fetch the client holds every object reachable from the wants, and from what it had,
        down to the shallow commits it now records"""
        fails = {}
        for c in cases:
            r = impl.get(c["id"])
            if r is None:
                fails[c["id"]] = "no reply"
                continue
            if r.get("panic") or not r["out"].startswith("( ok"):
                continue
            e = sexp(r["out"])
            gained, shl = {int(x) for x in e[1]}, {int(x) for x in e[2]}
            w = CaseWorld(c)
            held = set(c["client_objs"]) | gained
            need = reach(w, c["wants"] + c["haves"], shl)
            miss = sorted(need - held)
            if miss:
                fails[c["id"]] = "after the fetch (depth %d, client shallow %s -> %s) objects reachable down to the shallow boundary are missing: %s" % (
                    c["depth"], c["shallow"], sorted(shl), miss[:8])
        return fails

    def finding_class(self, c, reason, reply):
        if c["proto"] == 0 and c["shallow"] and "are missing" in reason:
            return "v0-server-ignores-client-shallow"
        return None


SUITES = [Refs(), Neg(), Shallow(), V2Serve(), Wire(), Deepen()]
if os.environ.get("C36_SUITES"):          # development aid: run a subset
    SUITES = [s for s in SUITES if s.name in os.environ["C36_SUITES"].split(",")]
