"""C15 Reference store behaves like a map and packing preserves it (DESIGN.md §4.C15)."""
import hashlib
import os
import shutil
import subprocess
from vf.core import Suite, coq_list
from vf.gen import pick_weighted

ID = "C15"
THEOREMS = ["C15_refines_step", "C15_refines_partial", "C15_failed_cas_refuted", "C15_pack_preserves",
            "C15_loose_roundtrip", "C15_packed_roundtrip"]
MODEL_FILES = ["RefStrings.v", "RefName.v", "RefGuard.v", "RefStore.v"]
MODELLED = ("storage/filesystem/dotgit: SetRef/setRefRwfs, checkReferenceAndTruncate, readReferenceFrom, Ref, packedRef, "
            "findPackedRefsInFile, processLine, Refs (HEAD + loose walk + packed with seen), RemoveRef + rewritePackedRefsWithoutRef, "
            "PackRefs (as merged: packed-refs is rewritten before the loose file is removed); plumbing NewReferenceFromStrings, NewHash/FromHex, ObjectID.String; validReferenceName (Model/RefGuard.v) "
            "(Model/RefStore.v) over a model of the directory tree (files, directories left behind, ENOTDIR/EISDIR/ENOTEMPTY); "
            "spec: a name -> value map with compare-and-swap on object ids (Spec/RefMap.v). Not modelled: flock, the temp file and "
            "rename of packed-refs (atomic here), setRefNorwfs (filesystems without read-write open), directory iteration order "
            "(listings are compared sorted), TrimSpace on non-ASCII spaces, lines longer than bufio.Scanner's 64 KiB")
TRUSTED = [
    "C-impl: filesystem.Storage (SetReference, CheckAndSetReference, Reference, IterReferences, RemoveReference, PackRefs) on a real "
    "directory (osfs BoundOS) vs Model/RefStore.step on every generated history",
    "direct oracle: every result compared with a python dict (the map spec) on well-formed histories, and the final directory shown to "
    "/usr/bin/git: `git show-ref --head -d` and `git symbolic-ref`",
    "generator of git-written initial states (loose files, packed-refs with header / peeled lines) compared byte-for-byte with what "
    "git update-ref / symbolic-ref / pack-refs --all write, on a sample per run",
]
ASSUMPTIONS = ["single process, no concurrent writer (C16 is about interleavings): flock and rename are atomic steps",
               "compare-and-swap compares object ids only (Reference.Hash()), so it is vacuous between symbolic references: the map spec does the same",
               "write operations may be refused by the operating system when a path component is a file or the path is a directory "
               "(EISDIR/ENOTDIR/ENOTEMPTY): a refused SetReference leaves the map unchanged; a refused RemoveReference has already "
               "dropped the packed entry and no loose file of that name can exist, so the name is gone from the map as requested"]
RULE = ("case = initial state (fresh / loose written by git / packed-refs written by git with header and peeled lines / packed by go-git / "
        "symbolic refs inside refs/ / malformed: empty files, 3-field lines, CRLF, duplicates, junk hashes) + 3..10 operations over "
        "{refs/heads/a, refs/heads/a/b, refs/heads/b, refs/tags/t, refs/remotes/origin/HEAD, refs/x, HEAD}: set, CAS with current/stale/"
        "absent/symbolic old value, read, list, remove, pack; then a listing and a read of every name; plus a deterministic bucket of "
        "Set/CAS transitions over every pair of value kinds {hash, short symbolic, long symbolic} x {loose, packed-only, HEAD}, shown to git. Non-trivial = at least one "
        "mutation succeeded or was refused; distinct by content")

HX = lambda b: (b.encode() if isinstance(b, str) else b).hex()


def obj_hash(typ, body):
    return hashlib.sha1(typ + b" %d\0" % len(body) + body).hexdigest()


TREE = obj_hash(b"tree", b"")
COMMITBODY = [b"tree %s\nauthor V <v@example.com> 0 +0000\ncommitter V <v@example.com> 0 +0000\n\nv%d\n" % (TREE.encode(), i) for i in range(8)]
BLOBS = [obj_hash(b"commit", b) for b in COMMITBODY]          # the value pool (commits, so that git accepts them under refs/heads/)
TAGBODY = [b"object %s\ntype commit\ntag t%d\ntagger V <v@example.com> 0 +0000\n\nm\n" % (BLOBS[i].encode(), i) for i in range(2)]
TAGS = [obj_hash(b"tag", b) for b in TAGBODY]
PEEL = {TAGS[i]: BLOBS[i] for i in range(2)}
ZERO = "0" * 40

A, AB, B, T, RH, X, HEAD = "refs/heads/a", "refs/heads/a/b", "refs/heads/b", "refs/tags/t", "refs/remotes/origin/HEAD", "refs/x", "HEAD"
T2 = "refs/tags/t/u"
NAMES = [A, AB, B, T, RH, X, HEAD, T2]
SYMTARGETS = [A, B, "refs/heads/missing", T]
BASE_DIRS = ["refs/heads", "refs/tags"]
HEADER = "# pack-refs with: peeled fully-peeled sorted \n"


def hv(h):
    return ("h", h)


def sv(t):
    return ("s", t)


def rand_val(rng, name):
    if name == HEAD:
        return sv(rng.choice([A, B])) if rng.random() < 0.7 else hv(rng.choice(BLOBS[:4]))
    if name == RH:
        return sv(rng.choice(SYMTARGETS)) if rng.random() < 0.7 else hv(rng.choice(BLOBS[:4]))
    if name.startswith("refs/tags/") and rng.random() < 0.5:
        return hv(rng.choice(TAGS))
    if rng.random() < 0.12:
        return sv(rng.choice(SYMTARGETS))
    return hv(rng.choice(BLOBS[:4]))


def loose_content(v):
    return (v[1] + "\n") if v[0] == "h" else ("ref: " + v[1] + "\n")


def render_packed(entries, header=True, peel=True):
    """git's packed-refs: sorted `<hash> <name>` lines, `^<peeled>` after annotated tags"""
    out = HEADER if header else ""
    for n in sorted(entries):
        out += "%s %s\n" % (entries[n][1], n)
        if peel and entries[n][1] in PEEL:
            out += "^%s\n" % PEEL[entries[n][1]]
    return out


def df_conflict(names, n):
    return any(m != n and (m.startswith(n + "/") or n.startswith(m + "/")) for m in names)


def gen_init(rng, bucket):
    """-> (files {path: content str/bytes}, spec0 dict or None when not well-formed)"""
    files = {HEAD: "ref: refs/heads/a\n"}
    spec = {HEAD: sv(A)}
    if bucket == "fresh":
        return files, spec
    pool = [n for n in NAMES if n != HEAD]
    if bucket in ("git-loose", "symbolic"):
        for n in rng.sample(pool, rng.randrange(1, 5)):
            if df_conflict([k for k in spec], n):
                continue
            v = rand_val(rng, n)
            if bucket == "symbolic" and n in (RH, X, B):
                v = sv(rng.choice(SYMTARGETS))
            spec[n] = v
            files[n] = loose_content(v)
        return files, spec
    if bucket in ("git-packed", "gogit-packed"):
        packed = {}
        for n in rng.sample(pool, rng.randrange(1, 6)):
            if df_conflict(list(packed), n):
                continue
            v = rand_val(rng, n)
            if v[0] == "s":
                v = hv(rng.choice(BLOBS[:4]))
            packed[n] = v
        spec.update(packed)
        if bucket == "git-packed":
            files["packed-refs"] = render_packed(packed)
        else:
            files["packed-refs"] = "".join("%s %s\n" % (packed[n][1], n) for n in rng.sample(sorted(packed), len(packed)))
        # loose refs on top: shadowing a packed value, or new
        for n in rng.sample(pool, rng.randrange(0, 3)):
            if df_conflict([k for k in files if k.startswith("refs/")] + list(packed), n):
                continue
            v = rand_val(rng, n)
            if packed.get(n) == v:        # git writes no loose file when the value does not change
                continue
            spec[n] = v
            files[n] = loose_content(v)
        return files, spec
    # malformed: no map spec, the model comparison alone
    kind = rng.choice(["empty-loose", "three-field", "crlf", "dup", "junk-hash", "no-final-lf", "comment-mid", "empty-head",
                       "spaces", "short-hash", "upper-hash", "one-field", "sha256-len", "blank-lines", "sym-packed", "head-dir", "long-hash"])
    h = BLOBS[:4]
    if kind == "empty-loose":
        files[A] = ""
        files["packed-refs"] = "%s %s\n" % (h[0], A)
    elif kind == "three-field":
        files["packed-refs"] = "%s %s\nref: %s %s\n%s %s\n" % (h[0], A, A, RH, h[1], T)
    elif kind == "crlf":
        files["packed-refs"] = "%s %s\r\n%s %s\r\n" % (h[0], A, h[1], B)
        files[T] = h[2] + "\r\n"
    elif kind == "dup":
        files["packed-refs"] = "%s %s\n%s %s\n%s %s\n" % (h[0], A, h[1], A, h[2], B)
    elif kind == "junk-hash":
        files[A] = "not-a-hash\n"
        files["packed-refs"] = "zzzz %s\n" % B
    elif kind == "no-final-lf":
        files["packed-refs"] = "%s %s\n%s %s" % (h[0], A, h[1], B)
        files[T] = h[2]
    elif kind == "comment-mid":
        files["packed-refs"] = "# c1\n%s %s\n# c2 with spaces\n^%s\n%s %s\n" % (h[0], A, h[3], h[1], B)
    elif kind == "empty-head":
        files[HEAD] = ""
    elif kind == "spaces":
        files[A] = "  %s \t\n\n" % h[0]
        files[B] = "ref:  refs/heads/a\n"
        files[X] = " ref: refs/heads/a\n"
    elif kind == "short-hash":
        files[A] = "abcd\n"
        files["packed-refs"] = "abc %s\n%s %s\n" % (B, h[0] + "ff" * 15, T)
    elif kind == "upper-hash":
        files[A] = h[0].upper() + "\n"
        files["packed-refs"] = "%s %s\n" % (h[1].upper(), B)
    elif kind == "one-field":
        files["packed-refs"] = "%s %s\n%s\n" % (h[0], A, h[1])
    elif kind == "sha256-len":
        files[A] = "ab" * 32 + "\n"
        files[B] = "zz" * 32 + "\n"
    elif kind == "blank-lines":
        files["packed-refs"] = "\n%s %s\n\n\r\n%s %s\n" % (h[0], A, h[1], B)
    elif kind == "sym-packed":
        files["packed-refs"] = "ref:%s %s\n" % (A, B)
    elif kind == "head-dir":
        del files[HEAD]
        files["HEAD/x"] = h[0] + "\n"          # HEAD is a directory
    elif kind == "long-hash":
        files[A] = h[0] + "abcdef0123\n"        # 50 hex digits: 25 bytes kept, 20 printed
        files["packed-refs"] = "%s %s\n" % (h[1] + "ff" * 20, B)
    return files, None


def gen_ops(rng, spec, files, n_ops, allow_cas_absent):
    """random history; `cur`/`loose` approximate the store so that compare-and-swaps mostly name the current value.
    A failing CAS on a name without a loose file (known finding failed-cas-empty-file) only when allowed."""
    ops = []
    cur = dict(spec) if spec is not None else {}
    loose = {n for n in files if n != "packed-refs"}
    for _ in range(n_ops):
        k = pick_weighted(rng, [(4, "set"), (4, "cas"), (2, "ref"), (2, "refs"), (2, "rm"), (3, "pack")])
        name = rng.choice(NAMES)
        if k == "set":
            v = rand_val(rng, name)
            ops.append({"op": "set", "name": HX(name), "val": v, "old": None})
            cur[name] = v
            loose.add(name)
        elif k == "cas":
            v = rand_val(rng, name)
            how = pick_weighted(rng, [(5, "current"), (3, "stale"), (1, "sym"), (1, "zero")])
            c = cur.get(name)
            if (c is None or how != "current") and name not in loose and not allow_cas_absent:
                if c is None:
                    continue
                how = "current"
            if how == "current" and c is not None:
                old = c
            elif how == "sym":
                old = sv(rng.choice(SYMTARGETS))
            elif how == "zero":
                old = hv(ZERO)
            else:
                old = hv(rng.choice(BLOBS[4:6]))
            ops.append({"op": "set", "name": HX(name), "val": v, "old": old})
            if c is not None and vhash(c) == vhash(old):
                cur[name] = v
                loose.add(name)
        elif k == "ref":
            ops.append({"op": "ref", "name": HX(name)})
        elif k == "refs":
            ops.append({"op": "refs"})
        elif k == "rm":
            ops.append({"op": "rm", "name": HX(name)})
            cur.pop(name, None)
            loose.discard(name)
        else:
            ops.append({"op": "pack"})
            loose = {n for n in loose if not (n.startswith("refs/") and cur.get(n, ("s",))[0] == "h")}
    # final projection: the listing and a read of every name
    ops.append({"op": "refs"})
    for n in NAMES:
        ops.append({"op": "ref", "name": HX(n)})
    return ops


def val_json(v):
    return None if v is None else ({"h": v[1]} if v[0] == "h" else {"sym": HX(v[1])})


def coq_val(v):
    return '(mk_hash "%s")' % v[1] if v[0] == "h" else '(mk_sym "%s")' % HX(v[1])


def vhash(v):
    return v[1] if v is not None and v[0] == "h" else ZERO


def out_of(name, v):
    return "( x%s %s x%s )" % (HX(name), "hash" if v[0] == "h" else "sym", HX(v[1]))


class Main(Suite):
    name = "main"
    go_cmd = "c15"
    coq_imports = "From GoGit Require Import Model.RefStore."
    quick_n = 120
    thorough_n = 3000
    coq_chunk = 25

    def transitions(self, rng):
        """Set / CAS over every pair of value kinds {hash, symbolic short, symbolic long} x {loose, packed-only, HEAD}:
        the new encoded line is shorter, equal or longer than the stored one; read, listing and git afterwards"""
        LONG = "refs/heads/" + "l" * 50
        kinds = {"hash": lambda: hv(rng.choice(BLOBS[:4])), "symshort": lambda: sv(A), "symlong": lambda: sv(LONG)}
        cases = []
        for place in ("loose", "packed", "head"):
            for fk in kinds:
                if place == "packed" and fk != "hash":
                    continue
                for tk in kinds:
                    for mode in ("set", "cas"):
                        name = HEAD if place == "head" else rng.choice([B, RH, X])
                        fv, tv = kinds[fk](), kinds[tk]()
                        if fv == tv:
                            tv = hv(BLOBS[3] if fv[1] != BLOBS[3] else BLOBS[2])
                        files = {HEAD: "ref: refs/heads/a\n", A: BLOBS[4] + "\n"}
                        spec = {HEAD: sv(A), A: hv(BLOBS[4])}
                        spec[name] = fv
                        if place == "packed":
                            files["packed-refs"] = render_packed({name: fv}, header=rng.random() < 0.5)
                        else:
                            files[name] = loose_content(fv)
                        ops = [{"op": "set", "name": HX(name), "val": tv, "old": fv if mode == "cas" else None},
                               {"op": "ref", "name": HX(name)}, {"op": "refs"}]
                        if rng.random() < 0.5:
                            ops.append({"op": "pack"})
                        # and back again, so that the longer line is shortened too
                        ops.append({"op": "set", "name": HX(name), "val": fv, "old": tv if mode == "cas" else None})
                        ops.append({"op": "refs"})
                        for nm in NAMES:
                            ops.append({"op": "ref", "name": HX(nm)})
                        cases.append(self.mk_case("transition", files, spec, ops[:-len(NAMES) - 2] if rng.random() < 0.5 else ops, git=True))
        return cases

    def gen(self, rng, n, tier):
        cases = self.transitions(rng)
        for i in range(n):
            bucket = pick_weighted(rng, [(2, "fresh"), (2, "git-loose"), (3, "git-packed"), (2, "gogit-packed"), (2, "symbolic"), (2, "malformed")])
            files, spec = gen_init(rng, bucket)
            ops = gen_ops(rng, spec, files, rng.randrange(3, 11), allow_cas_absent=(spec is None or rng.random() < 0.08))
            cases.append(self.mk_case(bucket, files, spec, ops, git=(spec is not None and rng.random() < (0.35 if tier == "quick" else 0.2))))
        return cases

    def mk_case(self, bucket, files, spec, ops, git=False):
        enc = lambda c: (c.encode() if isinstance(c, str) else c).hex()
        c = {"bucket": bucket,
             "init": {"files": [[HX(p), enc(files[p])] for p in sorted(files)], "dirs": [HX(d) for d in BASE_DIRS]},
             "ops": [dict(o, val=val_json(o["val"]), old=val_json(o["old"])) if o["op"] == "set" else o for o in ops],
             "git": git}
        if spec is not None:
            c["spec0"] = {n: list(v) for n, v in spec.items()}
        return c

    def model_expr(self, c):
        fl, pk = [], "None"
        for p, content in c["init"]["files"]:
            if bytes.fromhex(p) == b"packed-refs":
                pk = '(Some "%s")' % content
            else:
                fl.append('("%s", "%s")' % (p, content))
        ops = []
        for o in c["ops"]:
            if o["op"] == "set":
                v = o["val"]
                cv = '(mk_hash "%s")' % v["h"] if "h" in v else '(mk_sym "%s")' % v["sym"]
                old = o.get("old")
                co = "None" if old is None else ("(Some (mk_hash \"%s\"))" % old["h"] if "h" in old else "(Some (mk_sym \"%s\"))" % old["sym"])
                ops.append('OSet (unhex "%s") %s %s' % (o["name"], cv, co))
            elif o["op"] == "ref":
                ops.append('ORef (unhex "%s")' % o["name"])
            elif o["op"] == "refs":
                ops.append("ORefs")
            elif o["op"] == "rm":
                ops.append('ORm (unhex "%s")' % o["name"])
            else:
                ops.append("OPack")
        return "c15_run (c15_init %s %s %s) %s" % (coq_list(fl), coq_list(['"%s"' % d for d in c["init"]["dirs"]]), pk, coq_list(ops))

    def nontrivial(self, c):
        return any(o["op"] in ("set", "rm", "pack") for o in c["ops"])

    def show(self, c):
        d = {"id": c.get("id"), "bucket": c["bucket"],
             "init": {bytes.fromhex(p).decode("latin1"): bytes.fromhex(x).decode("latin1") for p, x in c["init"]["files"]},
             "ops": []}
        for o in c["ops"]:
            nm = bytes.fromhex(o.get("name", "")).decode("latin1")
            if o["op"] == "set":
                f = lambda v: None if v is None else (v["h"][:8] if "h" in v else "->" + bytes.fromhex(v["sym"]).decode("latin1"))
                d["ops"].append("set %s %s old=%s" % (nm, f(o["val"]), f(o.get("old"))))
            else:
                d["ops"].append((o["op"] + " " + nm).strip())
        return d

    # ---- the map spec, executed next to the implementation's answers
    def spec_run(self, c, outs):
        """-> (reason or None, final dict, tags): compares every answer with the map"""
        m = {n: tuple(v) for n, v in c["spec0"].items()}
        ever = set(m)
        loose = {bytes.fromhex(p).decode("latin1") for p, _ in c["init"]["files"]} - {"packed-refs"}
        tags = set()
        for i, (o, got) in enumerate(zip(c["ops"], outs)):
            name = bytes.fromhex(o.get("name", "")).decode("latin1")
            where = "op %d (%s %s)" % (i, o["op"], name)
            if o["op"] == "set":
                v = ("h", o["val"]["h"]) if "h" in o["val"] else ("s", bytes.fromhex(o["val"]["sym"]).decode("latin1"))
                old = o.get("old")
                if got == "( err fs )":
                    if not df_conflict(ever, name):
                        return where + ": refused by the filesystem without any directory/file conflict in the history", m, tags
                    continue
                ever.add(name)          # the file (possibly empty) and its directories exist from here on
                if old is None:
                    want = "( ok )"
                else:
                    oh = old["h"] if "h" in old else ZERO
                    c0 = m.get(name)
                    if c0 is None:
                        want = "( err notfound )"
                    elif vhash(c0) != oh:
                        want = "( err changed )"
                    else:
                        want = "( ok )"
                    if want != "( ok )" and name not in loose:
                        tags.add("failed-cas-no-loose-file")
                if got != want:
                    return where + ": answered %s, the map says %s" % (got, want), m, tags
                if want == "( ok )":
                    m[name] = v
                    ever.add(name)
                    loose.add(name)
            elif o["op"] == "ref":
                want = "( ok %s )" % out_of(name, m[name]) if name in m else "( err notfound )"
                if got != want:
                    return where + ": answered %s, the map says %s" % (got[:200], want), m, tags
            elif o["op"] == "refs":
                want = "( ok (%s ) )" % "".join(" " + out_of(n, m[n]) for n in sorted(m, key=lambda s: s.encode("latin1")))
                if got != want:
                    return where + ": listing %s, the map says %s" % (got[:300], want[:300]), m, tags
            elif o["op"] == "rm":
                # RemoveRef rewrites packed-refs first and removes the loose path second: when the OS refuses the
                # second step (the path is a non-empty directory or lies below a regular file) no loose file of that
                # name exists and the packed entry is already gone, so the name leaves the map either way
                if got == "( err fs )":
                    if not df_conflict(ever, name):
                        return where + ": refused by the filesystem without any directory/file conflict in the history", m, tags
                elif got != "( ok )":
                    return where + ": answered %s, the map says ( ok )" % got, m, tags
                m.pop(name, None)
                loose.discard(name)
            else:
                if got != "( ok )":
                    return where + ": PackRefs answered %s" % got, m, tags
                if any(n in loose and n.startswith("refs/") and m.get(n, ("s",))[0] == "s" and n in m for n in m):
                    tags.add("pack-with-symbolic-loose")
                loose = {n for n in loose if not (n.startswith("refs/") and n in m and m[n][0] == "h")}
        return None, m, tags

    @staticmethod
    def split_outs(text):
        """top-level elements of '( a b ( c ) )'"""
        assert text.startswith("( ") and text.endswith(")")
        body = text[2:-1]
        outs, depth, cur = [], 0, []
        for tok in body.split(" "):
            if tok == "":
                continue
            cur.append(tok)
            if tok == "(":
                depth += 1
            elif tok == ")":
                depth -= 1
            if depth == 0:
                outs.append(" ".join(cur))
                cur = []
        return outs

    def resolve(self, m, name, depth=0):
        v = m.get(name)
        if v is None or depth > 5:
            return None
        return v[1] if v[0] == "h" else self.resolve(m, v[1], depth + 1)

    def cyclic(self, m, name):
        seen = set()
        while name in m and m[name][0] == "s":
            if name in seen:
                return True
            seen.add(name)
            name = m[name][1]
        return False

    def chain_end(self, m, name):
        t = m[name][1]
        while t in m and m[t][0] == "s":
            t = m[t][1]
        return t

    def oracle(self, ctx, cases, impl, model):
        fails = {}
        self.tags = {}
        self.stats = {"map_checked": 0, "git_checked": 0, "git_skipped": 0}
        for c in cases:
            if "spec0" not in c:
                continue
            r = impl.get(c["id"])
            if r is None or r.get("panic"):
                continue
            outs = self.split_outs(r["out"])
            why, m, tags = self.spec_run(c, outs)
            self.tags[c["id"]] = tags
            self.stats["map_checked"] += 1
            if why:
                fails[c["id"]] = why
                continue
            ex = r.get("extra") or {}
            if c.get("git") and "show_ref" in ex:
                hd = m.get(HEAD)
                if hd is None or (hd[0] == "s" and not hd[1].startswith("refs/")):
                    self.stats["git_skipped"] += 1
                    continue
                want = set()
                for n in m:
                    v = self.resolve(m, n)
                    if v is not None:
                        want.add("%s %s" % (v, n))
                        if v in PEEL and n != HEAD:
                            want.add("%s %s^{}" % (PEEL[v], n))
                got = set(l for l in ex["show_ref"].split("\n") if l and not l.endswith(" HEAD^{}"))
                self.stats["git_checked"] += 1
                if got != want:
                    fails[c["id"]] = "git show-ref --head -d sees %s, the map says %s (rc=%s)" % (sorted(got - want) or "nothing extra", sorted(want - got) or "nothing missing", ex.get("show_ref_rc"))
                    continue
                # git refuses to read a symbolic reference that is part of a cycle: those are not compared
                # (git 2.39 symbolic-ref follows a chain of symbolic references to its last name)
                wsym = {HX(n): HX(self.chain_end(m, n)) for n in m if m[n][0] == "s" and not self.cyclic(m, n)}
                gsym = {k: v for k, v in (ex.get("symbolic") or {}).items() if k in wsym or v != "!"}
                if gsym != wsym:
                    fails[c["id"]] = "git symbolic-ref sees %s, the map says %s" % (ex.get("symbolic"), wsym)
        if os.environ.get("VERIF_DEBUG"):
            for i, w in sorted(fails.items()):
                print("FAIL", i, self.tags.get(i), w[:400])
        return fails

    def finding_class(self, case, reason, reply):
        tags = getattr(self, "tags", {}).get(case.get("id"), set())
        if "failed-cas-no-loose-file" in tags and ("( err empty )" in reason or "git show-ref" in reason or "git symbolic-ref" in reason):
            return "failed-cas-empty-file"
        return None

    def extra(self, ctx, cases, impl, model):
        # C-git of the generator: what python renders as "written by git" is what git writes
        n = bad = 0
        for c in [c for c in cases if c["bucket"] in ("git-packed", "git-loose", "symbolic") and "spec0" in c][:6]:
            n += 1
            why = self.git_writes(ctx, c)
            if why:
                bad += 1
                ctx.notes.append("generator_mismatch: %s" % why)
        return dict(self.stats, generator_vs_git_cases=n, generator_mismatches=bad)

    def git_writes(self, ctx, c):
        d = os.path.join(ctx.tmp, "gw-%s" % c["id"])
        env = {"PATH": "/usr/bin:/bin", "HOME": ctx.tmp, "GIT_CONFIG_NOSYSTEM": "1", "LC_ALL": "C", "GIT_DIR": d}
        errs = []

        def run(args, inp=None):
            p = subprocess.run(["/usr/bin/git"] + args, input=inp, stdout=subprocess.PIPE, stderr=subprocess.PIPE, env=env, cwd=ctx.tmp, timeout=60)
            if p.returncode != 0:
                errs.append("git %s: %s" % (" ".join(args), p.stderr.decode("latin1")[:200]))
            return p
        run(["init", "-q", "--bare", d])
        run(["hash-object", "-w", "-t", "tree", "--stdin"], b"")
        for b in COMMITBODY:
            run(["hash-object", "-w", "-t", "commit", "--stdin"], b)
        for b in TAGBODY:
            run(["hash-object", "-w", "-t", "tag", "--stdin"], b)
        files = {bytes.fromhex(p).decode("latin1"): bytes.fromhex(x) for p, x in c["init"]["files"]}
        spec = {k: tuple(v) for k, v in c["spec0"].items()}
        packed_names = set()
        if "packed-refs" in files:
            for line in files["packed-refs"].decode().split("\n"):
                if line and line[0] not in "#^":
                    packed_names.add(line.split(" ")[1])
        # values that end up in packed-refs first (a loose file may shadow them later)
        for nm in sorted(packed_names):
            val = [l.split(" ")[0] for l in files["packed-refs"].decode().split("\n") if l.endswith(" " + nm)][0]
            run(["update-ref", nm, val])
        if packed_names:
            run(["pack-refs", "--all"])
        for nm in sorted(files):
            if nm in ("packed-refs",):
                continue
            v = spec[nm]
            if v[0] == "s":
                run(["symbolic-ref", nm, v[1]])
            else:
                run(["update-ref", "--no-deref", nm, v[1]])
        for nm in sorted(files):
            p = os.path.join(d, nm)
            got = open(p, "rb").read() if os.path.isfile(p) else None
            if got != files[nm]:
                shutil.rmtree(d, ignore_errors=True)
                return "%s: git wrote %r, generator %r %s" % (nm, got, files[nm], errs)
        shutil.rmtree(d, ignore_errors=True)
        return None


SUITES = [Main()]
