"""C06 Delta encoding round-trips and all delta appliers agree with git (DESIGN.md §4.C06)."""
import json
import os
import subprocess

from vf.core import Suite, HARNESS, GOENV
from vf.gen import rbytes, pick_weighted
from props import _gitpack as G
from props import _delta as D

ID = "C06"
THEOREMS = [
    "C06_tables_tied",
    "C06_apply_eq_git_partial", "C06_apply_eq_git_refuted",
    "C06_stream_eq_git_partial", "C06_stream_eq_git_refuted",
    "C06_writer_eq_git_partial",
    "C06_writer_srcsz_partial", "C06_writer_srcsz_refuted",
    "C06_wrapper_partial", "C06_wrapper_refuted",
    "C06_no_partial_success", "C06_no_partial_success_stream", "C06_no_partial_success_writer",
    "C06_diff_roundtrip", "C06_diff_roundtrip_stream", "C06_diff_roundtrip_writer", "C06_diff_git",
    "C06_fuel_sufficient", "C06_leaves_tied",
]
MODEL_FILES = ["Delta.v"]
MODELLED = (
    "plumbing/format/packfile/patch_delta.go: patchDelta, PatchDelta, ReaderFromDelta (as seen by a consumer reading the "
    "pipe to its end, incl. the re-open/discard positioning of the base reader), patchDeltaWriter (bytes.Reader and other "
    "io.ReaderAt bases; SectionReader/LimitedReader short reads), decodeOffset/decodeSize (both variants), the leaf predicates "
    "(tied to the gotrans output Gen/C06.v); packfile/util: DecodeLEB128, DecodeLEB128FromReader, EncodeLEB128; "
    "diff_delta.go: diffDelta main loop, encodeInsertOperation, encodeCopyOperation, matchLength, findMatch's size guards; "
    "delta_index.go's hash table (init/scan/hashBlock) is abstracted to an ARBITRARY candidate function; "
    "spec: git 2.39 patch_delta/get_delta_hdr_size (Spec/GitDelta.v). "
    "Not modelled: bufio chunking of the delta reader (exercised with 1-byte/half/data+err readers), the SHA the parser "
    "applier computes (checked against the written bytes by the harness), sync pools, io.Pipe goroutine."
)
TRUSTED = [
    "C-impl: packfile.VerifPatchDelta/PatchDelta/ReaderFromDelta/VerifPatchDeltaWriter/DiffDelta (-tags verif) vs Model/Delta on every case",
    "C-git: Spec/GitDelta.git_patch_delta vs `git index-pack` (fallback `git unpack-objects`) on a pack holding the delta as REF_DELTA, every apply case",
    "diff correspondence: the candidate function is reconstructed from the copy commands of go-git's own DiffDelta output "
    "(membership `exists pick, diff pick src tgt = impl delta`)",
]
ASSUMPTIONS = [
    "git's patch_delta is as transcribed in Spec/GitDelta.v (validated against git 2.39.5 on each case); header varints of 11+ bytes are "
    "undefined behaviour in git's C (shift >= 64) and excluded (GUndef)",
    "uint is 64 bits; len(src), len(tgt) < 2^63 (Go slice lengths) in the round-trip theorems, len(src) <= 2^32 forced by encodeCopyOperation",
]
RULE = ("apply: (src, delta) with deltas from a grammar {valid, non-canonical (explicit zero operand bytes for every subset of the "
        "4 offset / 3 size bits, both spellings of a 64 KiB copy on sources just over 64 KiB, split inserts, zero-padded headers), truncated at a byte, wrong header sizes on the grid, copy past the source, "
        "copy size 0 (=64 KiB), cmd 0, trailing garbage, < 4 bytes, 9/10/11-byte varints, empty source, bit flips, random bytes}; "
        "diff: (src, tgt) pairs {equal, disjoint, edits, repeated 16-byte blocks, insert runs 126..255, copies 65535..131072, "
        "src/tgt < 16 bytes, empty}; non-trivial = delta/target non-empty; distinct by content")

GRID_SZ = [0, 1, 2, 15, 16, 17, 126, 127, 128, 255, 256, 65535, 65536, 65537, 2**31 - 1, 2**31, 2**32 - 1, 2**32, 2**63 - 1]


def run_bin(cases):
    data = "".join(json.dumps(c) + "\n" for c in cases).encode()
    p = subprocess.run([os.path.join(HARNESS, "bin", "c06")], input=data, stdout=subprocess.PIPE,
                       stderr=subprocess.PIPE, timeout=600, env=GOENV)
    res = {}
    for line in p.stdout.decode("utf-8", "replace").splitlines():
        try:
            r = json.loads(line)
            res[r["id"]] = r
        except Exception:
            pass
    return res


def applier_oids(reply):
    """per applier: git blob id (bytes) of its output, or None when it rejected"""
    ex = reply.get("extra") or {}
    return [bytes.fromhex(o) if o else None for o in ex.get("oids", [])]


# ------------------------------------------------------------------ generators

def rand_src(rng, big=False):
    r = rng.random()
    if big:
        # >= 64 KiB, low entropy but position dependent; compact encoding
        pat = rbytes(rng, rng.choice([7, 13, 16, 31]))
        n = rng.choice([65536, 65537, 70000, 131072 + 40]) // len(pat) + 1
        return D.seg(rbytes(rng, rng.randrange(0, 5))) + [[pat.hex(), n]] + D.seg(rbytes(rng, rng.randrange(1, 40)))
    if r < 0.08:
        return D.seg(b"")
    if r < 0.3:
        return D.seg(rbytes(rng, rng.randrange(1, 16)))
    if r < 0.8:
        return D.seg(rbytes(rng, rng.randrange(16, 200), rng.choice([None, b"ab", b"abcdefgh\n"])))
    return D.seg(rbytes(rng, rng.randrange(200, 700), rng.choice([None, b"abc\n"])))


def valid_delta(rng, src, nops=None, tgt_limit=4000):
    """random well-formed delta for src: (delta bytes, target bytes)"""
    ops = []
    tgt = bytearray()
    nops = rng.randrange(0, 7) if nops is None else nops
    for _ in range(nops):
        if src and rng.random() < 0.6:
            off = rng.randrange(len(src))
            mx = len(src) - off
            sz = rng.choice([1, mx, min(mx, 16), min(mx, MAXC), rng.randrange(1, mx + 1)])
            if len(tgt) + sz > max(tgt_limit, 140000):
                continue
            force = rng.choice([0, 0, 0, rng.randrange(0x80)]) | rng.choice([0, 0x100])
            ops.append(D.copy_op(off, sz, force))
            tgt += src[off:off + sz]
        else:
            data = rbytes(rng, rng.choice([1, 2, 126, 127, rng.randrange(1, 128)]))
            ops.append(D.insert_op(data))
            tgt += data
    return D.leb(len(src)) + D.leb(len(tgt)) + b"".join(ops), bytes(tgt), ops


MAXC = D.MAXCOPY


def gen_apply_case(rng, bucket):
    big = bucket == "big-copy"
    src_segs = rand_src(rng, big)
    if bucket == "empty-src":
        src_segs = D.seg(b"")
    src = D.expand(src_segs)
    delta, tgt, ops = valid_delta(rng, src)
    if bucket == "valid" or bucket == "empty-src":
        pass
    elif bucket == "big-copy":
        off = rng.randrange(0, len(src) - MAXC)
        sz = rng.choice([MAXC, MAXC - 1, 1, 0xff00, 0x100])
        ops = [D.copy_op(off, sz, rng.choice([0, 0x70]) if sz != MAXC else 0), D.insert_op(b"z")]
        if rng.random() < 0.3:
            ops.append(D.copy_op(0, MAXC, 0x100))   # explicit 3-byte size 0x010000
            tl = sz + 1 + MAXC
        else:
            tl = sz + 1
        tl += rng.choice([0, 0, 0, 1, -1])
        delta = D.leb(len(src)) + D.leb(tl) + b"".join(ops)
    elif bucket == "truncated":
        if len(delta) > 0:
            delta = delta[:rng.randrange(0, len(delta))]
    elif bucket == "srcsz":
        h = D.parse_hdr(delta) if len(delta) >= 2 else None
        v = rng.choice([len(src) + 1, max(0, len(src) - 1), rng.choice(GRID_SZ), len(src) + 128])
        delta = D.leb(v) + D.leb(len(tgt)) + b"".join(ops)
    elif bucket == "tgtsz":
        v = rng.choice([len(tgt) + 1, max(0, len(tgt) - 1), rng.choice(GRID_SZ), 0, len(tgt) + 127])
        delta = D.leb(len(src)) + D.leb(v) + b"".join(ops)
    elif bucket == "copy-range":
        # a copy reaching past / exactly to the end of the source, or larger than what is left of the target
        n = len(src)
        off = rng.choice([n, max(0, n - 1), 0, n + 1, rng.choice(GRID_SZ) & 0xffffffff, rng.randrange(n + 1)])
        sz = rng.choice([1, 2, max(1, n - off) if off <= n else 1, max(1, n - off) + 1 if off <= n else 5, MAXC, rng.choice(GRID_SZ) & 0xffffff or 1])
        op = D.copy_op(off, sz, rng.choice([0, 0, 0x7f]))
        declared = rng.choice([sz, sz, sz + 1, max(0, sz - 1)])
        pre = D.insert_op(b"q") if rng.random() < 0.3 else b""
        delta = D.leb(n) + D.leb(declared + (1 if pre else 0)) + pre + op
    elif bucket == "cmd0":
        k = rng.randrange(len(ops) + 1)
        delta = D.leb(len(src)) + D.leb(len(tgt)) + b"".join(ops[:k]) + b"\0" + b"".join(ops[k:])
    elif bucket == "trailing":
        delta = delta + rng.choice([b"\0", b"\x01", b"\x01a", b"\x80", b"\x90\x01", rbytes(rng, 3)])
    elif bucket == "tiny":
        n = len(src)
        delta = rng.choice([b"", D.leb(n), D.leb(n) + b"\0", D.leb(n) + b"\x80", D.leb(n) + b"\x01", D.leb(n) + b"\x01a",
                            D.leb_padded(n, 2) + b"\0" if n < 128 else D.leb(n) + b"\0", D.leb_padded(n, 3) + b"\0",
                            D.leb_padded(n, 4), D.leb_padded(n, 3) + b"\x80", D.leb(n) + D.leb_padded(0, 3), D.leb(n) + b"\x81\x80\x80",
                            bytes([0x80 | (n & 0x7f)]) + b"\x80" * rng.randrange(1, 9), rbytes(rng, rng.randrange(1, 4))])
    elif bucket == "varint":
        w = rng.choice([2, 3, 8, 9, 9, 10, 10, 10, 11, 12])
        which = rng.choice(["src", "tgt", "both"])
        top = rng.choice([0, 0, 0, 1, 2, 0x40])          # payload of the last byte
        def enc(v):
            e = bytearray(D.leb_padded(v, w))
            e[-1] |= top if v >> (7 * (w - 1)) == 0 else 0
            return bytes(e)
        hs = enc(len(src)) if which in ("src", "both") else D.leb(len(src))
        ht = enc(len(tgt)) if which in ("tgt", "both") else D.leb(len(tgt))
        delta = hs + ht + b"".join(ops)
    elif bucket == "bitflip":
        if delta:
            b = bytearray(delta)
            for _ in range(rng.choice([1, 1, 2])):
                b[rng.randrange(len(b))] ^= 1 << rng.randrange(8)
            delta = bytes(b)
    elif bucket == "random":
        delta = D.leb(len(src)) + rbytes(rng, rng.randrange(0, 12)) if rng.random() < 0.7 else rbytes(rng, rng.randrange(0, 16))
    elif bucket == "short-insert":
        # the delta ends inside (or right after) the data of an insert, or inside a copy command
        data = rbytes(rng, rng.randrange(1, 20))
        cut = rng.randrange(0, len(data) + 1)
        pre = b"".join(ops)
        if rng.random() < 0.5:
            delta = D.leb(len(src)) + D.leb(len(tgt) + len(data)) + pre + bytes([len(data)]) + data[:cut]
        else:
            op = D.copy_op(rng.choice([0x01020304, 0x0102, 1]), rng.choice([0x010203, 0x0102, 1]))
            delta = D.leb(len(src)) + D.leb(len(tgt) + 5) + pre + op[:rng.randrange(1, len(op) + 1)]
    return {"bucket": bucket, "kind": "apply", "src": src_segs, "delta": D.seg(delta), "chunk": rng.choice([0, 0, 1, 2, 3])}


# ---- non-canonical encodings git accepts: explicit zero operand bytes of copy commands (every subset of the
# 4 offset bits and 3 size bits), the two spellings of a 64 KiB copy (size 0 = no/zero size bytes, or 0x010000),
# split inserts, zero-padded header varints (up to 9 bytes)

SIZE_FORMS = [("zero", m) for m in range(1, 8)] + [("one", m) for m in range(4)] + [("canon", 0)]


def padded_hdr(rng, n):
    need = max(1, (n.bit_length() + 6) // 7)
    return D.leb_padded(n, rng.choice([need, need, min(9, need + 1), rng.randrange(need, 10)]))


def noncanon_64k_case(rng, omask, form, exact=True):
    """one 64 KiB copy on a source of just over 64 KiB, the size spelled `form`, offset bytes `omask` explicit"""
    r = rng.randrange(1, 40)
    pat = rbytes(rng, rng.choice([16, 31, 64]))
    n = MAXC // len(pat) + 1
    src_segs = [[pat.hex(), n]] + D.seg(rbytes(rng, r + (len(pat) * n - MAXC) % 3))
    srclen = len(pat) * n + len(D.expand(src_segs[1:]))
    off = 0 if omask & 1 else rng.choice([0, rng.randrange(0, min(255, srclen - MAXC) + 1)])
    kind, m = form
    if kind == "zero":
        op = D.copy_op(off, MAXC, omask | (m << 4))              # explicit all-zero size bytes
    elif kind == "one":
        op = D.copy_op(off, MAXC, omask | (m << 4) | 0x100)      # 0x010000 with optional explicit zero low bytes
    else:
        op = D.copy_op(off, MAXC, omask)                         # no size byte at all
    pre = D.insert_op(rbytes(rng, rng.randrange(1, 4))) if rng.random() < 0.5 else b""
    post = D.insert_op(rbytes(rng, rng.randrange(1, 4))) if rng.random() < 0.5 else b""
    tl = MAXC + (len(pre) - 1 if pre else 0) + (len(post) - 1 if post else 0)
    if not exact:
        tl += rng.choice([1, -1])
    delta = padded_hdr(rng, srclen) + padded_hdr(rng, tl) + pre + op + post
    return {"bucket": "noncanon-64k", "kind": "apply", "src": src_segs, "delta": D.seg(delta), "chunk": rng.choice([0, 0, 1, 2])}


def noncanon_small_case(rng, combos):
    """many short copy commands with explicit zero operand bytes; combos = [(offset mask, size mask)]"""
    src = rbytes(rng, rng.randrange(520, 700))
    ops, tgt = [], bytearray()
    for omask, smask in combos:
        # an explicit byte is a zero byte only if the value has a zero there: pick values accordingly
        off = rng.choice([0, 256, 512]) if omask & 1 else rng.choice([0, 256, rng.randrange(len(src) - 300)])
        if smask & 1:
            sz = 256                                              # low size byte zero, explicit
        else:
            sz = rng.choice([1, 2, 16, 255, 256, rng.randrange(1, 200)])
        sz = min(sz, len(src) - off)
        if smask & 1 and sz != 256:
            smask &= ~1
        ops.append(D.copy_op(off, sz, omask | (smask << 4)))
        tgt += src[off:off + sz]
        if rng.random() < 0.4:                                     # inserts split into several commands
            data = rbytes(rng, rng.randrange(1, 6))
            for ch in data:
                ops.append(D.insert_op(bytes([ch])))
            tgt += data
    delta = padded_hdr(rng, len(src)) + padded_hdr(rng, len(tgt)) + b"".join(ops)
    return {"bucket": "noncanon-small", "kind": "apply", "src": D.seg(src), "delta": D.seg(delta), "chunk": rng.choice([0, 0, 1, 2, 3])}


def noncanon_cases(rng, tier):
    cases = []
    combos = [(o, sm) for o in range(16) for sm in range(8)]
    rng.shuffle(combos)
    per = 16 if tier == "quick" else 8
    for k in range(0, len(combos), per):
        cases.append(noncanon_small_case(rng, combos[k:k + per]))
    if tier == "quick":
        start = rng.randrange(16)
        for j, form in enumerate(SIZE_FORMS):                      # every spelling of the size, rotating offset masks
            cases.append(noncanon_64k_case(rng, (start + 5 * j) % 16, form, exact=(j % 6 != 5)))
    else:
        for omask in range(16):
            for form in SIZE_FORMS:
                cases.append(noncanon_64k_case(rng, omask, form, exact=rng.random() < 0.9))
    return cases


APPLY_BUCKETS = [(6, "valid"), (3, "truncated"), (2, "srcsz"), (3, "tgtsz"), (4, "copy-range"), (2, "cmd0"), (2, "trailing"),
                 (3, "tiny"), (3, "varint"), (3, "bitflip"), (2, "random"), (2, "empty-src"), (3, "short-insert")]

APPLIERS = ["buffer", "wrapper", "stream", "writer-bytes", "writer-other"]


def hdr_info(delta):
    """shape facts about the two header varints, for the finding classes"""
    ls = D.varint_lengths(delta)
    l1 = ls[0] if ls else 0
    l2 = ls[1] if len(ls) > 1 else 0
    first_all = l1 == len(delta)                              # header 1 extends to the end of the delta
    trunc2 = l1 < len(delta) and l1 + l2 == len(delta) and (delta[-1] & 0x80) != 0   # delta ends inside header 2
    trunc1 = first_all and len(delta) > 0 and (delta[-1] & 0x80) != 0
    return {"l1": l1, "l2": l2, "first_all": first_all, "trunc1": trunc1, "trunc2": trunc2, "overlong": max(l1, l2) >= 10,
            "undef": max(l1, l2) >= 11}


class Apply(Suite):
    name = "apply"
    go_cmd = "c06"
    coq_imports = "From GoGit Require Import Model.Delta Spec.GitDelta."
    quick_n = 130
    thorough_n = 1200
    coq_chunk = 50

    def gen(self, rng, n, tier):
        cases = []
        nbig = 1 if tier == "quick" else 24
        heavy = [gen_apply_case(rng, "big-copy") for _ in range(nbig)] + noncanon_cases(rng, tier)
        light = [gen_apply_case(rng, pick_weighted(rng, APPLY_BUCKETS)) for _ in range(n - nbig)]
        # spread the 64 KiB cases evenly so that the parallel Coq chunks take about the same time
        step = max(1, len(light) // max(1, len(heavy)))
        for k, h in enumerate(heavy):
            cases.extend(light[k * step:(k + 1) * step])
            cases.append(h)
        cases.extend(light[len(heavy) * step:])
        if tier == "thorough":
            # truncation at every byte of a few valid deltas
            for _ in range(8):
                src_segs = rand_src(rng)
                src = D.expand(src_segs)
                delta, _, _ = valid_delta(rng, src, nops=4)
                for k in range(len(delta) + 1):
                    cases.append({"bucket": "truncated-all", "kind": "apply", "src": src_segs, "delta": D.seg(delta[:k]), "chunk": 0})
        return cases

    def model_expr(self, c):
        if c.get("kind") != "apply":
            return None
        return "c06_run_apply %s %s" % (D.coq_segs(c["src"]), D.coq_segs(c["delta"]))

    def nontrivial(self, c):
        return len(D.expand(c["delta"])) > 0

    def show(self, c):
        c = dict(c)
        for k in ("src", "delta"):
            if k in c and len(json.dumps(c[k])) > 600:
                c[k + "_len"] = len(D.expand(c[k]))
        return c

    def _git(self, ctx, cases, impl):
        """git's verdict per case id: ('ok', oid) | ('reject', text); prediction = the buffer applier"""
        items = []
        for c in cases:
            r = impl.get(c["id"])
            exp = None
            if r and not r.get("panic"):
                o = applier_oids(r)
                exp = o[0] if o else None
            items.append((c["id"], D.expand(c["src"]), D.expand(c["delta"]), exp))
        return G.git_apply_many(ctx.tmp, items)

    def oracle(self, ctx, cases, impl, model):
        """every applier, on every delta, produces exactly git's bytes or rejects when git rejects"""
        cases = [c for c in cases if c.get("kind") == "apply"]
        git = self._git(ctx, cases, impl)
        self._gitres = git
        fails = {}
        for c in cases:
            r = impl.get(c["id"])
            if r is None or r.get("panic"):
                fails[c["id"]] = "[none] no reply / panic"
                continue
            src, delta = D.expand(c["src"]), D.expand(c["delta"])
            info = hdr_info(delta)
            if info["undef"]:
                continue     # git's behaviour is undefined in C for varints of 11+ bytes
            outs = applier_oids(r)
            lens = (r.get("extra") or {}).get("lens") or []
            if len(outs) != 5:
                fails[c["id"]] = "[none] unparsable reply " + r["out"][:100]
                continue
            gv, gx = git[c["id"]]
            hdr = D.parse_hdr(delta)
            probs = []
            for name, o, ln in zip(APPLIERS, outs, lens):
                if name == "writer-other" and (hdr is None or hdr[0] != len(src)):
                    continue     # latent only: the parser always passes a *bytes.Reader (C06_writer_srcsz_partial)
                if o is None and gv == "ok":
                    cls = None
                    if name == "wrapper" and len(src) == 0 and outs[0] is not None:
                        cls = "wrapper-empty-src"
                    elif info["overlong"]:
                        cls = "overlong-header-varint"
                    elif name in ("stream", "writer-bytes", "writer-other") and info["trunc2"]:
                        cls = "stream-truncated-target-size"
                    probs.append((cls, "%s rejects, git applies the delta" % name))
                elif o is not None and gv == "reject":
                    cls = None
                    if ln == 0 and (len(delta) < 4 or info["first_all"]):
                        cls = "below-git-min-delta-size"
                    probs.append((cls, "%s accepts (%d bytes), git rejects: %s" % (name, ln, gx.strip()[:60])))
                elif o is not None and gv == "ok" and o != gx:
                    probs.append((None, "%s output differs from git's (%d bytes, git oid %s)" % (name, ln, gx.hex())))
            ex = r.get("extra") or {}
            if ex.get("writer_bytes_consistent") is False:
                probs.append((None, "writer-bytes: returned size/hash do not describe the bytes written"))
            if probs:
                unknown = [p for p in probs if p[0] is None]
                cls, why = (unknown or probs)[0]
                fails[c["id"]] = "[%s] %s" % (cls or "none", why)
        return fails

    def finding_class(self, case, reason, reply):
        if reason.startswith("[") and "]" in reason:
            cls = reason[1:reason.index("]")]
            return None if cls == "none" else cls
        return None

    def extra(self, ctx, cases, impl, model):
        # C-git: S (git_patch_delta transcription) vs the git binary on the same cases
        cases = [c for c in cases if c.get("kind") == "apply"]
        git = getattr(self, "_gitres", None) or self._git(ctx, cases, impl)
        exprs = ["c06_spec_run %s %s" % (D.coq_segs(c["src"]), D.coq_segs(c["delta"])) for c in cases]
        outs = ctx.coq_eval(self.coq_imports, exprs, chunk=2 * self.coq_chunk)
        bad = undef = skipped = 0
        for c, o in zip(cases, outs):
            gv, gx = git[c["id"]]
            if o == "undef":
                undef += 1
                continue
            if o is None:
                bad += 1
                ctx.notes.append("spec evaluation failed on case %s" % c["id"])
                continue
            if o == "( err reject )":
                ok = gv == "reject"
            else:
                # S accepted: git must accept, and S's bytes (length, checksum) must be those of an applier output
                # whose blob id is git's
                r = impl.get(c["id"]) or {}
                ex = r.get("extra") or {}
                want = None
                for oid, ln, ad in zip(ex.get("oids", []), ex.get("lens", []), ex.get("adlers", [])):
                    if gv == "ok" and oid and bytes.fromhex(oid) == gx:
                        want = "( ok ( %d %d ) )" % (ln, ad)
                        break
                if want is None and gv == "ok":
                    skipped += 1     # no applier produced git's bytes: nothing to compare S's bytes with
                    continue
                ok = gv == "ok" and o == want
            if not ok:
                bad += 1
                if bad < 5:
                    ctx.notes.append("spec_mismatch git_patch_delta vs git on src=%s delta=%s: S=%s git=%s" %
                                     (D.expand(c["src"])[:40].hex(), D.expand(c["delta"])[:60].hex(), o[:80], gv))
        return {"spec_vs_git_cases": len(cases), "spec_mismatches": bad, "spec_undef": undef, "spec_uncompared": skipped}


# ------------------------------------------------------------------ diff suite

def block(rng, n=16):
    return rbytes(rng, n)


def gen_diff_case(rng, bucket):
    if bucket == "equal":
        s = rand_src(rng)
        return s, s
    if bucket == "disjoint":
        return D.seg(rbytes(rng, rng.randrange(16, 300), b"ab")), D.seg(rbytes(rng, rng.randrange(16, 300), b"xy"))
    if bucket == "edits":
        src = rbytes(rng, rng.randrange(40, 1200), rng.choice([None, b"ab", b"abcdefgh\n"]))
        t = bytearray(src)
        for _ in range(rng.randrange(1, 6)):
            k = rng.randrange(len(t) + 1)
            r = rng.random()
            if r < 0.4:
                t[k:k] = rbytes(rng, rng.choice([1, 15, 16, 17, 126, 127, 128, 254, 255, 256]))
            elif r < 0.7:
                del t[k:k + rng.randrange(1, 40)]
            else:
                t[k:k + 1] = rbytes(rng, 1)
        return D.seg(src), D.seg(bytes(t))
    if bucket == "blocks":
        # repeated / permuted 16-byte blocks: many index candidates, short and long matches
        blocks = [block(rng) for _ in range(rng.randrange(2, 6))]
        src = b"".join(rng.choice(blocks) for _ in range(rng.randrange(2, 30)))
        tgt = b"".join(rng.choice(blocks + [rbytes(rng, rng.randrange(1, 20))]) for _ in range(rng.randrange(1, 30)))
        return D.seg(src), D.seg(tgt)
    if bucket == "near-blocks":
        # blocks sharing a long prefix: candidates whose match is shorter than 16 (hash only covers 16-byte windows)
        base = block(rng, 24)
        src = b"".join(base[:rng.randrange(16, 25)] + rbytes(rng, rng.randrange(0, 3)) for _ in range(rng.randrange(2, 12)))
        tgt = b"".join(base[:rng.randrange(8, 25)] + rbytes(rng, rng.randrange(0, 3)) for _ in range(rng.randrange(1, 12)))
        return D.seg(src), D.seg(tgt)
    if bucket == "insert-runs":
        src = rbytes(rng, rng.randrange(32, 100))
        run = rbytes(rng, rng.choice([126, 127, 128, 253, 254, 255, 381]), b"XYZ")
        k = rng.randrange(len(src))
        return D.seg(src), D.seg(src[:k] + run + src[k:])
    if bucket == "small-src":
        return D.seg(rbytes(rng, rng.randrange(0, 16))), D.seg(rbytes(rng, rng.choice([0, 1, 15, 16, 17, 40, 130, 300])))
    if bucket == "small-tgt":
        src = rbytes(rng, rng.randrange(16, 80))
        k = rng.randrange(0, 16)
        return D.seg(src), D.seg(rng.choice([src[:k], rbytes(rng, k), src[-k:] if k else b""]))
    if bucket == "tail":
        # target ends 14..18 bytes after the last copy: the `len(tgt) < i+16` guard
        src = rbytes(rng, rng.randrange(32, 80))
        return D.seg(src), D.seg(src + rbytes(rng, rng.choice([0, 1, 14, 15, 16, 17, 18])))
    if bucket == "empty":
        return rng.choice([(D.seg(b""), D.seg(b"")), (D.seg(b""), D.seg(rbytes(rng, 20))), (D.seg(rbytes(rng, 20)), D.seg(b"")),
                           (D.seg(rbytes(rng, 200)), D.seg(b""))])
    if bucket == "big-copy":
        pat = rbytes(rng, rng.choice([16, 17, 31, 64]))
        total = rng.choice([65535, 65536, 65537, 131072, 131073, 70000])
        n = total // len(pat) + 1
        head = rbytes(rng, rng.randrange(0, 40))
        src = D.seg(head) + [[pat.hex(), n]]
        tail = rbytes(rng, rng.randrange(0, 40))
        cut = rng.choice([0, 1, len(pat)])
        tgt = D.seg(rbytes(rng, rng.randrange(0, 20))) + [[pat.hex(), n - cut]] + D.seg(tail)
        return src, tgt
    raise ValueError(bucket)


DIFF_BUCKETS = [(1, "equal"), (1, "disjoint"), (5, "edits"), (4, "blocks"), (3, "near-blocks"), (2, "insert-runs"),
                (2, "small-src"), (2, "small-tgt"), (2, "tail"), (1, "empty")]


class Diff(Suite):
    name = "diff"
    go_cmd = "c06"
    coq_imports = "From GoGit Require Import Model.Delta."
    quick_n = 60
    thorough_n = 400
    coq_chunk = 40

    def __init__(self):
        self._impl = {}

    def gen(self, rng, n, tier):
        cases = []
        nbig = 2 if tier == "quick" else 16
        for k in range(n):
            b = "big-copy" if k < nbig else pick_weighted(rng, DIFF_BUCKETS)
            s, t = gen_diff_case(rng, b)
            cases.append({"bucket": b, "kind": "diff", "src": s, "tgt": t})
        return cases

    def key(self, case):
        return json.dumps([case.get("src"), case.get("tgt")])

    def _delta_of(self, c):
        k = self.key(c)
        if k not in self._impl:
            r = run_bin([dict(c, id=0)]).get(0)
            self._impl[k] = r
        r = self._impl[k]
        if not r or not (r.get("extra") or {}).get("delta") and not r["out"].startswith("( ok"):
            return None
        return bytes.fromhex(r["extra"]["delta"])

    def model_expr(self, c):
        """membership: the candidate function is read off the implementation's own copy commands;
        the model must then reproduce the implementation's delta byte for byte"""
        if c.get("kind") != "diff":
            return None
        # one batched run for all cases not seen yet is done lazily per case (few hundred short runs are avoided
        # by prefetch() from oracle order; here a cache miss costs one process spawn)
        d = self._delta_of(c)
        al = []
        r = self._impl.get(self.key(c)) or {}
        cands = (r.get("extra") or {}).get("cands")
        if cands is not None:
            al = [tuple(x) for x in cands]      # the index's own candidate function (every probe position)
        elif d is not None:
            try:
                al = D.copy_starts(d)           # large targets: candidates read off the copy commands
            except Exception:
                al = []
        return "c06_run_diff %s %s [%s]" % (D.coq_segs(c["src"]), D.coq_segs(c["tgt"]),
                                           "; ".join("(%d%%N, %d%%N)" % p for p in al))

    def nontrivial(self, c):
        return len(D.expand(c["tgt"])) > 0

    def show(self, c):
        c = dict(c)
        for k in ("src", "tgt"):
            if k in c and len(json.dumps(c[k])) > 600:
                c[k + "_len"] = len(D.expand(c[k]))
        return c

    def oracle(self, ctx, cases, impl, model):
        """round trip on the implementation (three appliers) and through git's patch_delta"""
        cases = [c for c in cases if c.get("kind") == "diff"]
        fails = {}
        items = []
        for c in cases:
            r = impl.get(c["id"])
            if r is None or r.get("panic") or not r["out"].startswith("( ok"):
                fails[c["id"]] = "[none] no delta produced"
                continue
            rt = (r.get("extra") or {}).get("roundtrip") or [False]
            if not all(rt):
                fails[c["id"]] = "[none] applying DiffDelta's output does not give the target back (buffer, stream, writer = %s)" % rt
                continue
            d = bytes.fromhex(r["extra"]["delta"])
            items.append((c["id"], D.expand(c["src"]), d, G.blob_oid(D.expand(c["tgt"]))))
        git = G.git_apply_many(ctx.tmp, items)
        for cid, src, d, toid in items:
            gv, gx = git[cid]
            if gv == "ok" and gx == toid:
                continue
            cls = "none"
            if gv == "reject" and toid == G.blob_oid(b"") and len(d) < 4:
                cls = "below-git-min-delta-size"
            fails[cid] = "[%s] git %s DiffDelta's output (%s)" % (cls, "rejects" if gv == "reject" else "maps to another object with", (gx if gv == "reject" else gx.hex())[:70].strip())
        return fails

    def finding_class(self, case, reason, reply):
        if reason.startswith("[") and "]" in reason:
            cls = reason[1:reason.index("]")]
            return None if cls == "none" else cls
        return None


class DiffPrefetch(Diff):
    """Diff with one batched implementation run to fill the delta cache before the model expressions are built"""

    def gen(self, rng, n, tier):
        cases = Diff.gen(self, rng, n, tier)
        res = run_bin([dict(c, id=i) for i, c in enumerate(cases)])
        for i, c in enumerate(cases):
            self._impl[self.key(c)] = res.get(i)
        return cases


SUITES = [Apply(), DiffPrefetch()]
