"""C35 Protocol messages round-trip and match git's encoding (DESIGN.md §4.C35)."""
import hashlib
import json
import os
import subprocess
from vf.core import Suite, coq_hex, coq_list, coq_N, coq_Z, coq_bool, coq_opt
from vf.gen import rbytes, pick_weighted
from props.C34 import rchunks, ref_read, coq_ns

ID = "C35"
THEOREMS = [
    "C35_caps_roundtrip", "C35_hash_roundtrip", "C35_report_roundtrip",
    "C35_shupd_roundtrip", "C35_uphav_roundtrip",
    "C35_pushopts_roundtrip", "C35_srvresp_roundtrip", "C35_advrefs_roundtrip", "C35_advrefs_first_peeled",
    "C35_updreq_roundtrip", "C35_ulreq_roundtrip",
    "C35_capadv_roundtrip", "C35_cmdreq_roundtrip", "C35_lsargs_roundtrip", "C35_fetchargs_roundtrip", "C35_lsout_roundtrip",
    "C35_fetchout_roundtrip", "C35_fetchout_noready_refuted", "C35_fetchout_position",
    "C35_shupd_git", "C35_uphav_git", "C35_srvresp_git", "C35_report_git", "C35_pushopts_git", "C35_capadv_git", "C35_lsout_git", "C35_ulreq_git",
    "C35_advrefs_git", "C35_updreq_git", "C35_cmdreq_git", "C35_lsargs_git", "C35_fetchargs_git", "C35_fetchout_git",
]
MODEL_FILES = ["PktLine.v", "C35UniTable.v", "C35Utf8.v", "Packp.v", "PackpV2.v"]
MODELLED = ("plumbing/protocol/capability/list.go DecodeList / Add / AppendText; plumbing/objectid.go FromHex / NewHash / String / IsZero / Compare; "
            "plumbing/protocol/packp v0/v1: AdvRefs, UploadRequest (with the filter line), UploadHaves, ServerResponse, ShallowUpdate (SHA-1 and SHA-256), "
            "UpdateRequests, ReportStatus, PushOptions Encode and Decode (Model/Packp.v) on top of the pkt-line model of C34; "
            "protocol v2 (Model/PackpV2.v): EncodeListV2 / DecodeListV2, CapabilityAdv, CommandRequest with nil / *LsRefsArgs / *FetchArgs arguments, "
            "validateRefPrefix, LsRefsOutput (parseLsRefsLine, parseFullHash, symref-target: and peeled: attributes), FetchOutput (acknowledgments, "
            "shallow-info, wanted-refs, packfile-uris sections, section order, the packfile header, where Decode stops reading). "
            "bytes.TrimSpace / strings.TrimSpace / strings.Fields / strings.ContainsFunc and unicode.IsSpace / IsControl / IsGraphic are modelled "
            "byte-wise over UTF-8 (Model/C35Utf8.v; IsGraphic through the interval table Model/C35UniTable.v, whose digest is recomputed from the "
            "toolchain's unicode tables on every run), so the models are evaluated on arbitrary bytes. The v0 decoders read through pktline.Scanner "
            "(model: the sequence of Scan results), the v2 decoders call pktline.ReadLine (model: the ReadLine results of the chunked reader, with the "
            "bytes left unread). S (Spec/GitProto.v): the pkt-level grammars of git's pack-protocol / protocol-v2 documents for every message. "
            "Not modelled: fmt.Sscanf beyond single-space separated ASCII tokens in UpdateRequests.parseCommand (the model answers 'unmodelled'), "
            "sort.Slice instability (lists stay below 12 elements where it is an insertion sort), the limits tooManyRefPrefixes (65536 ref-prefix "
            "lines) and maxSectionLines (2^22 lines per section)")
TRUSTED = [
    "C-impl: harness/cmd/c35 (packp Encode/Decode over a chunked reader, capability.DecodeList) vs Model/Packp.v and Model/PackpV2.v on every case",
    "direct oracle: decode(encode(v)) = canon(v) computed in props/C35.py for well-formed values of every message (v2: and nothing left unread)",
    "C-git (suite git): go-git's encodings are read by git 2.39.5 — `git ls-remote` (v0/v1 and v2, through a scripted peer `c35 stub` on the ext:: "
    "transport), `git upload-pack --stateless-rpc` (v0 upload-request + haves; v2 ls-refs and fetch commands), `git receive-pack --stateless-rpc` "
    "(update-request, push-options seen by a pre-receive hook), `git push --porcelain` (report-status), `git fetch` v0 and v2 (shallow-update, "
    "server-response, fetch output + side-band pack) — and git's own advertisements, requests and responses are decoded by go-git; git's answers "
    "are compared with a table of the fixed 4-commit repository (props/c35_git.py)",
    "S vs git: Spec/GitProto.v is evaluated (Coq) on the same bytes and on edited variants: what S accepts git accepts, with the value go-git encoded; "
    "what git refuses S refuses (refusals for what a request means on that server are set aside); disagreements are recorded as spec_mismatches",
]
ASSUMPTIONS = ["git ls-remote prints the refs of the advertisement it parsed, one `<hash>\\t<name>` line each, and `ref: <target>\\t<name>` for symrefs",
               "message values stay below 12 references / hashes per list (sort.Slice and sort.Sort are insertion sorts there)",
               "the table of git's answers on the fixed repository (shallow boundaries, common haves, object counts) in props/c35_git.py describes git 2.39.5; "
               "cases outside the table (client shallows, negotiation against a depth request) are only checked for acceptance",
               "Model/C35UniTable.v lists the maximal IsGraphic intervals of the toolchain's Unicode tables (15.0.0); compared by digest on every run"]
RULE = ("case = message value (v0: refs with/without HEAD, peeled tags in any position incl. the first ref, shallows, capabilities with values, "
        "sha1/sha256 ids, commands, statuses, options incl. non-ASCII UTF-8, acks, depth forms, filter; v2: capability lists, command requests with "
        "ls-refs / fetch arguments, ls-refs output with symbolic, unborn and peeled entries, fetch output with every section combination) + chunking, "
        "or a raw byte stream built from a valid encoding by truncation / byte edits / Unicode and ASCII white space at line ends / line shuffles / "
        "extra special packets / the wrong decoder, or a C-git scenario (the values of one conversation with a git client or server); "
        "non-trivial = not the empty value; distinct by content")

Z40 = "0" * 40
CAPS_POOL = [("multi_ack", []), ("thin-pack", []), ("side-band-64k", []), ("ofs-delta", []), ("report-status", []),
             ("agent", ["git/2.39.5"]), ("symref", ["HEAD:refs/heads/main"]), ("symref", ["HEAD:refs/heads/main", "refs/remotes/o/HEAD:refs/remotes/o/m"]),
             ("object-format", ["sha1"]), ("filter", []), ("push-options", []), ("x", ["", "y"]), ("session-id", ["a=b"])]
NAMES = [b"HEAD", b"refs/heads/main", b"refs/heads/a", b"refs/heads/b", b"refs/tags/v1", b"refs/tags/v2", b"refs/tags/a",
         b"refs/remotes/o/m", b"refs/notes/c", b"refs/heads/zz"]


# white space as bytes.TrimSpace / strings.Fields see it, and near misses: NBSP, NEL, LS, IDEOGRAPHIC SPACE, OGHAM SPACE,
# EN QUAD, a raw 0x85 / 0xa0 (invalid UTF-8, not space), a truncated sequence, U+200B (not space), U+180E (not space)
UNI_WS = [b"\xc2\xa0", b"\xc2\x85", b"\xe2\x80\xa8", b"\xe3\x80\x80", b"\xe1\x9a\x80", b"\xe2\x80\x80", b"\x85", b"\xa0",
          b"\xe2\x80", b"\xe2\x80\x8b", b"\xe1\xa0\x8e", b"\t", b"\r", b"\x0b", b"\xe2\x81\x9f", b"\xf0\x9f\x9a\x80"]


def hx(b):
    return b.hex() if isinstance(b, bytes) else b.encode().hex()


def rhash(rng, fmt=40):
    return "".join(rng.choice("0123456789abcdef") for _ in range(fmt))


def rcaps(rng):
    k = rng.randrange(4)
    seen, out = set(), []
    for _ in range(k):
        n, v = rng.choice(CAPS_POOL)
        if n in seen:
            continue
        seen.add(n)
        out.append([hx(n)] + [hx(x) for x in v])
    return out


def caps_wf(caps):
    for e in caps:
        n = bytes.fromhex(e[0])
        if not n or any(c <= 32 or c >= 127 or c == 61 for c in n):
            return False
        for v in e[1:]:
            if any(c <= 32 or c >= 127 for c in bytes.fromhex(v)):
                return False
    return len({e[0] for e in caps}) == len(caps)


def tok_ok(b, extra_bad=b""):
    return len(b) > 0 and all(32 < c < 127 and c not in extra_bad for c in b)


def hash_ok(h, allow_zero=False):
    s = bytes.fromhex(h)
    return len(s) in (40, 64) and all(c in b"0123456789abcdef" for c in s) and (allow_zero or set(s) != {48})


def hstr(h):
    return bytes.fromhex(h).decode()


def ascii_only(b):
    return all(c < 128 for c in b)


def mutate(rng, data):
    """malformed stream from a valid encoding"""
    if not data:
        return rbytes(rng, rng.randrange(0, 8), b"0123456789abcdef \n")
    k = rng.randrange(9)
    b = bytearray(data)
    if k == 0:
        return bytes(b[:rng.randrange(len(b))])
    if k == 1:
        i = rng.randrange(len(b))
        b[i] = rng.choice(b" \n\x000aZ=^{}g\t")
        return bytes(b)
    if k == 2:
        i = rng.randrange(len(b))
        del b[i]
        return bytes(b)
    if k == 3:
        i = rng.randrange(len(b))
        return bytes(b[:i]) + rng.choice([b"0000", b"0001", b"0004", b"0005\n", b"0009done\n", b"0008NAK\n", b"000cERR oops"]) + bytes(b[i:])
    if k == 4:      # drop the final flush
        return bytes(b[:-4]) if b.endswith(b"0000") else bytes(b) + b"0000"
    if k == 5:      # re-frame one line with an edited payload
        l, pl, e, pos = ref_read(bytes(b), 0, 65520)
        if l > 4:
            pl = bytearray(pl)
            j = rng.randrange(len(pl))
            pl[j:j + 1] = rng.choice([b"", b" ", b"  ", b"\x00", b"x", b"\n"] + UNI_WS)
            if rng.random() < 0.25:                 # white space (ASCII / Unicode / broken UTF-8) at either end of the line
                pl = bytearray(rng.choice(UNI_WS + [b""]) + bytes(pl).rstrip(b"\n") + rng.choice(UNI_WS) + rng.choice([b"", b"\n"]))
            return b"%04x" % (len(pl) + 4) + bytes(pl) + bytes(b[pos:])
        return bytes(b)
    if k == 6:      # swap two packets
        pkts, pos = [], 0
        while pos < len(b):
            l, pl, e, npos = ref_read(bytes(b), pos, 65520)
            if npos <= pos:
                break
            pkts.append(bytes(b[pos:npos]))
            pos = npos
        if len(pkts) >= 2:
            i = rng.randrange(len(pkts) - 1)
            pkts[i], pkts[i + 1] = pkts[i + 1], pkts[i]
        return b"".join(pkts)
    if k == 7:      # upper-case a hex digit / change hash length
        i = rng.randrange(len(b))
        return bytes(b[:i]) + bytes(b[i:i + 1]).upper() + rng.choice([b"", b"a"]) + bytes(b[i + 1:])
    return bytes(b) + rbytes(rng, rng.randrange(1, 6), b"0123456789abcdef")


def mutate_lines(rng, data):
    """a well-framed variant of a pkt-line stream: one line edited, dropped, doubled or moved, or a special packet added"""
    pkts, pos = [], 0
    while pos < len(data):
        l, pl, e, npos = ref_read(data, pos, 65520)
        if npos <= pos or e not in ("nil",):
            return data
        pkts.append((l, pl))
        pos = npos
    idx = [i for i, (l, pl) in enumerate(pkts) if l > 4]
    if not idx:
        return data
    k = rng.randrange(10)
    i = rng.choice(idx)
    l, pl = pkts[i]
    if k <= 3:
        pl = bytearray(pl)
        j = rng.randrange(len(pl))
        edit = rng.choice([b"", b" ", b"  ", b"x", b"g", b"\n", b"=", b"Z", b"0", b"-", b"\x00"])
        if rng.random() < 0.5:
            pl[j:j + 1] = edit
        else:
            pl[j:j] = edit
        pkts[i] = (len(pl) + 4, bytes(pl))
    elif k == 4:
        del pkts[i]
    elif k == 5:
        pkts.insert(i, pkts[i])
    elif k == 6 and len(idx) > 1:
        j = rng.choice(idx)
        pkts[i], pkts[j] = pkts[j], pkts[i]
    elif k == 7:
        pkts.insert(rng.randrange(len(pkts) + 1), rng.choice([(0, b""), (1, b""), (2, b""), (4, b"")]))
    elif k == 8:                            # the stream stops at a packet boundary (sometimes with a flush there)
        pkts = pkts[:rng.randrange(len(pkts) + 1)] + ([(0, b"")] if rng.random() < 0.5 else [])
    else:                                   # a line of another kind from the same stream moves behind line i
        j = rng.choice(idx)
        pkts.insert(i + 1, pkts[j])
    out = b""
    for l, pl in pkts:
        out += b"%04x" % l if l <= 4 else b"%04x" % (len(pl) + 4) + pl
    return out


# ------------------------------------------------------------------ values
def gen_value(rng, msg):
    """-> case dict (without kind/chunks) for message msg; a mix of well-formed and hostile values"""
    fmt = 64 if rng.random() < 0.15 else 40
    H = lambda: hx(rhash(rng, fmt))
    hostile = rng.random() < 0.2
    if msg == "advrefs":
        names = rng.sample(NAMES, rng.randrange(0, 7))
        if rng.random() < 0.3 and b"HEAD" in names:
            names.remove(b"HEAD")
        refs = []
        for n in names:
            refs.append([hx(n), H()])
            if n.startswith(b"refs/tags/") and rng.random() < 0.7:
                refs.append([hx(n + b"^{}"), H()])
        mode = rng.randrange(5)
        if mode == 0:
            rng.shuffle(refs)                       # peeled lines in any position
        elif mode == 1 and refs:                     # the first advertised ref is a peeled tag
            refs = [[hx(b"refs/tags/v0"), H()], [hx(b"refs/tags/v0^{}"), H()]] + [r for r in refs if r[0] != hx(b"HEAD")]
        if hostile:
            k = rng.randrange(6)
            if k == 0 and refs:
                refs.append(list(rng.choice(refs)))                     # duplicate name
            elif k == 1:
                refs.append([hx(b"refs/tags/orphan^{}"), H()])          # peeled without base
            elif k == 2:
                refs.insert(0, [hx(rng.choice([b"", b"a b", b"x\x00y", b"n\n"])), H()])
            elif k == 3 and refs:
                refs[0][1] = hx(Z40)                                    # zero id first
            elif k == 4:
                refs.append([hx(b"refs/heads/mixed"), hx(rhash(rng, 104 - fmt))])
        sh = [H() for _ in range(rng.choice([0, 0, 0, 1, 3]))]
        return {"msg": msg, "version": rng.choice([0, 0, 1, 1, 2] if hostile else [0, 1]), "caps": rcaps(rng), "refs": refs, "shallows": sh}
    if msg == "report":
        cmds = []
        for _ in range(rng.randrange(0, 5)):
            n = rng.choice(NAMES) if not hostile else rng.choice([b"", b"a b", b"refs/x\n", b"refs/heads/m"])
            st = rng.choice([b"ok", b"ok", b"non-fast-forward", b"failed to lock", b"", b"ok ", b"x\n" if hostile else b"hook declined"])
            cmds.append([hx(n), hx(st)])
        un = rng.choice([b"ok", b"ok", b"unpacker error", b"", b"index-pack abnormal exit", b"ok\n" if hostile else b"ok"])
        return {"msg": msg, "unpack": hx(un), "cmds": cmds}
    if msg == "shupd":
        return {"msg": msg, "shallows": [H() for _ in range(rng.randrange(0, 4))], "unshallows": [H() for _ in range(rng.randrange(0, 3))]}
    if msg == "uphav":
        hs = [H() for _ in range(rng.randrange(0, 6))]
        if hs and rng.random() < 0.3:
            hs.append(rng.choice(hs))
        if hostile:
            hs.append(hx(Z40))
        return {"msg": msg, "haves": hs, "done": rng.random() < 0.5}
    if msg == "pushopts":
        pool = [b"ci.skip", b"a=b c", b"", b" ", b"ERR x", b"ERRx", b"\xc3\xa9t\xc3\xa9", b"tab\there", b"nl\n", b"~!@#$%^&*()", b"x" * 300]
        return {"msg": msg, "opts": [hx(rng.choice(pool if hostile else pool[:4] + pool[9:])) for _ in range(rng.randrange(0, 5))]}
    if msg == "srvresp":
        n = rng.randrange(0, 5)
        acks = [[H(), rng.choice([1, 2, 3])] for _ in range(n)]
        m = rng.randrange(4)
        if m == 0 and acks:
            acks[-1][1] = 0                                   # final plain ACK with its own hash
        elif m == 1 and acks:
            acks = [[acks[0][0], 0]]
        elif m == 2 and hostile and acks:
            acks[rng.randrange(len(acks))][1] = rng.choice([0, 4, 9])
        return {"msg": msg, "acks": acks}
    if msg == "updreq":
        cmds = []
        for _ in range(rng.randrange(0 if hostile else 1, 5)):
            kind = rng.randrange(3)
            o, nw = (hx(Z40), H()) if kind == 0 else (H(), hx(Z40)) if kind == 1 else (H(), H())
            if hostile and rng.random() < 0.3:
                o, nw = hx(Z40), hx(Z40)
            n = rng.choice(NAMES) if not (hostile and rng.random() < 0.4) else rng.choice([b"a b", b"", b"refs/heads/\xc3\xa9", b"x\ty"])
            cmds.append([hx(n), o, nw])
        return {"msg": msg, "caps": rcaps(rng), "cmds": cmds, "shallows": [H() for _ in range(rng.choice([0, 0, 1, 2]))]}
    if msg == "ulreq":
        wants = [H() for _ in range(rng.randrange(0 if hostile else 1, 5))]
        if wants and rng.random() < 0.3:
            wants.append(rng.choice(wants))
        sh = [H() for _ in range(rng.choice([0, 0, 1, 3]))]
        if sh and rng.random() < 0.3:
            sh.append(rng.choice(sh))
        m = rng.randrange(6)
        c = {"msg": msg, "caps": rcaps(rng), "wants": wants, "shallows": sh, "deepen": 0, "since": None, "not": [], "filter": ""}
        if m == 1:
            c["deepen"] = rng.choice([1, 2, 50, 2147483647])
        elif m == 2:
            c["since"] = rng.choice([0, 1, 1700000000, -5])
        elif m == 3:
            c["not"] = [hx(rng.choice(NAMES)) for _ in range(rng.randrange(1, 3))]
            if rng.random() < 0.5:
                c["since"] = 1600000000
        elif m == 4 and hostile:
            c["deepen"], c["since"] = 3, 7
        if rng.random() < 0.3:
            c["filter"] = hx(rng.choice([b"blob:none", b"tree:0", b"blob:limit=1k"]))
        return c
    raise ValueError(msg)


MSGS = ["advrefs", "report", "shupd", "uphav", "pushopts", "srvresp", "updreq", "ulreq"]


def coq_caps(caps):
    return coq_list(["(%s, %s)" % (coq_hex(bytes.fromhex(e[0])), coq_list([coq_hex(bytes.fromhex(v)) for v in e[1:]])) for e in caps])


def hs(l):
    return coq_list([coq_hex(bytes.fromhex(h)) for h in l])


def value_bytes(c):
    """every byte string a value case mentions (to decide whether it is in the ASCII domain of the model)"""
    out = []
    def walk(x):
        if isinstance(x, str):
            try:
                out.append(bytes.fromhex(x))
            except ValueError:
                pass
        elif isinstance(x, list):
            for y in x:
                walk(y)
    for k, v in c.items():
        if k not in ("msg", "kind", "bucket"):
            walk(v)
    return b"".join(out)


# ------------------------------------------------------------------ canonical expectations (the property)
def expected(c):
    """-> (wf, expected decoded value as the harness prints it) ; wf False = the property makes no claim"""
    m = c["msg"]
    if m == "advrefs":
        refs = [(bytes.fromhex(n), hstr(h)) for n, h in c["refs"]]
        names = [n for n, _ in refs]
        if c["version"] not in (0, 1) or not caps_wf(c["caps"]) or len(set(names)) != len(names):
            return False, None
        if not all(tok_ok(n) for n in names) or not all(hash_ok(h) for _, h in c["refs"]) or not all(hash_ok(h) for h in c["shallows"]):
            return False, None
        base = [(n, h) for n, h in refs if not n.endswith(b"^{}")]
        peeled = {n[:-3]: h for n, h in refs if n.endswith(b"^{}")}
        if any(p not in dict(base) for p in peeled) or len({len(h) for _, h in refs} | {len(hstr(h)) for h in c["shallows"]}) > 1:
            return False, None
        if not base:
            want = []
        else:
            first = next(((n, h) for n, h in base if n == b"HEAD"), base[0])
            order = [first] + sorted([r for r in base if r[0] != first[0]])
            want = []
            for n, h in order:
                want.append([n.hex(), h])
                if n in peeled:
                    want.append([(n + b"^{}").hex(), peeled[n]])
        return True, {"version": c["version"], "caps": c["caps"], "refs": want, "shallows": sorted(hstr(h) for h in c["shallows"])}
    if m == "report":
        un = bytes.fromhex(c["unpack"])
        cmds = [(bytes.fromhex(n), bytes.fromhex(s)) for n, s in c["cmds"]]
        if un.endswith(b"\n") or any(b" " in n or b"\n" in n or s.endswith(b"\n") for n, s in cmds):
            return False, None
        return True, {"unpack": c["unpack"], "cmds": [[n.hex(), s.hex()] for n, s in cmds]}
    if m == "shupd":
        if not all(hash_ok(h, True) for h in c["shallows"] + c["unshallows"]):
            return False, None
        return True, {"shallows": [hstr(h) for h in c["shallows"]], "unshallows": [hstr(h) for h in c["unshallows"]]}
    if m == "uphav":
        if not all(hash_ok(h) for h in c["haves"]) or len({len(h) for h in c["haves"]}) > 1:
            return False, None
        return True, {"haves": sorted({hstr(h) for h in c["haves"]}), "done": c["done"]}
    if m == "pushopts":
        opts = [bytes.fromhex(o) for o in c["opts"]]
        if not all(all(32 <= ch < 127 for ch in o) and not o.startswith(b"ERR ") for o in opts):
            return False, None
        return True, {"opts": c["opts"]}
    if m == "srvresp":
        acks = c["acks"]
        if not all(hash_ok(h, True) for h, _ in acks) or any(s not in (0, 1, 2, 3) for _, s in acks):
            return False, None
        if any(s == 0 for _, s in acks[:-1]) or any(len(h) != 80 for h, _ in acks):
            return False, None                      # a plain ACK ends the response; sha1 ids
        return True, {"acks": [[hstr(h), s] for h, s in acks]}
    if m == "updreq":
        cmds = [(bytes.fromhex(n), o, nw) for n, o, nw in c["cmds"]]
        if not cmds or not caps_wf(c["caps"]) or not all(tok_ok(n) for n, _, _ in cmds):
            return False, None
        if not all(hash_ok(o, True) and hash_ok(nw, True) and (hash_ok(o) or hash_ok(nw)) for _, o, nw in cmds) or not all(hash_ok(h, True) for h in c["shallows"]):
            return False, None
        return True, {"caps": c["caps"], "cmds": [[n.hex(), hstr(o), hstr(nw)] for n, o, nw in cmds], "shallows": [hstr(h) for h in c["shallows"]]}
    if m == "ulreq":
        if not c["wants"] or not caps_wf(c["caps"]) or not all(hash_ok(h) for h in c["wants"] + c["shallows"]):
            return False, None
        if len({len(h) for h in c["wants"] + c["shallows"]}) > 1 or c["deepen"] < 0 or (c["deepen"] > 0 and (c["since"] is not None or c["not"])):
            return False, None
        if not all(tok_ok(bytes.fromhex(r)) for r in c["not"]) or not tok_ok(bytes.fromhex(c["filter"]) or b"x"):
            return False, None
        return True, {"caps": c["caps"], "wants": sorted({hstr(h) for h in c["wants"]}), "shallows": sorted({hstr(h) for h in c["shallows"]}),
                      "deepen": c["deepen"], "since": c["since"], "not": c["not"], "filter": c["filter"]}
    return False, None


class Msgs(Suite):
    name = "messages"
    go_cmd = "c35"
    coq_imports = "From GoGit Require Import Model.PktLine Model.Packp."
    quick_n = 400
    thorough_n = 3000
    coq_chunk = 70

    def gen(self, rng, n, tier):
        cases = []
        while len(cases) < n:
            b = pick_weighted(rng, [(6, "rt"), (4, "dec"), (1, "caps")])
            if b == "caps":
                toks = []
                for _ in range(rng.randrange(0, 6)):
                    nme, v = rng.choice(CAPS_POOL)
                    toks.append(nme.encode() + (b"=" + rng.choice(v).encode() if v else b""))
                raw = rng.choice([b"", b" ", b"\n"]) + rng.choice([b" ", b"  "]).join(toks) + rng.choice([b"", b"\n", b" ", b"=", b" =x", b" a=", b" a==b"])
                cases.append({"bucket": "caps", "kind": "caps", "hex": raw.hex()})
                continue
            msg = rng.choice(MSGS)
            v = gen_value(rng, msg)
            if b == "rt":
                v.update({"bucket": "rt-" + msg, "kind": "rt", "chunks": rchunks(rng, 200)})
                cases.append(v)
            else:
                v.update({"kind": "rt", "chunks": []})
                cases.append({"bucket": "dec-" + msg, "kind": "dec", "msg": msg, "_from": v, "chunks": rchunks(rng, 150), "_seed": rng.randrange(1 << 30)})
        # raw cases are derived from the implementation's own encodings of the values
        from vf import core
        need = [c for c in cases if c["kind"] == "dec"]
        if need:
            enc = core.run_impl(self.go_cmd, [dict(c["_from"], id=i) for i, c in enumerate(need)])
            import random
            for i, c in enumerate(need):
                r = random.Random(c.pop("_seed"))
                data = bytes.fromhex(((enc.get(i) or {}).get("extra") or {}).get("bytes") or "")
                c.pop("_from")
                c["hex"] = ((mutate_lines(r, data) if r.random() < 0.4 else mutate(r, data)) if r.random() < 0.8 else data).hex()
        return cases

    def model_expr(self, c):
        k = c["kind"]
        ch = coq_ns(c.get("chunks", []))
        if k == "caps":
            raw = bytes.fromhex(c["hex"])
            return "c35_caps %s" % coq_hex(raw)
        if k == "dec":
            raw = bytes.fromhex(c["hex"])
            if c["msg"] == "updreq" and not self.updreq_domain(raw):
                return None
            return 'c35_dec "%s" %s %s' % (c["msg"], coq_hex(raw), ch)
        m = c["msg"]
        if m == "advrefs":
            refs = coq_list(["(%s, %s)" % (coq_hex(bytes.fromhex(n)), coq_hex(bytes.fromhex(h))) for n, h in c["refs"]])
            return "c35_advrefs %s %s %s %s %s" % (coq_Z(c["version"]), coq_caps(c["caps"]), refs, hs(c["shallows"]), ch)
        if m == "report":
            cmds = coq_list(["(%s, %s)" % (coq_hex(bytes.fromhex(n)), coq_hex(bytes.fromhex(s))) for n, s in c["cmds"]])
            return "c35_report %s %s %s" % (coq_hex(bytes.fromhex(c["unpack"])), cmds, ch)
        if m == "shupd":
            return "c35_shupd %s %s %s" % (hs(c["shallows"]), hs(c["unshallows"]), ch)
        if m == "uphav":
            return "c35_uphav %s %s %s" % (hs(c["haves"]), coq_bool(c["done"]), ch)
        if m == "pushopts":
            return "c35_pushopts %s %s" % (hs(c["opts"]), ch)
        if m == "srvresp":
            return "c35_srvresp %s %s" % (coq_list(["(%s, %s)" % (coq_hex(bytes.fromhex(h)), coq_N(s)) for h, s in c["acks"]]), ch)
        if m == "updreq":
            if not all(self.cmd_domain(bytes.fromhex(n)) for n, _, _ in c["cmds"]):
                return None
            cmds = coq_list(["(%s, %s, %s)" % (coq_hex(bytes.fromhex(n)), coq_hex(bytes.fromhex(o)), coq_hex(bytes.fromhex(nw))) for n, o, nw in c["cmds"]])
            return "c35_updreq %s %s %s %s" % (coq_caps(c["caps"]), cmds, hs(c["shallows"]), ch)
        if m == "ulreq":
            return "c35_ulreq %s %s %s %s %s %s %s %s" % (coq_caps(c["caps"]), hs(c["wants"]), hs(c["shallows"]), coq_Z(c["deepen"]),
                                                        coq_opt(None if c["since"] is None else coq_Z(c["since"])), hs(c["not"]),
                                                        coq_hex(bytes.fromhex(c["filter"])), ch)
        return None

    @staticmethod
    def cmd_domain(name):
        return len(name) > 0 and all(32 < ch < 127 for ch in name)

    @staticmethod
    def updreq_domain(raw):
        """every command line is three single-space separated graphic-ASCII tokens (the modelled fmt.Sscanf domain);
        only the first command line is cut at its NUL (the capabilities follow), later lines are parsed whole"""
        pos = 0
        first = True
        while pos < len(raw):
            l, pl, e, npos = ref_read(raw, pos, 65520)
            if npos <= pos or e != "nil":
                break
            pos = npos
            if l > 4 and not (first and pl.rstrip(b"\n").startswith(b"shallow")):
                cmd = pl.split(b"\x00")[0] if first else pl
                first = False
                toks = cmd.split(b" ")
                if len(toks) != 3 or not all(toks) or not all(32 <= ch < 127 for ch in cmd):
                    return False
        return True

    def nontrivial(self, c):
        return c["kind"] != "rt" or any(c.get(k) for k in ("refs", "cmds", "shallows", "haves", "opts", "acks", "wants"))

    def oracle(self, ctx, cases, impl, model):
        fails = {}
        for c in cases:
            r = impl.get(c["id"])
            if r is None or r.get("panic"):
                fails[c["id"]] = "no reply / panic"
                continue
            if c["kind"] != "rt":
                continue
            wf, want = expected(c)
            if not wf:
                continue
            ex = r.get("extra") or {}
            if ex.get("enc") != "ok":
                fails[c["id"]] = "well-formed %s value was not encoded: %s" % (c["msg"], ex.get("err"))
            elif ex.get("value") != want:
                fails[c["id"]] = "decode(encode(v)) = %s, expected %s" % (ex.get("value"), want)
        fails.update(self.git_check(ctx, cases, impl))
        return fails

    def finding_class(self, c, reason, reply):
        return None

    def extra(self, ctx, cases, impl, model):
        return {"git_lsremote_cases": getattr(self, "_git_n", 0)}

    def git_check(self, ctx, cases, impl):
        """C-git: git ls-remote reads go-git's advertisement and must list exactly the advertised refs"""
        n = 0
        fails = {}
        for c in cases:
            if c["kind"] != "rt" or c["msg"] != "advrefs" or n >= (12 if ctx.tier == "quick" else 30):
                continue
            wf, want = expected(c)
            ex = (impl.get(c["id"]) or {}).get("extra") or {}
            if not wf or ex.get("enc") != "ok" or any(len(h) != 40 for _, h in want["refs"]) or c["version"] != 0:
                continue
            if not all(self.git_refname_ok(bytes.fromhex(nm)) for nm, _ in want["refs"]):
                continue
            n += 1
            p = os.path.join(ctx.tmp, "adv.bin")
            with open(p, "wb") as f:
                f.write(bytes.fromhex(ex["bytes"]))
            try:
                g = subprocess.run(["git", "ls-remote", "ext::cat %s" % p], stdin=subprocess.DEVNULL, stdout=subprocess.PIPE, stderr=subprocess.PIPE,
                                   timeout=120, cwd=ctx.tmp,
                                   env=dict(os.environ, GIT_CONFIG_NOSYSTEM="1", HOME=ctx.tmp, GIT_ALLOW_PROTOCOL="ext", GIT_TERMINAL_PROMPT="0"))
            except subprocess.TimeoutExpired:
                ctx.notes.append("git ls-remote did not finish within 120 s on advertisement %s (machine load?); case skipped" % ex["bytes"][:200])
                continue
            got = sorted(tuple(l.split("\t")) for l in g.stdout.decode("utf-8", "replace").splitlines())
            exp = sorted((h, bytes.fromhex(nm).decode()) for nm, h in want["refs"])
            if g.returncode != 0:
                ctx.notes.append("git ls-remote failed on an advertisement (rc=%d %s)" % (g.returncode, g.stderr[:200]))
            elif got != exp and c["id"] not in fails:
                fails[c["id"]] = "git ls-remote on go-git's advertisement lists %s, advertised %s" % (got[:8], exp[:8])
        self._git_n = n
        return fails

    @staticmethod
    def git_refname_ok(n):
        return n == b"HEAD" or n.startswith(b"refs/")



# ====================================================================== protocol v2
CAPS2_POOL = [("agent", ["git/2.39.5"]), ("ls-refs", ["unborn"]), ("ls-refs", []), ("fetch", ["shallow", "wait-for-done", "filter"]),
              ("fetch", ["shallow"]), ("server-option", []), ("object-format", ["sha1"]), ("object-format", ["sha256"]),
              ("object-info", []), ("session-id", ["a=b"]), ("x", ["y", "z=1"])]
CAPS2_HOSTILE = [("x", [""]), ("y", ["a b"]), ("", []), ("k=v", []), ("z", ["", "q"]), ("sp ace", []), ("n", ["l\n"]),
                 ("\xc2\xa0k", ["v\xe2\x80\xa8"])]
V2_DEC = ["capadv", "cmd-nil", "cmd-lsrefs", "cmd-fetch", "lsargs", "fetchargs", "lsout", "fetchout"]
V2_MSGS = ["capadv", "cmd", "lsargs", "fetchargs", "lsout", "fetchout"]
ZERO_TIME = -62135596800


def rcaps2(rng, hostile):
    seen, out = set(), []
    for _ in range(rng.randrange(5)):
        n, v = rng.choice(CAPS2_POOL + (CAPS2_HOSTILE if hostile else []))
        if n in seen:                   # a capability.List value: one entry per key
            continue
        seen.add(n)
        out.append([hx(n.encode("latin-1"))] + [hx(x.encode("latin-1")) for x in v])
    return out


def caps2_wf(caps):
    for e in caps:
        if not tok_ok(bytes.fromhex(e[0]), b"=") or not all(tok_ok(bytes.fromhex(v)) for v in e[1:]):
            return False
    return len({e[0] for e in caps}) == len(caps)


def gen_ls(rng, hostile):
    pool = [b"refs/heads/", b"refs/tags/", b"HEAD", b"refs/", b"refs/heads/main", b"refs/h\xc3\xa9"]
    bad = [b"", b"a b", b"x\n", b"\x00", b"refs/\xc2\xa0", b"refs/\xe2\x80\xa8x", b"r\x7f", b"r\xc2\x85", b"ok\xff\xfe", b"t\tab", b"refs/\xc2\x9f"]
    pre = [hx(rng.choice(pool + (bad if hostile else []))) for _ in range(rng.randrange(0, 4))]
    return {"peel": rng.random() < 0.5, "symrefs": rng.random() < 0.5, "unborn": rng.random() < 0.3, "prefixes": pre}


def gen_fetch(rng, hostile, H):
    a = {"wants": [H() for _ in range(rng.randrange(0 if hostile else 1, 4))], "haves": [H() for _ in range(rng.randrange(0, 4))],
         "flags": [rng.random() < 0.4 for _ in range(7)], "shallows": [H() for _ in range(rng.choice([0, 0, 1, 2]))],
         "deepen": rng.choice([0, 0, 0, 1, 7, 2147483647] + ([-1, -7] if hostile else [])), "since": rng.choice([None, None, 0, 1700000000, -5] + ([ZERO_TIME] if hostile else [])),
         "not": [hx(rng.choice(NAMES + ([b"a b", b" x", b"y\xc2\xa0"] if hostile else []))) for _ in range(rng.choice([0, 0, 1, 2]))],
         "filter": hx(rng.choice([b"", b"", b"blob:none", b"tree:0", b"blob:limit=1k", b"combine:blob:none+tree:1"] + ([b" sp", b"x\n"] if hostile else [])))}
    if a["wants"] and rng.random() < 0.3:
        a["wants"].append(rng.choice(a["wants"]))
    if hostile and rng.random() < 0.3:
        a["haves"].append(hx(Z40))
    return a


def gen_value2(rng, msg):
    fmt = 64 if rng.random() < 0.2 else 40
    H = lambda: hx(rhash(rng, fmt))
    hostile = rng.random() < 0.2
    if msg == "capadv":
        return {"msg": msg, "version": 2 if rng.random() < 0.9 else rng.choice([0, 1, 3]), "caps": rcaps2(rng, hostile)}
    if msg == "cmd":
        args = rng.choice(["nil", "lsrefs", "fetch"])
        cmd = {"nil": [b"object-info", b"", b"ls-refs"], "lsrefs": [b"ls-refs"], "fetch": [b"fetch"]}[args]
        c = {"msg": msg, "args": args, "command": hx(rng.choice(cmd + ([b"", b"a b", b"x\n", b"f\xc3\xa9tch"] if hostile else []))), "caps": rcaps2(rng, hostile)}
        if args == "lsrefs":
            c["ls"] = gen_ls(rng, hostile)
        if args == "fetch":
            c["fetch"] = gen_fetch(rng, hostile, H)
        return c
    if msg == "lsargs":
        return {"msg": msg, "ls": gen_ls(rng, hostile)}
    if msg == "fetchargs":
        return {"msg": msg, "fetch": gen_fetch(rng, hostile, H)}
    if msg == "lsout":
        refs = []
        names = rng.sample(NAMES, rng.randrange(0, 6))
        for n in names:
            if n == b"HEAD" and rng.random() < 0.7:
                refs.append([hx(n), True, hx(rng.choice([b"refs/heads/main", b"refs/heads/unborn", b"refs/heads/a"]))])
            elif rng.random() < 0.12:
                refs.append([hx(n), True, hx(rng.choice(NAMES[1:]))])
            else:
                refs.append([hx(n), False, H() if rng.random() < 0.93 else hx("0" * fmt)])
                if n.startswith(b"refs/tags/") and rng.random() < 0.7:
                    refs.append([hx(n + b"^{}"), False, H()])
        mode = rng.randrange(4)
        if mode == 0:
            rng.shuffle(refs)
        if hostile:
            k = rng.randrange(6)
            if k == 0 and refs:
                refs.append(list(rng.choice(refs)))
            elif k == 1:
                refs.append([hx(b"refs/tags/orphan^{}"), False, H()])
            elif k == 2:
                refs.insert(0, [hx(rng.choice([b"", b"a b", b"n\xc2\xa0m", b"x\xe3\x80\x80", b"peeled:zz"])), False, H()])
            elif k == 3:
                refs.append([hx(b"refs/heads/s"), True, hx(rng.choice([b"", b"t t", b"refs/\xe2\x80\xa9"]))])
            elif k == 4:
                refs.append([hx(b"refs/tags/symp^{}"), True, hx(b"refs/heads/a")])
        return {"msg": msg, "refs": refs}
    if msg == "fetchout":
        o = {"msg": msg, "acks": None, "shallow": None, "wanted": None, "uris": None, "packfile": rng.random() < 0.6}
        if not o["packfile"] or rng.random() < 0.5:
            o["acks"] = {"hashes": [H() for _ in range(rng.randrange(0, 4))], "ready": o["packfile"] and rng.random() < (0.6 if hostile else 1.0)}
        if hostile and not o["packfile"] and rng.random() < 0.3:
            o["acks"]["ready"] = True
        if o["packfile"] or (hostile and rng.random() < 0.3):
            if rng.random() < 0.4:
                o["shallow"] = {"sh": [H() for _ in range(rng.randrange(0, 3))], "un": [H() for _ in range(rng.randrange(0, 3))]}
            if rng.random() < 0.3:
                o["wanted"] = [[hx(rng.choice(NAMES + ([b"a b", b""] if hostile else []))), H()] for _ in range(rng.randrange(0, 3))]
            if rng.random() < 0.2:
                o["uris"] = [hx(rng.choice([b"https://cdn.example/p1.pack", b"abc", b"u v"] + ([b"", b"x\n", b"ERR z"] if hostile else []))) for _ in range(rng.randrange(0, 3))]
        return o
    raise ValueError(msg)


def coq_strs(l):
    return coq_list([coq_hex(bytes.fromhex(x)) for x in l])


def coq_lsargs(a):
    return "(mk_lsargs %s %s %s %s)" % (coq_bool(a["peel"]), coq_bool(a["symrefs"]), coq_bool(a["unborn"]), coq_strs(a["prefixes"]))


def coq_fetchargs(a):
    return "(mk_fetchargs %s %s %s %s %s %s %s %s)" % (
        hs(a["wants"]), hs(a["haves"]), coq_list([coq_bool(f) for f in a["flags"]]), hs(a["shallows"]), coq_Z(a["deepen"]),
        coq_opt(None if a["since"] is None else coq_Z(a["since"])), coq_strs(a["not"]), coq_hex(bytes.fromhex(a["filter"])))


def coq_optv(x, f):
    return "None" if x is None else "(Some %s)" % f(x)


def since_canon(t):
    return None if t is None or t == ZERO_TIME else t


def fetch_canon(a):
    if not a["wants"] or not all(hash_ok(h, True) for h in a["wants"] + a["haves"] + a["shallows"]):
        return None
    if not all(tok_ok(bytes.fromhex(r)) for r in a["not"]) or not tok_ok(bytes.fromhex(a["filter"]) or b"x"):
        return None
    key = lambda h: bytes.fromhex(hstr(h))
    return {"wants": sorted((hstr(h) for h in a["wants"]), key=bytes.fromhex), "haves": sorted((hstr(h) for h in a["haves"]), key=bytes.fromhex),
            "flags": a["flags"], "shallows": sorted((hstr(h) for h in a["shallows"]), key=bytes.fromhex),
            "deepen": a["deepen"] if a["deepen"] > 0 else 0, "since": since_canon(a["since"]), "not": a["not"], "filter": a["filter"]}


def ls_canon(a):
    if not all(tok_ok(bytes.fromhex(p)) for p in a["prefixes"]):
        return None
    return dict(a)


def expected2(c):
    """-> (wf, expected decoded value) for a v2 value case; the decoder must also leave nothing unread"""
    m = c["msg"]
    if m == "capadv":
        if c["version"] != 2 or not caps2_wf(c["caps"]):
            return False, None
        return True, {"version": 2, "caps": c["caps"]}
    if m == "cmd":
        cmd = bytes.fromhex(c["command"])
        if not caps2_wf(c["caps"]):
            return False, None
        if cmd == b"":
            return False, None          # an empty command is the empty request (a flush): capabilities and arguments are not sent
        if not tok_ok(cmd):
            return False, None
        args = None
        if c["args"] == "lsrefs":
            args = ls_canon(c["ls"])
        elif c["args"] == "fetch":
            args = fetch_canon(c["fetch"])
        if c["args"] != "nil" and args is None:
            return False, None
        return True, {"command": c["command"], "caps": c["caps"], "args": args}
    if m == "lsargs":
        a = ls_canon(c["ls"])
        return (a is not None), a
    if m == "fetchargs":
        a = fetch_canon(c["fetch"])
        return (a is not None), a
    if m == "lsout":
        byname = {}
        for n, sym, v in c["refs"]:
            nb = bytes.fromhex(n)
            if not tok_ok(nb):
                return False, None
            if sym and not tok_ok(bytes.fromhex(v)):
                return False, None
            if not sym:
                if not hash_ok(v, True):
                    return False, None
                byname[nb] = v
        want = []
        for n, sym, v in c["refs"]:
            nb = bytes.fromhex(n)
            if nb.endswith(b"^{}"):
                continue
            want.append([n, sym, v])
            if not sym and nb + b"^{}" in byname:
                want.append([(nb + b"^{}").hex(), False, byname[nb + b"^{}"]])
        return True, want
    if m == "fetchout":
        a, sh, w, u = c["acks"], c["shallow"], c["wanted"], c["uris"]
        hashes = (a["hashes"] if a else []) + (sh["sh"] + sh["un"] if sh else []) + ([h for _, h in w] if w else [])
        if not all(hash_ok(h, True) for h in hashes):
            return False, None
        if c["packfile"]:
            if a is not None and not a["ready"]:
                return False, None      # acknowledgments without "ready" end the response (gitprotocol-v2); Encode does not check it
        else:
            if a is None or a["ready"] or sh is not None or w is not None or u is not None:
                return False, None
        if w and not all(tok_ok(bytes.fromhex(n)) for n, _ in w):
            return False, None
        if u and not all(not bytes.fromhex(x).endswith(b"\n") and not bytes.fromhex(x).startswith(b"ERR ") for x in u):
            return False, None
        return True, {"packfile": c["packfile"], "acks": None if a is None else {"hashes": [hstr(h) for h in a["hashes"]], "ready": a["ready"]},
                      "shallow": None if sh is None else {"sh": [hstr(h) for h in sh["sh"]], "un": [hstr(h) for h in sh["un"]]},
                      "wanted": None if w is None else [[n, hstr(h)] for n, h in w], "uris": u}
    return False, None


def cut_after_section(rng, data, k):
    """the stream up to the k-th delim-pkt (or a packet boundary), then nothing, a flush-pkt or a response-end"""
    pkts, pos = [], 0
    while pos < len(data):
        l, pl, e, npos = ref_read(data, pos, 65520)
        if npos <= pos or e != "nil":
            break
        pkts.append(data[pos:npos])
        pos = npos
    after_delim = [i + 1 for i, p in enumerate(pkts) if p == b"0001"]
    j = after_delim[k % len(after_delim)] if after_delim and rng.random() < 0.85 else rng.randrange(len(pkts) + 1)
    return b"".join(pkts[:j]) + rng.choice([b"", b"0000", b"0002", b"0000"])


def dec_kind(c):
    return "cmd-" + c["args"] if c["msg"] == "cmd" else c["msg"]


class V2(Suite):
    """protocol v2 messages: value -> Encode -> chunked Decode, and Decode of raw / mutated streams"""
    name = "v2"
    go_cmd = "c35"
    coq_imports = "From GoGit Require Import Model.PktLine Model.Packp Model.PackpV2."
    quick_n = 320
    thorough_n = 2500
    coq_chunk = 70

    def gen(self, rng, n, tier):
        import random
        from vf import core
        cases = [{"bucket": "unitab", "kind": "unitab"}]
        while len(cases) < n:
            b = pick_weighted(rng, [(6, "rt"), (5, "dec")])
            msg = rng.choice(V2_MSGS)
            v = gen_value2(rng, msg)
            if b == "rt":
                v.update({"bucket": "rt2-" + dec_kind(v), "kind": "rt2", "chunks": rchunks(rng, 250)})
                cases.append(v)
            elif msg == "fetchout" and rng.random() < 0.5:
                # metadata sections without the acknowledgments in front, cut behind each section
                H = lambda: hx(rhash(rng, 40))
                v = {"msg": msg, "kind": "rt2", "chunks": [], "acks": None if rng.random() < 0.7 else {"hashes": [H()], "ready": True},
                     "shallow": {"sh": [H()], "un": []} if rng.random() < 0.6 else None,
                     "wanted": [[hx(b"refs/heads/main"), H()]] if rng.random() < 0.4 else None,
                     "uris": [hx(b"https://cdn.example/p.pack")] if rng.random() < 0.3 else None, "packfile": True}
                for k in range(sum(1 for x in ("acks", "shallow", "wanted", "uris") if v[x] is not None) or 1):
                    cases.append({"bucket": "dec2-fetchout-cut", "kind": "dec2", "msg": "fetchout", "_from": v, "cut": k,
                                  "chunks": rchunks(rng, 120), "_seed": rng.randrange(1 << 30)})
            else:
                v.update({"kind": "rt2", "chunks": []})
                dk = dec_kind(v) if rng.random() < 0.85 else rng.choice(V2_DEC)       # sometimes the wrong decoder
                cases.append({"bucket": "dec2-" + dk, "kind": "dec2", "msg": dk, "_from": v, "chunks": rchunks(rng, 200), "_seed": rng.randrange(1 << 30)})
        need = [c for c in cases if c["kind"] == "dec2"]
        if need:
            enc = core.run_impl(self.go_cmd, [dict(c["_from"], id=i) for i, c in enumerate(need)])
            for i, c in enumerate(need):
                r = random.Random(c.pop("_seed"))
                data = bytes.fromhex(((enc.get(i) or {}).get("extra") or {}).get("bytes") or "")
                c.pop("_from")
                if r.random() < 0.15:
                    data += r.choice([b"0000", b"0009PACK\n", b"0002", b"000dpackfile\n", b"0001"])     # something after the message
                if c.get("cut") is not None:
                    c["hex"] = cut_after_section(r, data, c.pop("cut")).hex()     # a response that stops between two sections
                    continue
                c["hex"] = ((mutate_lines(r, data) if r.random() < 0.45 else mutate(r, data)) if r.random() < 0.75 else data).hex()
        return cases

    def model_expr(self, c):
        k = c["kind"]
        ch = coq_ns(c.get("chunks", []))
        if k == "unitab":
            return "c35_unitab"
        if k == "dec2":
            return 'c35v2_dec "%s" %s %s' % (c["msg"], coq_hex(bytes.fromhex(c["hex"])), ch)
        m = c["msg"]
        if m == "capadv":
            return "c35v2_capadv %s %s %s" % (coq_Z(c["version"]), coq_caps(c["caps"]), ch)
        if m == "cmd":
            cmd = coq_hex(bytes.fromhex(c["command"]))
            if c["args"] == "nil":
                return "c35v2_cmd_nil %s %s %s" % (cmd, coq_caps(c["caps"]), ch)
            if c["args"] == "lsrefs":
                return "c35v2_cmd_lsrefs %s %s %s %s" % (cmd, coq_caps(c["caps"]), coq_lsargs(c["ls"]), ch)
            return "c35v2_cmd_fetch %s %s %s %s" % (cmd, coq_caps(c["caps"]), coq_fetchargs(c["fetch"]), ch)
        if m == "lsargs":
            return "c35v2_lsargs %s %s" % (coq_lsargs(c["ls"]), ch)
        if m == "fetchargs":
            return "c35v2_fetchargs %s %s" % (coq_fetchargs(c["fetch"]), ch)
        if m == "lsout":
            refs = coq_list(["(%s, %s, %s)" % (coq_hex(bytes.fromhex(n)), coq_bool(sym), coq_hex(bytes.fromhex(v))) for n, sym, v in c["refs"]])
            return "c35v2_lsout %s %s" % (refs, ch)
        if m == "fetchout":
            a, sh, w, u = c["acks"], c["shallow"], c["wanted"], c["uris"]
            return "c35v2_fetchout (mk_fetchout %s %s %s %s %s) %s" % (
                coq_optv(a, lambda a: "(%s, %s)" % (hs(a["hashes"]), coq_bool(a["ready"]))),
                coq_optv(sh, lambda s: "(%s, %s)" % (hs(s["sh"]), hs(s["un"]))),
                coq_optv(w, lambda w: coq_list(["(%s, %s)" % (coq_hex(bytes.fromhex(n)), coq_hex(bytes.fromhex(h))) for n, h in w]) if w else "(@nil (string * string))"),
                coq_optv(u, lambda u: coq_strs(u) if u else "(@nil string)"), coq_bool(c["packfile"]), ch)
        return None

    def nontrivial(self, c):
        return c["kind"] != "unitab"

    def oracle(self, ctx, cases, impl, model):
        fails = {}
        for c in cases:
            r = impl.get(c["id"])
            if r is None or r.get("panic"):
                fails[c["id"]] = "no reply / panic"
                continue
            if c["kind"] != "rt2":
                continue
            wf, want = expected2(c)
            if not wf:
                continue
            ex = r.get("extra") or {}
            if ex.get("enc") != "ok":
                fails[c["id"]] = "well-formed v2 %s value was not encoded: %s" % (c["msg"], ex.get("err"))
            elif (ex.get("value") or {}).get("v") != want or (ex.get("value") or {}).get("rest") != 0:
                fails[c["id"]] = "decode(encode(v)) = %s, expected %s with nothing left unread" % (ex.get("value"), want)
        return fails

    def finding_class(self, c, reason, reply):
        return None



# ====================================================================== C-git: the git binary as the reference
from props import c35_git as G

UP_CAPS = [("multi_ack_detailed", []), ("multi_ack", []), ("side-band-64k", []), ("thin-pack", []), ("ofs-delta", []), ("no-progress", []),
           ("include-tag", []), ("agent", ["go-git/6.x"]), ("no-done", []), ("x-unknown", [])]
RP_CAPS = [("report-status", []), ("delete-refs", []), ("ofs-delta", []), ("agent", ["go-git/6.x"]), ("quiet", []), ("atomic", [])]
ADV_CAPS = [("multi_ack", []), ("thin-pack", []), ("side-band-64k", []), ("ofs-delta", []), ("shallow", []), ("agent", ["go-git/6.x"]),
            ("object-format", ["sha1"]), ("allow-tip-sha1-in-want", [])]
REPO = G.Repo()
HX = lambda h: hx(h)      # a hash as the cases carry it: hex of its ASCII form


def caps_from(rng, pool, k):
    seen, out = set(), []
    for n, v in rng.sample(pool, min(k, len(pool))):
        out.append([hx(n)] + [hx(x) for x in v])
    return out


# refusals for what a request means on this server (an id that is no tip, a capability or command that was not advertised), not for its form
SEMANTIC = ("not our ref", "ambiguous deepen-not", "no commits selected", "unknown capability", "invalid command", "mismatched object format",
            "filtering capability not negotiated", "invalid filter-spec", "unknown object format")


def S_expr(msg, data, hexsz=40):
    return 'c35s "%s" %s %s' % (msg, coq_N(hexsz), coq_hex(data))


class Git(Suite):
    """go-git's encodings in front of git 2.39.5 (client and server programs), git's own messages in front of go-git's decoders,
    and S (Spec/GitProto.v) evaluated on the same bytes.  A case is one scenario with all the values it needs."""
    name = "git"
    go_cmd = "c35"
    coq_imports = "From GoGit Require Import Model.PktLine Model.Packp Model.PackpV2."
    quick_n = 26
    thorough_n = 120
    coq_chunk = 30

    MUT = {"adv-client": ("advrefs", 0), "v2-lsremote": ("lsout", 1), "ulreq-server": ("ulreq", 0), "v2-server-lsrefs": ("cmd-lsrefs", 0),
           "v2-server-fetch": ("cmd-fetch", 0), "updreq-server": ("updreq", 0)}
    SCN = [(4, "adv-client"), (3, "v2-lsremote"), (5, "ulreq-server"), (3, "v2-server-lsrefs"), (4, "v2-server-fetch"),
           (3, "updreq-server"), (2, "report-client"), (1, "fetch-client-v0"), (1, "fetch-client-v2")]

    # ------------------------------------------------------------ generation
    def gen(self, rng, n, tier):
        cases = [{"bucket": "git-adv", "kind": "multi", "scn": "git-adv", "parts": []}]
        while len(cases) < n:
            scn = pick_weighted(rng, self.SCN)
            c = getattr(self, "gen_" + scn.replace("-", "_"))(rng)
            c.update({"bucket": scn, "kind": "multi", "scn": scn})
            if scn in self.MUT and rng.random() < 0.3:
                c["mut"] = rng.randrange(1 << 30)           # the encoding is edited before git and S read it
                c["bucket"] = scn + "-mutated"
            for p in c["parts"]:
                p.setdefault("chunks", [])
            cases.append(c)
        return cases

    def gen_adv_client(self, rng):
        H = lambda: hx(rhash(rng, 40))
        names = rng.sample(NAMES, rng.randrange(0, 7))
        refs = []
        for nm in names:
            refs.append([hx(nm), H()])
            if nm.startswith(b"refs/tags/") and rng.random() < 0.7:
                refs.append([hx(nm + b"^{}"), H()])
        if rng.random() < 0.3:
            rng.shuffle(refs)
        if rng.random() < 0.25:
            refs = [r for r in refs if r[0] != hx(b"HEAD")]
        caps = caps_from(rng, ADV_CAPS, rng.randrange(0, 5))
        if any(r[0] == hx(b"HEAD") for r in refs) and rng.random() < 0.7:
            tgt = rng.choice([bytes.fromhex(r[0]) for r in refs if not bytes.fromhex(r[0]).endswith(b"^{}")])
            caps.append([hx(b"symref"), hx(b"HEAD:" + tgt)])
        return {"parts": [{"kind": "rt", "msg": "advrefs", "version": rng.choice([0, 0, 1]), "caps": caps, "refs": refs,
                           "shallows": [H() for _ in range(rng.choice([0, 0, 1, 2]))]}]}

    def lsout_value(self, rng):
        H = lambda: hx(rhash(rng, 40))
        refs = []
        names = rng.sample(NAMES, rng.randrange(0, 6))
        for nm in names:
            if nm == b"HEAD":
                continue
            refs.append([hx(nm), False, H()])
            if nm.startswith(b"refs/tags/") and rng.random() < 0.7:
                refs.append([hx(nm + b"^{}"), False, H()])
        heads = [r for r in refs if bytes.fromhex(r[0]).startswith(b"refs/heads/")]
        if rng.random() < 0.8:
            if heads and rng.random() < 0.8:
                refs.insert(0, [hx(b"HEAD"), True, rng.choice(heads)[0]])
            else:
                refs.insert(0, [hx(b"HEAD"), True, hx(b"refs/heads/unborn")])        # an unborn HEAD
        if rng.random() < 0.3:
            rng.shuffle(refs)
        return {"kind": "rt2", "msg": "lsout", "refs": refs}

    def capadv_value(self, rng, fetch=("shallow",)):
        caps = [[hx(b"agent"), hx(b"go-git/6.x")], [hx(b"ls-refs"), hx(b"unborn")], [hx(b"fetch")] + [hx(f) for f in fetch],
                [hx(b"object-format"), hx(b"sha1")]]
        if rng.random() < 0.5:
            caps.append([hx(b"server-option")])
        if rng.random() < 0.5:
            rng.shuffle(caps)
        return {"kind": "rt2", "msg": "capadv", "version": 2, "caps": caps}

    def gen_v2_lsremote(self, rng):
        return {"parts": [self.capadv_value(rng), self.lsout_value(rng)]}

    def gen_ulreq_server(self, rng):
        tips = [REPO.commit[4], REPO.commit[3], REPO.commit[1], REPO.tag]
        wants = rng.sample(tips, rng.choice([1, 1, 2, 3]))
        if rng.random() < 0.2:
            wants.append(wants[0])
        caps = caps_from(rng, UP_CAPS, rng.randrange(0, 5))
        m = rng.choice([0, 0, 0, 1, 1, 2, 3, 4])
        u = {"kind": "rt", "msg": "ulreq", "caps": caps, "wants": [HX(w) for w in wants], "shallows": [], "deepen": 0, "since": None, "not": [], "filter": ""}
        if m == 1:
            u["deepen"] = rng.choice([1, 2, 3, 50])
        elif m == 2:
            u["since"] = 1700000000 + rng.choice([1, 2, 3]) * 1000 + rng.choice([-500, 0])
        elif m == 3:
            u["not"] = [hx(rng.choice([b"refs/heads/dev", b"refs/tags/lw", b"refs/tags/v1"]))]
            if rng.random() < 0.4:
                u["since"] = 1700001000
        elif m == 4:
            u["shallows"] = [HX(REPO.commit[rng.choice([2, 3])])]
            if rng.random() < 0.5:
                u["deepen"] = rng.choice([1, 2, 5])
        if rng.random() < 0.3:
            u["filter"] = hx(rng.choice([b"blob:none", b"tree:0", b"blob:limit=1k"]))
            u["caps"].append([hx(b"filter")])
        if u["deepen"] or u["since"] or u["not"] or u["shallows"]:
            u["caps"].append([hx(b"shallow")])
        plain = not (u["deepen"] or u["since"] or u["not"] or u["shallows"])
        haves = ([HX(REPO.commit[i]) for i in rng.sample([1, 2, 3, 4], rng.choice([0, 0, 1, 2]))] if plain else []) + [hx(rhash(rng, 40)) for _ in range(rng.choice([0, 0, 1]))]
        return {"parts": [u, {"kind": "rt", "msg": "uphav", "haves": haves, "done": True}]}

    def gen_v2_server_lsrefs(self, rng):
        pre = [hx(rng.choice([b"refs/heads/", b"refs/tags/", b"HEAD", b"refs/", b"refs/heads/ma", b"refs/tags/v1", b"refs/nothing/"]))
               for _ in range(rng.randrange(0, 3))]
        ls = {"peel": rng.random() < 0.6, "symrefs": rng.random() < 0.6, "unborn": rng.random() < 0.3, "prefixes": pre}
        caps = [[hx(b"agent"), hx(b"go-git/6.x")]] if rng.random() < 0.7 else []
        if rng.random() < 0.6:
            caps.append([hx(b"object-format"), hx(b"sha1")])
        return {"parts": [{"kind": "rt2", "msg": "cmd", "args": "lsrefs", "command": hx(b"ls-refs"), "caps": caps, "ls": ls}]}

    def gen_v2_server_fetch(self, rng):
        tips = [REPO.commit[4], REPO.commit[3], REPO.commit[1], REPO.tag]
        wants = rng.sample(tips, rng.choice([1, 1, 2]))
        m = rng.choice([0, 0, 0, 1, 2, 3, 4])
        haves = ([HX(REPO.commit[i]) for i in rng.sample([1, 2, 3], rng.choice([0, 0, 1, 2]))] if m == 0 else []) + [hx(rhash(rng, 40)) for _ in range(rng.choice([0, 0, 1]))]
        done = rng.random() < 0.6
        flags = [done, rng.random() < 0.5, rng.random() < 0.5, rng.random() < 0.3, rng.random() < 0.5, False, False]
        a = {"wants": [HX(w) for w in wants], "haves": haves, "flags": flags, "shallows": [], "deepen": 0, "since": None, "not": [], "filter": ""}
        if m == 1:
            a["deepen"] = rng.choice([1, 2, 3])
        elif m == 2:
            a["since"] = 1700000000 + rng.choice([1, 2, 3]) * 1000
        elif m == 3:
            a["not"] = [hx(rng.choice([b"refs/heads/dev", b"refs/tags/lw"]))]
        elif m == 4:
            a["shallows"] = [HX(REPO.commit[rng.choice([2, 3])])]
        if rng.random() < 0.25:
            a["filter"] = hx(rng.choice([b"blob:none", b"tree:0"]))
        caps = [[hx(b"agent"), hx(b"go-git/6.x")], [hx(b"object-format"), hx(b"sha1")]]
        return {"parts": [{"kind": "rt2", "msg": "cmd", "args": "fetch", "command": hx(b"fetch"), "caps": caps[:rng.randrange(0, 3)], "fetch": a}]}

    def gen_updreq_server(self, rng):
        Z = hx(Z40)
        cmds = []
        pool = ["update", "create", "delete", "delete-tag", "stale"]
        for k in rng.sample(pool, rng.choice([1, 1, 2, 3])):
            if k == "update":
                cmds.append([hx(b"refs/heads/dev"), HX(REPO.commit[3]), HX(REPO.commit[rng.choice([4, 2])])])
            elif k == "create":
                cmds.append([hx(rng.choice([b"refs/heads/new", b"refs/tags/t2", b"refs/heads/f/x"])), Z, HX(REPO.commit[rng.choice([1, 2, 3, 4])])])
            elif k == "delete":
                cmds.append([hx(b"refs/tags/lw"), HX(REPO.commit[1]), Z])
            elif k == "delete-tag":
                cmds.append([hx(b"refs/tags/v1"), HX(REPO.tag), Z])
            else:
                cmds.append([hx(b"refs/heads/main"), HX(REPO.commit[2]), HX(REPO.commit[3])])       # old id does not match: rejected by git
        caps = caps_from(rng, RP_CAPS[2:], rng.randrange(0, 3)) + [[hx(b"report-status")]]
        if any(c[2] == Z for c in cmds):
            caps.append([hx(b"delete-refs")])
        parts = [{"kind": "rt", "msg": "updreq", "caps": caps, "cmds": cmds, "shallows": []}]
        if rng.random() < 0.4:
            caps.append([hx(b"push-options")])
            parts.append({"kind": "rt", "msg": "pushopts", "opts": [hx(rng.choice([b"ci.skip", b"a=b c", b"x", b"reviewer=alice"])) for _ in range(rng.randrange(0, 3))]})
        return {"parts": parts}

    def gen_report_client(self, rng):
        # what the client pushes: main (an update), a deletion, a new branch; the statuses come from the value
        refs = [b"refs/heads/main", b"refs/heads/gone", b"refs/heads/new"]
        cmds = []
        for r in refs:
            st = rng.choice([b"ok", b"ok", b"non-fast-forward", b"hook declined", b"failed to lock"])
            cmds.append([hx(r), hx(st)])
        un = rng.choice([b"ok", b"ok", b"ok", b"unpacker error"])
        adv = {"kind": "rt", "msg": "advrefs", "version": 0, "caps": [[hx(b"report-status")], [hx(b"delete-refs")], [hx(b"agent"), hx(b"go-git/6.x")]],
               "refs": [[hx(b"refs/heads/gone"), HX(REPO.commit[2])], [hx(b"refs/heads/main"), HX(REPO.commit[3])], [hx(b"refs/heads/keep"), HX(REPO.commit[4])]],
               "shallows": []}
        return {"parts": [adv, {"kind": "rt", "msg": "report", "unpack": hx(un), "cmds": cmds}]}

    def gen_fetch_client_v0(self, rng):
        depth = rng.random() < 0.6
        filt = (not depth) and rng.random() < 0.5
        caps = [[hx(b"multi_ack")], [hx(b"ofs-delta")], [hx(b"shallow")], [hx(b"agent"), hx(b"go-git/6.x")]] + ([[hx(b"filter")]] if filt else [])
        adv = {"kind": "rt", "msg": "advrefs", "version": 0, "caps": caps + [[hx(b"symref"), hx(b"HEAD:refs/heads/main")]],
               "refs": [[hx(n), HX(h)] for n, h in REPO.advertised()], "shallows": []}
        parts = [adv, {"kind": "rt", "msg": "srvresp", "acks": []}]
        if depth:
            parts.append({"kind": "rt", "msg": "shupd", "shallows": [HX(REPO.commit[4])], "unshallows": []})
        return {"parts": parts, "depth": depth, "filter": filt}

    def gen_fetch_client_v2(self, rng):
        depth = rng.random() < 0.6
        lsout = {"kind": "rt2", "msg": "lsout", "refs": [[hx(b"HEAD"), True, hx(b"refs/heads/main")]] +
                 [[hx(n), False, HX(h)] for n, h in REPO.advertised() if n != "HEAD"]}
        fo = {"kind": "rt2", "msg": "fetchout", "acks": None, "shallow": {"sh": [HX(REPO.commit[4])], "un": []} if depth else None,
              "wanted": None, "uris": None, "packfile": True}
        return {"parts": [self.capadv_value(rng), lsout, fo], "depth": depth}

    # ------------------------------------------------------------ model side: G on every part
    def model_expr(self, c):
        es = []
        for p in c["parts"]:
            e = (V2.model_expr(self, p) if p["kind"] == "rt2" else Msgs.model_expr(self, p))
            if e is None:
                return None
            es.append("(%s)" % e)
        return "OList %s" % (coq_list(es) if es else "(@nil out)")

    cmd_domain = staticmethod(Msgs.cmd_domain)
    updreq_domain = staticmethod(Msgs.updreq_domain)

    def nontrivial(self, c):
        return True

    # ------------------------------------------------------------ the oracle: git is the reference
    def oracle(self, ctx, cases, impl, model):
        from concurrent.futures import ThreadPoolExecutor
        self.stats = {"scenarios": 0, "git_runs": 0, "skipped": 0, "spec_evals": 0, "spec_mismatches": [], "git_more_lenient": 0}
        self.ctx = ctx
        fails = {}
        jobs = []
        for c in cases:
            r = impl.get(c["id"])
            if r is None or r.get("panic"):
                fails[c["id"]] = "no reply / panic"
                continue
            parts = (r.get("extra") or {}).get("parts") or []
            if c["scn"] != "git-adv" and (len(parts) != len(c["parts"]) or any((p or {}).get("enc") != "ok" for p in parts)):
                fails[c["id"]] = "a scenario value was not encoded: %s" % [((p or {}).get("enc"), (p or {}).get("err")) for p in parts]
                continue
            jobs.append((c, [bytes.fromhex(p["bytes"]) for p in parts]))
        import tempfile
        base = tempfile.mkdtemp(prefix="git", dir=ctx.tmp)          # fresh for every pass: scenarios write repositories

        def run(job):
            c, enc = job
            d = os.path.join(base, "c%d" % c["id"])
            os.makedirs(d, exist_ok=True)
            try:
                if "mut" in c:
                    return c["id"], self.run_mutated(c, enc, d)
                return c["id"], getattr(self, "run_" + c["scn"].replace("-", "_"))(c, enc, d)
            except Exception as e:           # a fault of the driver is never an alarm
                import traceback
                return c["id"], {"skip": "driver fault: %s" % traceback.format_exc()[-600:]}

        with ThreadPoolExecutor(max_workers=6) as ex:
            results = dict(ex.map(run, jobs))
        # S on the same bytes (one batch), compared with the expected value and with what git did
        sq = []
        for cid, res in results.items():
            for (msg, data, want, label) in res.get("spec", []):
                sq.append((cid, msg, data, want, label))
        outs = ctx.coq_eval("From GoGit Require Import Model.PktLine Model.Packp Spec.GitProto.", [S_expr(m, d) for _, m, d, _, _ in sq], chunk=40) if sq else []
        self.stats["spec_evals"] = len(sq)
        for (cid, msg, data, want, label), o in zip(sq, outs):
            got = None if o is None else G.parse_out(o)
            if isinstance(want, tuple):                   # ("accepts?", what git did)
                s_acc = isinstance(got, list) and got[:1] == ["ok"]
                if s_acc and not want[1]:
                    self.stats["spec_mismatches"].append({"case": cid, "what": label + ": S accepts, git refuses", "S": str(got)[:300], "git": want[2][:200], "bytes": data.hex()[:400]})
                elif not s_acc and want[1]:
                    self.stats["git_more_lenient"] += 1
                else:
                    self.stats["agree_on_mutated"] = self.stats.get("agree_on_mutated", 0) + 1
                continue
            if got != want:
                self.stats["spec_mismatches"].append({"case": cid, "what": label, "S": str(got)[:300], "expected": str(want)[:300], "bytes": data.hex()[:400]})
        for cid, res in results.items():
            self.stats["scenarios"] += 1
            self.stats["git_runs"] += res.get("runs", 0)
            if res.get("skip"):
                self.stats["skipped"] += 1
                ctx.notes.append("C-git scenario skipped (case %s): %s" % (cid, res["skip"][:300]))
            elif res.get("fail") and cid not in fails:
                fails[cid] = res["fail"]
        return fails

    def finding_class(self, c, reason, reply):
        return None

    def extra(self, ctx, cases, impl, model):
        st = dict(getattr(self, "stats", {}))
        st["spec_mismatches"] = st.get("spec_mismatches", [])[:10]
        return st

    # ------------------------------------------------------------ helpers
    def stub(self, d, steps):
        plan = os.path.join(d, "plan.json")
        with open(plan, "w") as f:
            json.dump(steps, f)
        from vf import core
        return "ext::%s stub %s" % (os.path.join(core.HARNESS, "bin", "c35"), plan)

    def put(self, d, name, data):
        p = os.path.join(d, name)
        with open(p, "wb") as f:
            f.write(data)
        return p

    def get(self, d, name):
        try:
            with open(os.path.join(d, name), "rb") as f:
                return f.read()
        except OSError:
            return b""

    def decode_with_gogit(self, items):
        """items: list of (kind, msg, bytes) -> harness replies (value JSON or None)"""
        from vf import core
        cs = [{"id": i, "kind": k, "msg": m, "hex": b.hex(), "chunks": []} for i, (k, m, b) in enumerate(items)]
        rep = core.run_impl(self.go_cmd, cs)
        return [((rep.get(i) or {}).get("extra") or {}).get("value") for i in range(len(cs))]

    # ------------------------------------------------------------ edited encodings: does git take what S takes?
    def run_mutated(self, c, enc, d):
        import random
        msg, k = self.MUT[c["scn"]]
        data = mutate_lines(random.Random(c["mut"]), enc[k] + (b"0000" if c["scn"] == "v2-lsremote" else b""))
        scn = c["scn"]
        if scn == "adv-client":
            url = self.stub(d, [{"send": self.put(d, "adv.bin", data)}, {"recv_all": os.path.join(d, "rest.bin")}])
            rc, out, err = G.git(["ls-remote", url], d, timeout=150)
        elif scn == "v2-lsremote":
            url = self.stub(d, [{"send": self.put(d, "adv.bin", enc[0])}, {"recv_flush": os.path.join(d, "req.bin")},
                                {"send": self.put(d, "ls.bin", data)}, {"recv_all": os.path.join(d, "rest.bin")}])
            rc, out, err = G.git(["-c", "protocol.version=2", "ls-remote", url], d, timeout=150)
        else:
            repo = os.path.join(d, "repo.git")
            REPO.write(repo, config="[uploadpack]\n\tallowFilter = true\n[receive]\n\tadvertisePushOptions = true\n")
            if scn == "ulreq-server":
                rc, out, err = G.git(["upload-pack", "--stateless-rpc", repo], d, inp=data + enc[1])
            elif scn == "updreq-server":
                empty_pack = b"PACK" + (2).to_bytes(4, "big") + (0).to_bytes(4, "big")
                empty_pack += hashlib.sha1(empty_pack).digest()
                rc, out, err = G.git(["receive-pack", "--stateless-rpc", repo], d, inp=data + (enc[1] if len(enc) > 1 else b"") + empty_pack)
            else:
                rc, out, err = G.git(["upload-pack", "--stateless-rpc", repo], d, inp=data, env={"GIT_PROTOCOL": "version=2"})
        if rc is None:
            return {"skip": "git timed out", "runs": 1}
        msgtxt = err.decode("utf-8", "replace")
        if rc != 0 and any(x in msgtxt for x in SEMANTIC):
            return {"skip": "git refuses the edited request for what it means, not for its form: %s" % msgtxt[:120], "runs": 1}
        if scn == "updreq-server" and rc == 0:
            # receive-pack reports malformed commands it could frame in the status report; a "protocol error" is a refusal
            pass
        return {"runs": 1, "spec": [(msg, data, ("accepts?", rc == 0, msgtxt), "edited %s" % msg)]}

    # ------------------------------------------------------------ scenarios
    def run_adv_client(self, c, enc, d):
        v = c["parts"][0]
        wf, want = expected(v)
        if not wf or not all(Msgs.git_refname_ok(bytes.fromhex(n)) for n, _ in want["refs"]):
            return {"skip": "outside the C-git domain"}
        url = self.stub(d, [{"send": self.put(d, "adv.bin", enc[0])}, {"recv_all": os.path.join(d, "rest.bin")}])
        rc, out, err = G.git(["ls-remote", "--symref", url], d)
        if rc is None:
            return {"skip": "git ls-remote timed out", "runs": 1}
        lines = out.decode("utf-8", "replace").splitlines()
        got = sorted(tuple(l.split("\t")) for l in lines if not l.startswith("ref: "))
        exp = sorted((h, bytes.fromhex(nm).decode()) for nm, h in want["refs"])
        names = {bytes.fromhex(nm) for nm, _ in want["refs"]}
        syms = sorted(l for l in lines if l.startswith("ref: "))
        esyms = []
        for e in v["caps"]:
            if bytes.fromhex(e[0]) == b"symref":
                for val in e[1:]:
                    src, _, tgt = bytes.fromhex(val).partition(b":")
                    if src in names:
                        esyms.append("ref: %s\t%s" % (tgt.decode(), src.decode()))
        res = {"runs": 1}
        # S: the capability words, the references in wire order, the shallows
        words = []
        for e in v["caps"]:
            words += [e[0]] if len(e) == 1 else [(bytes.fromhex(e[0]) + b"=" + bytes.fromhex(x)).hex() for x in e[1:]]
        res["spec"] = [("advrefs", enc[0], ["ok", [["x" + w for w in words], [["x" + n, "x" + hx(h)] for n, h in want["refs"]], ["x" + hx(h) for h in want["shallows"]]]],
                        "S(advrefs encoding) = the advertised value")]
        if rc != 0:
            res["fail"] = "git ls-remote rejects go-git's advertisement (rc=%d): %s" % (rc, err.decode("utf-8", "replace")[:300])
        elif got != exp:
            res["fail"] = "git ls-remote on go-git's advertisement lists %s, advertised %s" % (got[:8], exp[:8])
        elif syms != sorted(esyms):
            res["fail"] = "git ls-remote --symref reports %s, the symref capabilities say %s" % (syms, sorted(esyms))
        return res

    def run_v2_lsremote(self, c, enc, d):
        cap, ls = c["parts"]
        wf, want = expected2(ls)
        if not wf:
            return {"skip": "outside the C-git domain"}
        url = self.stub(d, [{"send": self.put(d, "adv.bin", enc[0])}, {"recv_flush": os.path.join(d, "req.bin")},
                            {"send": self.put(d, "ls.bin", enc[1] + b"0000")}, {"recv_all": os.path.join(d, "rest.bin")}])
        rc, out, err = G.git(["-c", "protocol.version=2", "ls-remote", "--symref", url], d)
        if rc is None:
            return {"skip": "git ls-remote timed out", "runs": 1}
        lines = out.decode("utf-8", "replace").splitlines()
        got = sorted(tuple(l.split("\t")) for l in lines if not l.startswith("ref: "))
        syms = sorted(l for l in lines if l.startswith("ref: "))
        byname = {bytes.fromhex(n): bytes.fromhex(v).decode() for n, sym, v in ls["refs"] if not sym}
        exp, esyms, srefs = [], [], []
        for n, sym, v in want:
            nb = bytes.fromhex(n)
            if sym:
                tgt = bytes.fromhex(v)
                oid = byname.get(tgt)
                if oid is not None and set(oid) != {"0"}:
                    exp.append((oid, nb.decode()))
                    esyms.append("ref: %s\t%s" % (tgt.decode(), nb.decode()))
                    srefs.append(["x" + n, ["some", "x" + hx(oid)], ["some", "x" + v], "none"])
                else:
                    srefs.append(["x" + n, "none", ["some", "x" + v], "none"])
            elif nb.endswith(b"^{}"):
                exp.append((bytes.fromhex(v).decode(), nb.decode()))
                srefs[-1][3] = ["some", "x" + v]
            else:
                exp.append((bytes.fromhex(v).decode(), nb.decode()))
                srefs.append(["x" + n, ["some", "x" + v], "none", "none"])
        res = {"runs": 1}
        capw = [["x" + e[0], "none" if len(e) == 1 else ["some", "x" + b" ".join(bytes.fromhex(x) for x in e[1:]).hex()]] for e in cap["caps"]]
        res["spec"] = [("capadv", enc[0], ["ok", capw], "S(capability advertisement) = the advertised capabilities"),
                       ("lsout", enc[1] + b"0000", ["ok", srefs], "S(ls-refs output) = the references")]
        # git's own ls-refs request, read by go-git
        req = self.get(d, "req.bin")
        val = self.decode_with_gogit([("dec2", "cmd-lsrefs", req)])[0]
        if rc != 0:
            res["fail"] = "git ls-remote (protocol v2) rejects go-git's capability advertisement / ls-refs output (rc=%d): %s" % (rc, err.decode("utf-8", "replace")[:300])
        elif got != sorted(exp) or syms != sorted(esyms):
            res["fail"] = "git ls-remote (v2) lists %s %s, go-git sent %s %s" % (got[:8], syms, sorted(exp)[:8], sorted(esyms))
        elif not val or (val.get("v") or {}).get("command") != hx(b"ls-refs") or val.get("rest") != 0 or not ((val["v"].get("args") or {}).get("peel") and val["v"]["args"].get("symrefs")):
            res["fail"] = "go-git does not read git's ls-refs request %s: %s" % (req[:200], val)
        else:
            a = val["v"]["args"]
            capw = []
            for e in val["v"]["caps"]:
                capw.append(["x" + e[0], "none" if len(e) == 1 else ["some", "x" + b" ".join(bytes.fromhex(x) for x in e[1:]).hex()]])
            res["spec"].append(("cmd-lsrefs", req, ["ok", ["x" + hx(b"ls-refs"), capw, [str(a["peel"]).lower(), str(a["symrefs"]).lower(), str(a["unborn"]).lower(), ["x" + p for p in a["prefixes"]]]]],
                                "S(git's ls-refs request) = what go-git decoded"))
        return res

    def run_ulreq_server(self, c, enc, d):
        u, hv = c["parts"]
        wf, want = expected(u)
        wf2, wanth = expected(hv)
        if not wf or not wf2:
            return {"skip": "outside the C-git domain"}
        repo = os.path.join(d, "repo.git")
        REPO.write(repo, config="[uploadpack]\n\tallowFilter = true\n")
        wants = [hstr(h) for h in u["wants"]]
        filt = bytes.fromhex(u["filter"]) or None
        since = u["since"]
        exp = REPO.expect_fetch(wants, wanth["haves"], deepen=u["deepen"] or None, since=since, nots=[bytes.fromhex(r).decode() for r in u["not"]],
                                filt=filt, client_shallows=[hstr(h) for h in u["shallows"]],
                                include_tag=any(bytes.fromhex(e[0]) == b"include-tag" for e in u["caps"]))
        rc, out, err = G.git(["upload-pack", "--stateless-rpc", repo], d, inp=enc[0] + enc[1])
        if rc is None:
            return {"skip": "git upload-pack timed out", "runs": 1}
        res = {"runs": 1}
        capw = []
        for e in want["caps"]:
            capw += ["x" + e[0]] if len(e) == 1 else ["x" + (bytes.fromhex(e[0]) + b"=" + bytes.fromhex(x)).hex() for x in e[1:]]
        res["spec"] = [("ulreq", enc[0], ["ok", [capw, ["x" + hx(h) for h in want["wants"]], ["x" + hx(h) for h in want["shallows"]],
                                                   ["some", str(u["deepen"])] if u["deepen"] else "none", ["some", str(since)] if since is not None else "none",
                                                   ["x" + r for r in u["not"]], ["some", "x" + u["filter"]] if u["filter"] else "none"]],
                        "S(upload-request) = the request"),
                       ("haves", enc[1], ["ok", [["x" + hx(h) for h in wanth["haves"]], "true"]], "S(upload-haves) = the haves")]
        if exp is None:
            return dict(res, skip="no expectation for this request")
        if rc != 0:
            return dict(res, fail="git upload-pack refuses go-git's upload-request (rc=%d): %s" % (rc, err.decode("utf-8", "replace")[:300]))
        pk, pos = G.read_pkts(out)
        sh = {p[8:48].decode() for n, p in pk if p.startswith(b"shallow ")}
        un = {p[10:50].decode() for n, p in pk if p.startswith(b"unshallow ")}
        common = {p[4:44].decode() for n, p in pk if p.startswith(b"ACK ") and p.rstrip().endswith((b"common", b"continue"))}
        multi = any(bytes.fromhex(e[0]) in (b"multi_ack", b"multi_ack_detailed") for e in u["caps"])
        nobj = G.pack_count(out)
        if sh != exp["shallow"] or un != exp["unshallow"]:
            res["fail"] = "git upload-pack answers shallow %s unshallow %s to go-git's request, the request means shallow %s unshallow %s" % (sorted(sh), sorted(un), sorted(exp["shallow"]), sorted(exp["unshallow"]))
        elif multi and not (set(exp["common"]) <= common <= set(wanth["haves"])):
            # (with multi_ack git also acknowledges haves it does not know once it could give up)
            res["fail"] = "git upload-pack acknowledges %s, the haves in common are %s" % (sorted(common), sorted(exp["common"]))
        elif nobj != exp["objects"]:
            res["fail"] = "git upload-pack sends %s objects for go-git's request, the request asks for %s" % (nobj, exp["objects"])
        return res

    def ls_expect(self, ls):
        pre = [bytes.fromhex(p).decode() for p in ls["prefixes"]]
        out = []
        for n, h in [("HEAD", REPO.refs[REPO.head])] + sorted(REPO.refs.items()):
            if pre and not any(n.startswith(p) for p in pre):
                continue
            if n == "HEAD" and ls["symrefs"]:
                out.append([hx(n), True, hx(REPO.head)])
            else:
                out.append([hx(n), False, hx(h)])
            if ls["peel"] and n in REPO.peeled:
                out.append([hx(n + "^{}"), False, hx(REPO.peeled[n])])
        return out

    def cmd_spec(self, v, kind, args_out):
        capw = [["x" + e[0], "none" if len(e) == 1 else ["some", "x" + b" ".join(bytes.fromhex(x) for x in e[1:]).hex()]] for e in v["caps"]]
        return ["ok", ["x" + v["command"], capw, args_out]]

    def run_v2_server_lsrefs(self, c, enc, d):
        v = c["parts"][0]
        wf, want = expected2(v)
        if not wf:
            return {"skip": "outside the C-git domain"}
        repo = os.path.join(d, "repo.git")
        REPO.write(repo)
        rc, out, err = G.git(["upload-pack", "--stateless-rpc", repo], d, inp=enc[0], env={"GIT_PROTOCOL": "version=2"})
        if rc is None:
            return {"skip": "git upload-pack timed out", "runs": 1}
        ls = v["ls"]
        res = {"runs": 1, "spec": [("cmd-lsrefs", enc[0], self.cmd_spec(v, "lsrefs", [str(ls["peel"]).lower(), str(ls["symrefs"]).lower(), str(ls["unborn"]).lower(), ["x" + p for p in ls["prefixes"]]]),
                                    "S(ls-refs request) = the request")]}
        if rc != 0:
            return dict(res, fail="git upload-pack (v2) refuses go-git's ls-refs request (rc=%d): %s" % (rc, err.decode("utf-8", "replace")[:300]))
        val = self.decode_with_gogit([("dec2", "lsout", out)])[0]
        exp = self.ls_expect(ls)
        if not val or val.get("v") != exp or val.get("rest") != 0:
            res["fail"] = "git's answer to go-git's ls-refs request, read by go-git, is %s; the request %s asks for %s" % (val, ls, exp)
        return res

    def run_v2_server_fetch(self, c, enc, d):
        v = c["parts"][0]
        wf, want = expected2(v)
        if not wf:
            return {"skip": "outside the C-git domain"}
        a = want["args"]
        repo = os.path.join(d, "repo.git")
        REPO.write(repo, config="[uploadpack]\n\tallowFilter = true\n")
        filt = bytes.fromhex(a["filter"]) or None
        exp = REPO.expect_fetch(a["wants"], a["haves"], deepen=a["deepen"] or None, since=a["since"], nots=[bytes.fromhex(r).decode() for r in a["not"]],
                                filt=filt, client_shallows=a["shallows"], include_tag=a["flags"][3])
        rc, out, err = G.git(["upload-pack", "--stateless-rpc", repo], d, inp=enc[0], env={"GIT_PROTOCOL": "version=2"})
        if rc is None:
            return {"skip": "git upload-pack timed out", "runs": 1}
        names = ["done", "thin-pack", "no-progress", "include-tag", "ofs-delta", "deepen-relative", "wait-for-done"]
        order = [0, 1, 2, 3, 4, 5, 6]
        flags = ["x" + hx(names[i]) for i in order if a["flags"][i]]
        # Encode writes deepen-relative after the shallow and deepen lines and wait-for-done last; S keeps the flags in wire order
        res = {"runs": 1, "spec": [("cmd-fetch", enc[0], self.cmd_spec(v, "fetch", [["x" + hx(h) for h in a["wants"]], ["x" + hx(h) for h in a["haves"]], ["x" + hx(h) for h in a["shallows"]], flags,
                                                                                     ["some", str(a["deepen"])] if a["deepen"] else "none", ["some", str(a["since"])] if a["since"] is not None else "none",
                                                                                     ["x" + r for r in a["not"]], ["some", "x" + a["filter"]] if a["filter"] else "none"]),
                                    "S(fetch request) = the request")]}
        if exp is None:
            return dict(res, skip="no expectation for this request")
        if rc != 0:
            return dict(res, fail="git upload-pack (v2) refuses go-git's fetch request (rc=%d): %s" % (rc, err.decode("utf-8", "replace")[:300]))
        val = self.decode_with_gogit([("dec2", "fetchout", out)])[0]
        if not val:
            return dict(res, fail="go-git cannot read git's fetch response %s" % out[:300])
        fo = val["v"]
        done = a["flags"][0]
        ready = bool(exp["common"]) and not done          # every want is reachable from a common commit or not: git says ready only when it can cut
        got_common = set((fo["acks"] or {}).get("hashes", []))
        sh = set((fo["shallow"] or {}).get("sh", []))
        un = set((fo["shallow"] or {}).get("un", []))
        if done or not a["haves"]:
            # (a request without have lines is not negotiated: git sends the pack at once)
            if fo["acks"] is not None:
                return dict(res, fail="git sent acknowledgments although go-git's request said done / had no haves: %s" % fo)
        else:
            if fo["acks"] is None or got_common != set(exp["common"]):
                return dict(res, fail="git acknowledges %s, the haves in common are %s" % (fo["acks"], exp["common"]))
            if not fo["packfile"]:
                return res                          # a negotiation round: nothing else to compare
        if not fo["packfile"]:
            return dict(res, fail="no packfile section in git's response to go-git's request: %s" % fo)
        if sh != exp["shallow"] or un != exp["unshallow"]:
            return dict(res, fail="git answers shallow-info %s / %s, the request means %s / %s" % (sorted(sh), sorted(un), sorted(exp["shallow"]), sorted(exp["unshallow"])))
        nobj = G.pack_count(out)
        if nobj != exp["objects"]:
            return dict(res, fail="git sends %s objects for go-git's fetch request, the request asks for %s" % (nobj, exp["objects"]))
        return res

    def run_updreq_server(self, c, enc, d):
        v = c["parts"][0]
        wf, want = expected(v)
        if not wf:
            return {"skip": "outside the C-git domain"}
        opts = c["parts"][1]["opts"] if len(c["parts"]) > 1 else None
        repo = os.path.join(d, "repo.git")
        hook = "#!/bin/sh\nn=${GIT_PUSH_OPTION_COUNT:-0}; i=0; : > %s/opts.out; while [ $i -lt $n ]; do eval \"printf '%%s\\n' \\\"\\$GIT_PUSH_OPTION_$i\\\"\" >> %s/opts.out; i=$((i+1)); done; cat > /dev/null\n" % (d, d)
        REPO.write(repo, config="[receive]\n\tadvertisePushOptions = true\n\tdenyDeletes = false\n")
        os.makedirs(os.path.join(repo, "hooks"), exist_ok=True)
        hp = os.path.join(repo, "hooks", "pre-receive")
        with open(hp, "w") as f:
            f.write(hook)
        os.chmod(hp, 0o755)
        need_pack = any(set(hstr(nw)) != {"0"} for _, _, nw in v["cmds"])
        empty_pack = b"PACK" + (2).to_bytes(4, "big") + (0).to_bytes(4, "big")
        empty_pack += hashlib.sha1(empty_pack).digest()
        inp = enc[0] + (enc[1] if opts is not None else b"") + (empty_pack if need_pack else b"")
        rc, out, err = G.git(["receive-pack", "--stateless-rpc", repo], d, inp=inp)
        if rc is None:
            return {"skip": "git receive-pack timed out", "runs": 1}
        capw = []
        for e in want["caps"]:
            capw += ["x" + e[0]] if len(e) == 1 else ["x" + (bytes.fromhex(e[0]) + b"=" + bytes.fromhex(x)).hex() for x in e[1:]]
        res = {"runs": 1, "spec": [("updreq", enc[0], ["ok", [capw, [["x" + n, "x" + hx(o), "x" + hx(nw)] for n, o, nw in want["cmds"]], []]], "S(update-request) = the commands")]}
        if opts is not None:
            res["spec"].append(("pushopts", enc[1], ["ok", ["x" + o for o in opts]], "S(push-options) = the options"))
        if rc != 0:
            return dict(res, fail="git receive-pack refuses go-git's update-request (rc=%d): %s" % (rc, err.decode("utf-8", "replace")[:300]))
        val = self.decode_with_gogit([("dec", "report", out)])[0]
        if not val:
            return dict(res, fail="go-git cannot read git's report-status %s" % out[:300])
        # what git must have done with each command
        exp = []
        for n, o, nw in want["cmds"]:
            name = bytes.fromhex(n).decode()
            cur = REPO.refs.get(name, Z40)
            exp.append([n, cur == o])
        got = [[n, bytes.fromhex(st) == b"ok"] for n, st in val["cmds"]]
        if bytes.fromhex(val["unpack"]) != b"ok" or got != exp:
            res["fail"] = "git receive-pack reports %s (unpack %s) for go-git's commands %s, expected accept/reject %s" % (val["cmds"], bytes.fromhex(val["unpack"]), want["cmds"], exp)
        elif opts is not None:
            seen = self.get(d, "opts.out").decode("utf-8", "replace").splitlines()
            if seen != [bytes.fromhex(o).decode() for o in opts]:
                res["fail"] = "git's pre-receive hook saw the push options %s, go-git sent %s" % (seen, opts)
        res["spec"].append(("report", out, ["ok", ["x" + val["unpack"], [["x" + n, "x" + st] for n, st in val["cmds"]]]], "S(git's report-status) = what go-git decoded"))
        return res

    def run_report_client(self, c, enc, d):
        adv, rep = c["parts"]
        wf, want = expected(rep)
        if not wf:
            return {"skip": "outside the C-git domain"}
        client = os.path.join(d, "client.git")
        REPO.write(client)
        url = self.stub(d, [{"send": self.put(d, "adv.bin", enc[0])}, {"recv_flush": os.path.join(d, "req.bin")}, {"recv_all_n": 32, "to": os.path.join(d, "pack.bin")},
                            {"send": self.put(d, "rep.bin", enc[1])}, {"recv_all": os.path.join(d, "rest.bin")}])
        rc, out, err = G.git(["push", "--porcelain", url, "refs/heads/main:refs/heads/main", ":refs/heads/gone", "refs/heads/dev:refs/heads/new"], client)
        if rc is None:
            return {"skip": "git push timed out", "runs": 1}
        res = {"runs": 1, "spec": [("report", enc[1], ["ok", ["x" + want["unpack"], [["x" + n, "x" + st] for n, st in want["cmds"]]]], "S(report-status) = the statuses")]}
        req = self.get(d, "req.bin")
        val = self.decode_with_gogit([("dec", "updreq", req)])[0]
        expc = [[hx(b"refs/heads/main"), REPO.commit[3], REPO.commit[4]], [hx(b"refs/heads/gone"), REPO.commit[2], Z40], [hx(b"refs/heads/new"), Z40, REPO.commit[3]]]
        if not val or sorted(val["cmds"]) != sorted(expc):
            return dict(res, fail="go-git reads git's update-request %s as %s, git pushed %s" % (req[:300], val, expc))
        capw = []
        for e in val["caps"]:
            capw += ["x" + e[0]] if len(e) == 1 else ["x" + (bytes.fromhex(e[0]) + b"=" + bytes.fromhex(x)).hex() for x in e[1:]]
        res["spec"].append(("updreq", req, ["ok", [capw, [["x" + n, "x" + hx(o), "x" + hx(nw)] for n, o, nw in val["cmds"]], []]], "S(git's update-request) = what go-git decoded"))
        lines = [l for l in out.decode("utf-8", "replace").splitlines() if "\t" in l]
        unpack_ok = bytes.fromhex(rep["unpack"]) == b"ok"
        got = {}
        for l in lines:
            f = l.split("\t")
            got[f[1].split(":")[1]] = (f[0], f[2])
        for n, st in rep["cmds"]:
            name, st = bytes.fromhex(n).decode(), bytes.fromhex(st).decode()
            flag, summary = got.get(name, ("?", ""))
            if st == "ok" and unpack_ok:
                if flag not in (" ", "-", "*", "+"):
                    return dict(res, fail="go-git's report-status says ok for %s, git push shows %r %r" % (name, flag, summary))
            elif st != "ok":
                if flag != "!" or st not in summary:
                    return dict(res, fail="go-git's report-status says ng %s %r, git push shows %r %r" % (name, st, flag, summary))
        return res

    def full_pack(self, d):
        p = getattr(self, "_pack", None)
        if p is None:
            repo = os.path.join(d, "packsrc.git")
            REPO.write(repo)
            rc, out, err = G.git(["pack-objects", "--revs", "--stdout", "-q"], repo, inp=b"refs/heads/main\nrefs/tags/v1\n")
            p = self._pack = out if rc == 0 else b""
        return p

    def run_fetch_client_v0(self, c, enc, d):
        pack = self.full_pack(d)
        if not pack:
            return {"skip": "git pack-objects failed"}
        client = os.path.join(d, "client.git")
        REPO.empty(client)
        depth = c["depth"]
        # the client waits for the shallow-update before it goes on with "done"; with a filter only its request is looked at
        steps = [{"send": self.put(d, "adv.bin", enc[0])}, {"recv_flush": os.path.join(d, "req.bin")}]
        if depth:
            steps.append({"send": self.put(d, "shupd.bin", enc[2])})
        if not c["filter"]:
            steps += [{"recv_pkts": 1, "to": os.path.join(d, "done.bin")}, {"send": self.put(d, "resp.bin", enc[1] + pack)}, {"recv_all": os.path.join(d, "rest.bin")}]
        url = self.stub(d, steps)
        args = ["fetch", "-q", "--no-tags"] + (["--depth", "1"] if depth else []) + (["--filter=blob:none"] if c["filter"] else []) + [url, "refs/heads/main:refs/heads/got"]
        rc, out, err = G.git(args, client, timeout=150)
        if rc is None:
            return {"skip": "git fetch timed out", "runs": 2}
        res = {"runs": 2, "spec": [("srvresp", enc[1], ["ok", []], "S(NAK) = no acknowledgement")]}
        if depth:
            res["spec"].append(("shupd", enc[2], ["ok", [["x" + HX(REPO.commit[4])], []]], "S(shallow-update) = the shallow commit"))
        req = self.get(d, "req.bin")
        val = self.decode_with_gogit([("dec", "ulreq", req)])[0]
        if not c["filter"]:
            if rc != 0:
                return dict(res, fail="git fetch fails on go-git's advertisement / shallow-update / server-response (rc=%d): %s" % (rc, err.decode("utf-8", "replace")[:300]))
            head = self.get(client, "refs/heads/got").decode().strip()
            shallow = self.get(client, "shallow").decode().split()
            if head != REPO.commit[4] or shallow != ([REPO.commit[4]] if depth else []):
                return dict(res, fail="after git fetch: ref %s shallow %s, go-git announced %s / %s" % (head, shallow, REPO.commit[4], depth))
        if not val or val["wants"] != [REPO.commit[4]] or val["deepen"] != (1 if depth else 0) or bytes.fromhex(val["filter"]) != (b"blob:none" if c["filter"] else b""):
            return dict(res, fail="go-git reads git's upload-request %s as %s" % (req[:300], val))
        capw = []
        for e in val["caps"]:
            capw += ["x" + e[0]] if len(e) == 1 else ["x" + (bytes.fromhex(e[0]) + b"=" + bytes.fromhex(x)).hex() for x in e[1:]]
        res["spec"].append(("ulreq", req, ["ok", [capw, ["x" + hx(h) for h in val["wants"]], [], ["some", "1"] if depth else "none", "none", [], ["some", "x" + val["filter"]] if val["filter"] else "none"]],
                            "S(git's upload-request) = what go-git decoded"))
        return res

    def run_fetch_client_v2(self, c, enc, d):
        pack = self.full_pack(d)
        if not pack:
            return {"skip": "git pack-objects failed"}
        client = os.path.join(d, "client.git")
        REPO.empty(client)
        depth = c["depth"]
        resp = enc[2] + G.sideband(pack) + b"0000"
        url = self.stub(d, [{"send": self.put(d, "adv.bin", enc[0])}, {"recv_flush": os.path.join(d, "req1.bin")}, {"send": self.put(d, "ls.bin", enc[1] + b"0000")},
                            {"recv_flush": os.path.join(d, "req2.bin")}, {"send": self.put(d, "resp.bin", resp)}, {"recv_all": os.path.join(d, "rest.bin")}])
        args = ["-c", "protocol.version=2", "fetch", "-q", "--no-tags"] + (["--depth", "1"] if depth else []) + [url, "refs/heads/main:refs/heads/got"]
        rc, out, err = G.git(args, client, timeout=150)
        if rc is None:
            return {"skip": "git fetch timed out", "runs": 2}
        fo = c["parts"][2]
        sh = fo["shallow"]
        res = {"runs": 2, "spec": [("fetchout", enc[2], ["ok", ["none", ["some", [["x" + h for h in sh["sh"]], []]] if sh else "none", "none", "none", "true"]], "S(fetch output) = the sections")]}
        if rc != 0:
            return dict(res, fail="git fetch (v2) fails on go-git's capability advertisement / ls-refs output / fetch output (rc=%d): %s" % (rc, err.decode("utf-8", "replace")[:300]))
        head = self.get(client, "refs/heads/got").decode().strip()
        shallow = self.get(client, "shallow").decode().split()
        if head != REPO.commit[4] or shallow != ([REPO.commit[4]] if depth else []):
            return dict(res, fail="after git fetch (v2): ref %s shallow %s, go-git announced %s / %s" % (head, shallow, REPO.commit[4], depth))
        req = self.get(d, "req2.bin")
        val = self.decode_with_gogit([("dec2", "cmd-fetch", req)])[0]
        a = ((val or {}).get("v") or {}).get("args") or {}
        if not val or val["v"]["command"] != hx(b"fetch") or a.get("wants") != [REPO.commit[4]] or a.get("deepen") != (1 if depth else 0) or not a["flags"][0] or val["rest"] != 0:
            return dict(res, fail="go-git reads git's fetch request %s as %s" % (req[:300], val))
        return res

    def run_git_adv(self, c, enc, d):
        repo = os.path.join(d, "repo.git")
        REPO.write(repo)
        rc0, a0, _ = G.git(["upload-pack", "--advertise-refs", repo], d)
        rc1, a1, _ = G.git(["receive-pack", "--advertise-refs", repo], d)
        rc2, a2, _ = G.git(["upload-pack", "--advertise-refs", repo], d, env={"GIT_PROTOCOL": "version=2"})
        if None in (rc0, rc1, rc2) or rc0 or rc1 or rc2:
            return {"skip": "git --advertise-refs failed or timed out", "runs": 3}
        v0, v1, v2 = self.decode_with_gogit([("dec", "advrefs", a0), ("dec", "advrefs", a1), ("dec2", "capadv", a2)])
        adv = [[hx(n), h] for n, h in REPO.advertised()]
        res = {"runs": 3, "spec": []}
        if not v0 or v0["refs"] != adv:
            return dict(res, fail="go-git reads git upload-pack's advertisement as %s, the repository has %s" % (v0, adv))
        if not v1 or v1["refs"] != [[hx(n), h] for n, h in sorted(REPO.refs.items())]:
            return dict(res, fail="go-git reads git receive-pack's advertisement as %s" % v1)
        if not v2 or v2.get("rest") != 0 or v2["v"]["version"] != 2 or [bytes.fromhex(e[0]) for e in v2["v"]["caps"]][:3] != [b"agent", b"ls-refs", b"fetch"]:
            return dict(res, fail="go-git reads git's capability advertisement as %s" % v2)
        for data, v in ((a0, v0), (a1, v1)):
            capw = []
            for e in v["caps"]:
                capw += ["x" + e[0]] if len(e) == 1 else ["x" + (bytes.fromhex(e[0]) + b"=" + bytes.fromhex(x)).hex() for x in e[1:]]
            res["spec"].append(("advrefs", data, ["ok", [capw, [["x" + n, "x" + hx(h)] for n, h in v["refs"]], []]], "S(git's advertisement) = what go-git decoded"))
        capw = [["x" + e[0], "none" if len(e) == 1 else ["some", "x" + b" ".join(bytes.fromhex(x) for x in e[1:]).hex()]] for e in v2["v"]["caps"]]
        res["spec"].append(("capadv", a2, ["ok", capw], "S(git's capability advertisement) = what go-git decoded"))
        return res


SUITES = [Msgs(), V2(), Git()]
