"""C35 Protocol messages round-trip and match git's encoding (DESIGN.md §4.C35)."""
import os
import subprocess
from vf.core import Suite, coq_hex, coq_list, coq_N, coq_Z, coq_bool, coq_opt
from vf.gen import rbytes, pick_weighted
from props.C34 import rchunks, ref_read, coq_ns

ID = "C35"
THEOREMS = [
    "C35_caps_roundtrip", "C35_hash_roundtrip", "C35_report_roundtrip",
    "C35_shupd_roundtrip", "C35_uphav_roundtrip",
    "C35_pushopts_roundtrip", "C35_srvresp_roundtrip", "C35_advrefs_roundtrip", "C35_advrefs_first_peeled",
    "C35_updreq_roundtrip", "C35_ulreq_roundtrip",
]
MODEL_FILES = ["PktLine.v", "C35UniTable.v", "C35Utf8.v", "Packp.v", "PackpV2.v"]
MODELLED = ("plumbing/protocol/capability/list.go DecodeList / Add / AppendText; plumbing/objectid.go FromHex / NewHash / String / IsZero / Compare; "
            "plumbing/protocol/packp: AdvRefs, UploadRequest, UploadHaves, ServerResponse, ShallowUpdate, UpdateRequests, ReportStatus, PushOptions "
            "Encode and Decode (Model/Packp.v) on top of the pkt-line model of C34. Decoders read through pktline.Scanner only, so the model "
            "takes the sequence of Scan results. Not modelled: Unicode white space in bytes.TrimSpace, unicode.IsGraphic beyond ASCII, fmt.Sscanf "
            "beyond single-space separated ASCII tokens (model evaluated on ASCII inputs only), sort.Slice instability (lists stay below 12 "
            "elements where it is an insertion sort); protocol v2 messages (CommandRequest, CapabilityAdv, LsRefs, Fetch) are exercised by the "
            "round-trip oracle only, without a model")
TRUSTED = [
    "C-impl: harness/cmd/c35 (packp Encode/Decode over a chunked reader, capability.DecodeList) vs Model/Packp.v on every ASCII case",
    "direct oracle: decode(encode(v)) = canon(v) computed in props/C35.py for well-formed values of every message",
    "C-git: go-git's reference advertisement is read by `git ls-remote ext::cat` (git 2.39.5) and must list exactly the advertised refs",
]
ASSUMPTIONS = ["git ls-remote prints the refs of the advertisement it parsed, one `<hash>\\t<name>` line each",
               "message values stay below 12 references / hashes per list (sort.Slice and sort.Sort are insertion sorts there)"]
RULE = ("case = message value (refs with/without HEAD, peeled tags in any position incl. the first ref, shallows, capabilities with values, "
        "sha1/sha256 ids, commands, statuses, options, acks, depth forms, filter) + chunking, or a raw byte stream built from a valid "
        "encoding by truncation / byte edits / line shuffles; non-trivial = not the empty value; distinct by content")

Z40 = "0" * 40
CAPS_POOL = [("multi_ack", []), ("thin-pack", []), ("side-band-64k", []), ("ofs-delta", []), ("report-status", []),
             ("agent", ["git/2.39.5"]), ("symref", ["HEAD:refs/heads/main"]), ("symref", ["HEAD:refs/heads/main", "refs/remotes/o/HEAD:refs/remotes/o/m"]),
             ("object-format", ["sha1"]), ("filter", []), ("push-options", []), ("x", ["", "y"]), ("session-id", ["a=b"])]
NAMES = [b"HEAD", b"refs/heads/main", b"refs/heads/a", b"refs/heads/b", b"refs/tags/v1", b"refs/tags/v2", b"refs/tags/a",
         b"refs/remotes/o/m", b"refs/notes/c", b"refs/heads/zz"]


# white space as bytes.TrimSpace / strings.Fields see it, and near misses: NBSP, NEL, LS, IDEOGRAPHIC SPACE, OGHAM SPACE,
# EN QUAD, a raw 0x85 / 0xa0 (invalid UTF-8, not space), a truncated sequence, U+200B (not space), U+180E (not space)
UNI_WS = [b"\xc2\xa0", b"\xc2\x85", b"\xe2\x80\xa8", b"\xe3\x80\x80", b"\xe1\x9a\x80", b"\xe2\x80\x80", b"\x85", b"\xa0",
          b"\xe2\x80", b"\xe2\x80\x8b", b"\xe1\xa0\x8e", b"\t", b"\r", b"\x0b", b"\xe2\x81\x9f", b"\xf0\x9f\x9a\x80"]


def hx(b):
    return b.hex() if isinstance(b, bytes) else b.encode().hex()


def rhash(rng, fmt=40):
    return "".join(rng.choice("0123456789abcdef") for _ in range(fmt))


def rcaps(rng):
    k = rng.randrange(4)
    seen, out = set(), []
    for _ in range(k):
        n, v = rng.choice(CAPS_POOL)
        if n in seen:
            continue
        seen.add(n)
        out.append([hx(n)] + [hx(x) for x in v])
    return out


def caps_wf(caps):
    for e in caps:
        n = bytes.fromhex(e[0])
        if not n or any(c <= 32 or c >= 127 or c == 61 for c in n):
            return False
        for v in e[1:]:
            if any(c <= 32 or c >= 127 for c in bytes.fromhex(v)):
                return False
    return len({e[0] for e in caps}) == len(caps)


def tok_ok(b, extra_bad=b""):
    return len(b) > 0 and all(32 < c < 127 and c not in extra_bad for c in b)


def hash_ok(h, allow_zero=False):
    s = bytes.fromhex(h)
    return len(s) in (40, 64) and all(c in b"0123456789abcdef" for c in s) and (allow_zero or set(s) != {48})


def hstr(h):
    return bytes.fromhex(h).decode()


def ascii_only(b):
    return all(c < 128 for c in b)


def mutate(rng, data):
    """malformed stream from a valid encoding"""
    if not data:
        return rbytes(rng, rng.randrange(0, 8), b"0123456789abcdef \n")
    k = rng.randrange(9)
    b = bytearray(data)
    if k == 0:
        return bytes(b[:rng.randrange(len(b))])
    if k == 1:
        i = rng.randrange(len(b))
        b[i] = rng.choice(b" \n\x000aZ=^{}g\t")
        return bytes(b)
    if k == 2:
        i = rng.randrange(len(b))
        del b[i]
        return bytes(b)
    if k == 3:
        i = rng.randrange(len(b))
        return bytes(b[:i]) + rng.choice([b"0000", b"0001", b"0004", b"0005\n", b"0009done\n", b"0008NAK\n", b"000cERR oops"]) + bytes(b[i:])
    if k == 4:      # drop the final flush
        return bytes(b[:-4]) if b.endswith(b"0000") else bytes(b) + b"0000"
    if k == 5:      # re-frame one line with an edited payload
        l, pl, e, pos = ref_read(bytes(b), 0, 65520)
        if l > 4:
            pl = bytearray(pl)
            j = rng.randrange(len(pl))
            pl[j:j + 1] = rng.choice([b"", b" ", b"  ", b"\x00", b"x", b"\n"] + UNI_WS)
            if rng.random() < 0.25:                 # white space (ASCII / Unicode / broken UTF-8) at either end of the line
                pl = bytearray(rng.choice(UNI_WS + [b""]) + bytes(pl).rstrip(b"\n") + rng.choice(UNI_WS) + rng.choice([b"", b"\n"]))
            return b"%04x" % (len(pl) + 4) + bytes(pl) + bytes(b[pos:])
        return bytes(b)
    if k == 6:      # swap two packets
        pkts, pos = [], 0
        while pos < len(b):
            l, pl, e, npos = ref_read(bytes(b), pos, 65520)
            if npos <= pos:
                break
            pkts.append(bytes(b[pos:npos]))
            pos = npos
        if len(pkts) >= 2:
            i = rng.randrange(len(pkts) - 1)
            pkts[i], pkts[i + 1] = pkts[i + 1], pkts[i]
        return b"".join(pkts)
    if k == 7:      # upper-case a hex digit / change hash length
        i = rng.randrange(len(b))
        return bytes(b[:i]) + bytes(b[i:i + 1]).upper() + rng.choice([b"", b"a"]) + bytes(b[i + 1:])
    return bytes(b) + rbytes(rng, rng.randrange(1, 6), b"0123456789abcdef")


# ------------------------------------------------------------------ values
def gen_value(rng, msg):
    """-> case dict (without kind/chunks) for message msg; a mix of well-formed and hostile values"""
    fmt = 64 if rng.random() < 0.15 else 40
    H = lambda: hx(rhash(rng, fmt))
    hostile = rng.random() < 0.2
    if msg == "advrefs":
        names = rng.sample(NAMES, rng.randrange(0, 7))
        if rng.random() < 0.3 and b"HEAD" in names:
            names.remove(b"HEAD")
        refs = []
        for n in names:
            refs.append([hx(n), H()])
            if n.startswith(b"refs/tags/") and rng.random() < 0.7:
                refs.append([hx(n + b"^{}"), H()])
        mode = rng.randrange(5)
        if mode == 0:
            rng.shuffle(refs)                       # peeled lines in any position
        elif mode == 1 and refs:                     # the first advertised ref is a peeled tag
            refs = [[hx(b"refs/tags/v0"), H()], [hx(b"refs/tags/v0^{}"), H()]] + [r for r in refs if r[0] != hx(b"HEAD")]
        if hostile:
            k = rng.randrange(6)
            if k == 0 and refs:
                refs.append(list(rng.choice(refs)))                     # duplicate name
            elif k == 1:
                refs.append([hx(b"refs/tags/orphan^{}"), H()])          # peeled without base
            elif k == 2:
                refs.insert(0, [hx(rng.choice([b"", b"a b", b"x\x00y", b"n\n"])), H()])
            elif k == 3 and refs:
                refs[0][1] = hx(Z40)                                    # zero id first
            elif k == 4:
                refs.append([hx(b"refs/heads/mixed"), hx(rhash(rng, 104 - fmt))])
        sh = [H() for _ in range(rng.choice([0, 0, 0, 1, 3]))]
        return {"msg": msg, "version": rng.choice([0, 0, 1, 1, 2] if hostile else [0, 1]), "caps": rcaps(rng), "refs": refs, "shallows": sh}
    if msg == "report":
        cmds = []
        for _ in range(rng.randrange(0, 5)):
            n = rng.choice(NAMES) if not hostile else rng.choice([b"", b"a b", b"refs/x\n", b"refs/heads/m"])
            st = rng.choice([b"ok", b"ok", b"non-fast-forward", b"failed to lock", b"", b"ok ", b"x\n" if hostile else b"hook declined"])
            cmds.append([hx(n), hx(st)])
        un = rng.choice([b"ok", b"ok", b"unpacker error", b"", b"index-pack abnormal exit", b"ok\n" if hostile else b"ok"])
        return {"msg": msg, "unpack": hx(un), "cmds": cmds}
    if msg == "shupd":
        return {"msg": msg, "shallows": [H() for _ in range(rng.randrange(0, 4))], "unshallows": [H() for _ in range(rng.randrange(0, 3))]}
    if msg == "uphav":
        hs = [H() for _ in range(rng.randrange(0, 6))]
        if hs and rng.random() < 0.3:
            hs.append(rng.choice(hs))
        if hostile:
            hs.append(hx(Z40))
        return {"msg": msg, "haves": hs, "done": rng.random() < 0.5}
    if msg == "pushopts":
        pool = [b"ci.skip", b"a=b c", b"", b" ", b"ERR x", b"ERRx", b"\xc3\xa9t\xc3\xa9", b"tab\there", b"nl\n", b"~!@#$%^&*()", b"x" * 300]
        return {"msg": msg, "opts": [hx(rng.choice(pool if hostile else pool[:4] + pool[9:])) for _ in range(rng.randrange(0, 5))]}
    if msg == "srvresp":
        n = rng.randrange(0, 5)
        acks = [[H(), rng.choice([1, 2, 3])] for _ in range(n)]
        m = rng.randrange(4)
        if m == 0 and acks:
            acks[-1][1] = 0                                   # final plain ACK with its own hash
        elif m == 1 and acks:
            acks = [[acks[0][0], 0]]
        elif m == 2 and hostile and acks:
            acks[rng.randrange(len(acks))][1] = rng.choice([0, 4, 9])
        return {"msg": msg, "acks": acks}
    if msg == "updreq":
        cmds = []
        for _ in range(rng.randrange(0 if hostile else 1, 5)):
            kind = rng.randrange(3)
            o, nw = (hx(Z40), H()) if kind == 0 else (H(), hx(Z40)) if kind == 1 else (H(), H())
            if hostile and rng.random() < 0.3:
                o, nw = hx(Z40), hx(Z40)
            n = rng.choice(NAMES) if not (hostile and rng.random() < 0.4) else rng.choice([b"a b", b"", b"refs/heads/\xc3\xa9", b"x\ty"])
            cmds.append([hx(n), o, nw])
        return {"msg": msg, "caps": rcaps(rng), "cmds": cmds, "shallows": [H() for _ in range(rng.choice([0, 0, 1, 2]))]}
    if msg == "ulreq":
        wants = [H() for _ in range(rng.randrange(0 if hostile else 1, 5))]
        if wants and rng.random() < 0.3:
            wants.append(rng.choice(wants))
        sh = [H() for _ in range(rng.choice([0, 0, 1, 3]))]
        if sh and rng.random() < 0.3:
            sh.append(rng.choice(sh))
        m = rng.randrange(6)
        c = {"msg": msg, "caps": rcaps(rng), "wants": wants, "shallows": sh, "deepen": 0, "since": None, "not": [], "filter": ""}
        if m == 1:
            c["deepen"] = rng.choice([1, 2, 50, 2147483647])
        elif m == 2:
            c["since"] = rng.choice([0, 1, 1700000000, -5])
        elif m == 3:
            c["not"] = [hx(rng.choice(NAMES)) for _ in range(rng.randrange(1, 3))]
            if rng.random() < 0.5:
                c["since"] = 1600000000
        elif m == 4 and hostile:
            c["deepen"], c["since"] = 3, 7
        if rng.random() < 0.12:
            c["filter"] = hx(rng.choice([b"blob:none", b"tree:0", b"blob:limit=1k"]))
        return c
    raise ValueError(msg)


MSGS = ["advrefs", "report", "shupd", "uphav", "pushopts", "srvresp", "updreq", "ulreq"]


def coq_caps(caps):
    return coq_list(["(%s, %s)" % (coq_hex(bytes.fromhex(e[0])), coq_list([coq_hex(bytes.fromhex(v)) for v in e[1:]])) for e in caps])


def hs(l):
    return coq_list([coq_hex(bytes.fromhex(h)) for h in l])


def value_bytes(c):
    """every byte string a value case mentions (to decide whether it is in the ASCII domain of the model)"""
    out = []
    def walk(x):
        if isinstance(x, str):
            try:
                out.append(bytes.fromhex(x))
            except ValueError:
                pass
        elif isinstance(x, list):
            for y in x:
                walk(y)
    for k, v in c.items():
        if k not in ("msg", "kind", "bucket"):
            walk(v)
    return b"".join(out)


# ------------------------------------------------------------------ canonical expectations (the property)
def expected(c):
    """-> (wf, expected decoded value as the harness prints it) ; wf False = the property makes no claim"""
    m = c["msg"]
    if m == "advrefs":
        refs = [(bytes.fromhex(n), hstr(h)) for n, h in c["refs"]]
        names = [n for n, _ in refs]
        if c["version"] not in (0, 1) or not caps_wf(c["caps"]) or len(set(names)) != len(names):
            return False, None
        if not all(tok_ok(n) for n in names) or not all(hash_ok(h) for _, h in c["refs"]) or not all(hash_ok(h) for h in c["shallows"]):
            return False, None
        base = [(n, h) for n, h in refs if not n.endswith(b"^{}")]
        peeled = {n[:-3]: h for n, h in refs if n.endswith(b"^{}")}
        if any(p not in dict(base) for p in peeled) or len({len(h) for _, h in refs} | {len(hstr(h)) for h in c["shallows"]}) > 1:
            return False, None
        if not base:
            want = []
        else:
            first = next(((n, h) for n, h in base if n == b"HEAD"), base[0])
            order = [first] + sorted([r for r in base if r[0] != first[0]])
            want = []
            for n, h in order:
                want.append([n.hex(), h])
                if n in peeled:
                    want.append([(n + b"^{}").hex(), peeled[n]])
        return True, {"version": c["version"], "caps": c["caps"], "refs": want, "shallows": sorted(hstr(h) for h in c["shallows"])}
    if m == "report":
        un = bytes.fromhex(c["unpack"])
        cmds = [(bytes.fromhex(n), bytes.fromhex(s)) for n, s in c["cmds"]]
        if un.endswith(b"\n") or any(b" " in n or b"\n" in n or s.endswith(b"\n") for n, s in cmds):
            return False, None
        return True, {"unpack": c["unpack"], "cmds": [[n.hex(), s.hex()] for n, s in cmds]}
    if m == "shupd":
        if not all(hash_ok(h, True) for h in c["shallows"] + c["unshallows"]):
            return False, None
        return True, {"shallows": [hstr(h) for h in c["shallows"]], "unshallows": [hstr(h) for h in c["unshallows"]]}
    if m == "uphav":
        if not all(hash_ok(h) for h in c["haves"]) or len({len(h) for h in c["haves"]}) > 1:
            return False, None
        return True, {"haves": sorted({hstr(h) for h in c["haves"]}), "done": c["done"]}
    if m == "pushopts":
        opts = [bytes.fromhex(o) for o in c["opts"]]
        if not all(all(32 <= ch < 127 for ch in o) and not o.startswith(b"ERR ") for o in opts):
            return False, None
        return True, {"opts": c["opts"]}
    if m == "srvresp":
        acks = c["acks"]
        if not all(hash_ok(h, True) for h, _ in acks) or any(s not in (0, 1, 2, 3) for _, s in acks):
            return False, None
        if any(s == 0 for _, s in acks[:-1]) or any(len(h) != 80 for h, _ in acks):
            return False, None                      # a plain ACK ends the response; sha1 ids
        return True, {"acks": [[hstr(h), s] for h, s in acks]}
    if m == "updreq":
        cmds = [(bytes.fromhex(n), o, nw) for n, o, nw in c["cmds"]]
        if not cmds or not caps_wf(c["caps"]) or not all(tok_ok(n) for n, _, _ in cmds):
            return False, None
        if not all(hash_ok(o, True) and hash_ok(nw, True) and (hash_ok(o) or hash_ok(nw)) for _, o, nw in cmds) or not all(hash_ok(h, True) for h in c["shallows"]):
            return False, None
        return True, {"caps": c["caps"], "cmds": [[n.hex(), hstr(o), hstr(nw)] for n, o, nw in cmds], "shallows": [hstr(h) for h in c["shallows"]]}
    if m == "ulreq":
        if not c["wants"] or not caps_wf(c["caps"]) or not all(hash_ok(h) for h in c["wants"] + c["shallows"]):
            return False, None
        if len({len(h) for h in c["wants"] + c["shallows"]}) > 1 or c["deepen"] < 0 or (c["deepen"] > 0 and (c["since"] is not None or c["not"])):
            return False, None
        if not all(tok_ok(bytes.fromhex(r)) for r in c["not"]) or not tok_ok(bytes.fromhex(c["filter"]) or b"x"):
            return False, None
        return True, {"caps": c["caps"], "wants": sorted({hstr(h) for h in c["wants"]}), "shallows": sorted({hstr(h) for h in c["shallows"]}),
                      "deepen": c["deepen"], "since": c["since"], "not": c["not"], "filter": c["filter"]}
    return False, None


class Msgs(Suite):
    name = "messages"
    go_cmd = "c35"
    coq_imports = "From GoGit Require Import Model.PktLine Model.Packp."
    quick_n = 400
    thorough_n = 3000
    coq_chunk = 70

    def gen(self, rng, n, tier):
        cases = []
        while len(cases) < n:
            b = pick_weighted(rng, [(6, "rt"), (4, "dec"), (1, "caps")])
            if b == "caps":
                toks = []
                for _ in range(rng.randrange(0, 6)):
                    nme, v = rng.choice(CAPS_POOL)
                    toks.append(nme.encode() + (b"=" + rng.choice(v).encode() if v else b""))
                raw = rng.choice([b"", b" ", b"\n"]) + rng.choice([b" ", b"  "]).join(toks) + rng.choice([b"", b"\n", b" ", b"=", b" =x", b" a=", b" a==b"])
                cases.append({"bucket": "caps", "kind": "caps", "hex": raw.hex()})
                continue
            msg = rng.choice(MSGS)
            v = gen_value(rng, msg)
            if b == "rt":
                v.update({"bucket": "rt-" + msg, "kind": "rt", "chunks": rchunks(rng, 200)})
                cases.append(v)
            else:
                v.update({"kind": "rt", "chunks": []})
                cases.append({"bucket": "dec-" + msg, "kind": "dec", "msg": msg, "_from": v, "chunks": rchunks(rng, 150), "_seed": rng.randrange(1 << 30)})
        # raw cases are derived from the implementation's own encodings of the values
        from vf import core
        need = [c for c in cases if c["kind"] == "dec"]
        if need:
            enc = core.run_impl(self.go_cmd, [dict(c["_from"], id=i) for i, c in enumerate(need)])
            import random
            for i, c in enumerate(need):
                r = random.Random(c.pop("_seed"))
                data = bytes.fromhex(((enc.get(i) or {}).get("extra") or {}).get("bytes") or "")
                c.pop("_from")
                c["hex"] = (mutate(r, data) if r.random() < 0.8 else data).hex()
        return cases

    def model_expr(self, c):
        k = c["kind"]
        ch = coq_ns(c.get("chunks", []))
        if k == "caps":
            raw = bytes.fromhex(c["hex"])
            return "c35_caps %s" % coq_hex(raw)
        if k == "dec":
            raw = bytes.fromhex(c["hex"])
            if c["msg"] == "updreq" and not self.updreq_domain(raw):
                return None
            return 'c35_dec "%s" %s %s' % (c["msg"], coq_hex(raw), ch)
        m = c["msg"]
        if m == "advrefs":
            refs = coq_list(["(%s, %s)" % (coq_hex(bytes.fromhex(n)), coq_hex(bytes.fromhex(h))) for n, h in c["refs"]])
            return "c35_advrefs %s %s %s %s %s" % (coq_Z(c["version"]), coq_caps(c["caps"]), refs, hs(c["shallows"]), ch)
        if m == "report":
            cmds = coq_list(["(%s, %s)" % (coq_hex(bytes.fromhex(n)), coq_hex(bytes.fromhex(s))) for n, s in c["cmds"]])
            return "c35_report %s %s %s" % (coq_hex(bytes.fromhex(c["unpack"])), cmds, ch)
        if m == "shupd":
            return "c35_shupd %s %s %s" % (hs(c["shallows"]), hs(c["unshallows"]), ch)
        if m == "uphav":
            return "c35_uphav %s %s %s" % (hs(c["haves"]), coq_bool(c["done"]), ch)
        if m == "pushopts":
            return "c35_pushopts %s %s" % (hs(c["opts"]), ch)
        if m == "srvresp":
            return "c35_srvresp %s %s" % (coq_list(["(%s, %s)" % (coq_hex(bytes.fromhex(h)), coq_N(s)) for h, s in c["acks"]]), ch)
        if m == "updreq":
            if not all(self.cmd_domain(bytes.fromhex(n)) for n, _, _ in c["cmds"]):
                return None
            cmds = coq_list(["(%s, %s, %s)" % (coq_hex(bytes.fromhex(n)), coq_hex(bytes.fromhex(o)), coq_hex(bytes.fromhex(nw))) for n, o, nw in c["cmds"]])
            return "c35_updreq %s %s %s %s" % (coq_caps(c["caps"]), cmds, hs(c["shallows"]), ch)
        if m == "ulreq":
            return "c35_ulreq %s %s %s %s %s %s %s %s" % (coq_caps(c["caps"]), hs(c["wants"]), hs(c["shallows"]), coq_Z(c["deepen"]),
                                                        coq_opt(None if c["since"] is None else coq_Z(c["since"])), hs(c["not"]),
                                                        coq_hex(bytes.fromhex(c["filter"])), ch)
        return None

    @staticmethod
    def cmd_domain(name):
        return len(name) > 0 and all(32 < ch < 127 for ch in name)

    @staticmethod
    def updreq_domain(raw):
        """every command line is three single-space separated graphic-ASCII tokens (the modelled fmt.Sscanf domain)"""
        pos = 0
        while pos < len(raw):
            l, pl, e, npos = ref_read(raw, pos, 65520)
            if npos <= pos or e != "nil":
                break
            pos = npos
            if l > 4 and not pl.rstrip(b"\n").startswith(b"shallow"):
                cmd = pl.split(b"\x00")[0]
                toks = cmd.split(b" ")
                if len(toks) != 3 or not all(toks) or not all(32 <= ch < 127 for ch in cmd):
                    return False
        return True

    def nontrivial(self, c):
        return c["kind"] != "rt" or any(c.get(k) for k in ("refs", "cmds", "shallows", "haves", "opts", "acks", "wants"))

    def oracle(self, ctx, cases, impl, model):
        fails = {}
        for c in cases:
            r = impl.get(c["id"])
            if r is None or r.get("panic"):
                fails[c["id"]] = "no reply / panic"
                continue
            if c["kind"] != "rt":
                continue
            wf, want = expected(c)
            if not wf:
                continue
            ex = r.get("extra") or {}
            if ex.get("enc") != "ok":
                fails[c["id"]] = "well-formed %s value was not encoded: %s" % (c["msg"], ex.get("err"))
            elif ex.get("value") != want:
                fails[c["id"]] = "decode(encode(v)) = %s, expected %s" % (ex.get("value"), want)
        fails.update(self.git_check(ctx, cases, impl))
        return fails

    def finding_class(self, c, reason, reply):
        return None

    def extra(self, ctx, cases, impl, model):
        return {"git_lsremote_cases": getattr(self, "_git_n", 0)}

    def git_check(self, ctx, cases, impl):
        """C-git: git ls-remote reads go-git's advertisement and must list exactly the advertised refs"""
        n = 0
        fails = {}
        for c in cases:
            if c["kind"] != "rt" or c["msg"] != "advrefs" or n >= (12 if ctx.tier == "quick" else 30):
                continue
            wf, want = expected(c)
            ex = (impl.get(c["id"]) or {}).get("extra") or {}
            if not wf or ex.get("enc") != "ok" or any(len(h) != 40 for _, h in want["refs"]) or c["version"] != 0:
                continue
            if not all(self.git_refname_ok(bytes.fromhex(nm)) for nm, _ in want["refs"]):
                continue
            n += 1
            p = os.path.join(ctx.tmp, "adv.bin")
            with open(p, "wb") as f:
                f.write(bytes.fromhex(ex["bytes"]))
            try:
                g = subprocess.run(["git", "ls-remote", "ext::cat %s" % p], stdin=subprocess.DEVNULL, stdout=subprocess.PIPE, stderr=subprocess.PIPE,
                                   timeout=120, cwd=ctx.tmp,
                                   env=dict(os.environ, GIT_CONFIG_NOSYSTEM="1", HOME=ctx.tmp, GIT_ALLOW_PROTOCOL="ext", GIT_TERMINAL_PROMPT="0"))
            except subprocess.TimeoutExpired:
                ctx.notes.append("git ls-remote did not finish within 120 s on advertisement %s (machine load?); case skipped" % ex["bytes"][:200])
                continue
            got = sorted(tuple(l.split("\t")) for l in g.stdout.decode("utf-8", "replace").splitlines())
            exp = sorted((h, bytes.fromhex(nm).decode()) for nm, h in want["refs"])
            if g.returncode != 0:
                ctx.notes.append("git ls-remote failed on an advertisement (rc=%d %s)" % (g.returncode, g.stderr[:200]))
            elif got != exp and c["id"] not in fails:
                fails[c["id"]] = "git ls-remote on go-git's advertisement lists %s, advertised %s" % (got[:8], exp[:8])
        self._git_n = n
        return fails

    @staticmethod
    def git_refname_ok(n):
        return n == b"HEAD" or n.startswith(b"refs/")



# ====================================================================== protocol v2
CAPS2_POOL = [("agent", ["git/2.39.5"]), ("ls-refs", ["unborn"]), ("ls-refs", []), ("fetch", ["shallow", "wait-for-done", "filter"]),
              ("fetch", ["shallow"]), ("server-option", []), ("object-format", ["sha1"]), ("object-format", ["sha256"]),
              ("object-info", []), ("session-id", ["a=b"]), ("x", ["y", "z=1"])]
CAPS2_HOSTILE = [("x", [""]), ("y", ["a b"]), ("", []), ("k=v", []), ("z", ["", "q"]), ("sp ace", []), ("n", ["l\n"]),
                 ("\xc2\xa0k", ["v\xe2\x80\xa8"])]
V2_DEC = ["capadv", "cmd-nil", "cmd-lsrefs", "cmd-fetch", "lsargs", "fetchargs", "lsout", "fetchout"]
V2_MSGS = ["capadv", "cmd", "lsargs", "fetchargs", "lsout", "fetchout"]
ZERO_TIME = -62135596800


def rcaps2(rng, hostile):
    seen, out = set(), []
    for _ in range(rng.randrange(5)):
        n, v = rng.choice(CAPS2_POOL + (CAPS2_HOSTILE if hostile else []))
        if n in seen:                   # a capability.List value: one entry per key
            continue
        seen.add(n)
        out.append([hx(n.encode("latin-1"))] + [hx(x.encode("latin-1")) for x in v])
    return out


def caps2_wf(caps):
    for e in caps:
        if not tok_ok(bytes.fromhex(e[0]), b"=") or not all(tok_ok(bytes.fromhex(v)) for v in e[1:]):
            return False
    return len({e[0] for e in caps}) == len(caps)


def gen_ls(rng, hostile):
    pool = [b"refs/heads/", b"refs/tags/", b"HEAD", b"refs/", b"refs/heads/main", b"refs/h\xc3\xa9"]
    bad = [b"", b"a b", b"x\n", b"\x00", b"refs/\xc2\xa0", b"refs/\xe2\x80\xa8x", b"r\x7f", b"r\xc2\x85", b"ok\xff\xfe", b"t\tab", b"refs/\xc2\x9f"]
    pre = [hx(rng.choice(pool + (bad if hostile else []))) for _ in range(rng.randrange(0, 4))]
    return {"peel": rng.random() < 0.5, "symrefs": rng.random() < 0.5, "unborn": rng.random() < 0.3, "prefixes": pre}


def gen_fetch(rng, hostile, H):
    a = {"wants": [H() for _ in range(rng.randrange(0 if hostile else 1, 4))], "haves": [H() for _ in range(rng.randrange(0, 4))],
         "flags": [rng.random() < 0.4 for _ in range(7)], "shallows": [H() for _ in range(rng.choice([0, 0, 1, 2]))],
         "deepen": rng.choice([0, 0, 0, 1, 7, 2147483647] + ([-1, -7] if hostile else [])), "since": rng.choice([None, None, 0, 1700000000, -5] + ([ZERO_TIME] if hostile else [])),
         "not": [hx(rng.choice(NAMES + ([b"a b", b" x", b"y\xc2\xa0"] if hostile else []))) for _ in range(rng.choice([0, 0, 1, 2]))],
         "filter": hx(rng.choice([b"", b"", b"blob:none", b"tree:0", b"blob:limit=1k", b"combine:blob:none+tree:1"] + ([b" sp", b"x\n"] if hostile else [])))}
    if a["wants"] and rng.random() < 0.3:
        a["wants"].append(rng.choice(a["wants"]))
    if hostile and rng.random() < 0.3:
        a["haves"].append(hx(Z40))
    return a


def gen_value2(rng, msg):
    fmt = 64 if rng.random() < 0.2 else 40
    H = lambda: hx(rhash(rng, fmt))
    hostile = rng.random() < 0.2
    if msg == "capadv":
        return {"msg": msg, "version": 2 if rng.random() < 0.9 else rng.choice([0, 1, 3]), "caps": rcaps2(rng, hostile)}
    if msg == "cmd":
        args = rng.choice(["nil", "lsrefs", "fetch"])
        cmd = {"nil": [b"object-info", b"", b"ls-refs"], "lsrefs": [b"ls-refs"], "fetch": [b"fetch"]}[args]
        c = {"msg": msg, "args": args, "command": hx(rng.choice(cmd + ([b"", b"a b", b"x\n", b"f\xc3\xa9tch"] if hostile else []))), "caps": rcaps2(rng, hostile)}
        if args == "lsrefs":
            c["ls"] = gen_ls(rng, hostile)
        if args == "fetch":
            c["fetch"] = gen_fetch(rng, hostile, H)
        return c
    if msg == "lsargs":
        return {"msg": msg, "ls": gen_ls(rng, hostile)}
    if msg == "fetchargs":
        return {"msg": msg, "fetch": gen_fetch(rng, hostile, H)}
    if msg == "lsout":
        refs = []
        names = rng.sample(NAMES, rng.randrange(0, 6))
        for n in names:
            if n == b"HEAD" and rng.random() < 0.7:
                refs.append([hx(n), True, hx(rng.choice([b"refs/heads/main", b"refs/heads/unborn", b"refs/heads/a"]))])
            elif rng.random() < 0.12:
                refs.append([hx(n), True, hx(rng.choice(NAMES[1:]))])
            else:
                refs.append([hx(n), False, H() if rng.random() < 0.93 else hx("0" * fmt)])
                if n.startswith(b"refs/tags/") and rng.random() < 0.7:
                    refs.append([hx(n + b"^{}"), False, H()])
        mode = rng.randrange(4)
        if mode == 0:
            rng.shuffle(refs)
        if hostile:
            k = rng.randrange(6)
            if k == 0 and refs:
                refs.append(list(rng.choice(refs)))
            elif k == 1:
                refs.append([hx(b"refs/tags/orphan^{}"), False, H()])
            elif k == 2:
                refs.insert(0, [hx(rng.choice([b"", b"a b", b"n\xc2\xa0m", b"x\xe3\x80\x80", b"peeled:zz"])), False, H()])
            elif k == 3:
                refs.append([hx(b"refs/heads/s"), True, hx(rng.choice([b"", b"t t", b"refs/\xe2\x80\xa9"]))])
            elif k == 4:
                refs.append([hx(b"refs/tags/symp^{}"), True, hx(b"refs/heads/a")])
        return {"msg": msg, "refs": refs}
    if msg == "fetchout":
        o = {"msg": msg, "acks": None, "shallow": None, "wanted": None, "uris": None, "packfile": rng.random() < 0.6}
        if not o["packfile"] or rng.random() < 0.5:
            o["acks"] = {"hashes": [H() for _ in range(rng.randrange(0, 4))], "ready": o["packfile"] and rng.random() < (0.6 if hostile else 1.0)}
        if hostile and not o["packfile"] and rng.random() < 0.3:
            o["acks"]["ready"] = True
        if o["packfile"] or (hostile and rng.random() < 0.3):
            if rng.random() < 0.4:
                o["shallow"] = {"sh": [H() for _ in range(rng.randrange(0, 3))], "un": [H() for _ in range(rng.randrange(0, 3))]}
            if rng.random() < 0.3:
                o["wanted"] = [[hx(rng.choice(NAMES + ([b"a b", b""] if hostile else []))), H()] for _ in range(rng.randrange(0, 3))]
            if rng.random() < 0.2:
                o["uris"] = [hx(rng.choice([b"https://cdn.example/p1.pack", b"abc", b"u v"] + ([b"", b"x\n", b"ERR z"] if hostile else []))) for _ in range(rng.randrange(0, 3))]
        return o
    raise ValueError(msg)


def coq_strs(l):
    return coq_list([coq_hex(bytes.fromhex(x)) for x in l])


def coq_lsargs(a):
    return "(mk_lsargs %s %s %s %s)" % (coq_bool(a["peel"]), coq_bool(a["symrefs"]), coq_bool(a["unborn"]), coq_strs(a["prefixes"]))


def coq_fetchargs(a):
    return "(mk_fetchargs %s %s %s %s %s %s %s %s)" % (
        hs(a["wants"]), hs(a["haves"]), coq_list([coq_bool(f) for f in a["flags"]]), hs(a["shallows"]), coq_Z(a["deepen"]),
        coq_opt(None if a["since"] is None else coq_Z(a["since"])), coq_strs(a["not"]), coq_hex(bytes.fromhex(a["filter"])))


def coq_optv(x, f):
    return "None" if x is None else "(Some %s)" % f(x)


def since_canon(t):
    return None if t is None or t == ZERO_TIME else t


def fetch_canon(a):
    if not a["wants"] or not all(hash_ok(h, True) for h in a["wants"] + a["haves"] + a["shallows"]):
        return None
    if not all(tok_ok(bytes.fromhex(r)) for r in a["not"]) or not tok_ok(bytes.fromhex(a["filter"]) or b"x"):
        return None
    key = lambda h: bytes.fromhex(hstr(h))
    return {"wants": sorted((hstr(h) for h in a["wants"]), key=bytes.fromhex), "haves": sorted((hstr(h) for h in a["haves"]), key=bytes.fromhex),
            "flags": a["flags"], "shallows": sorted((hstr(h) for h in a["shallows"]), key=bytes.fromhex),
            "deepen": a["deepen"] if a["deepen"] > 0 else 0, "since": since_canon(a["since"]), "not": a["not"], "filter": a["filter"]}


def ls_canon(a):
    if not all(tok_ok(bytes.fromhex(p)) for p in a["prefixes"]):
        return None
    return dict(a)


def expected2(c):
    """-> (wf, expected decoded value) for a v2 value case; the decoder must also leave nothing unread"""
    m = c["msg"]
    if m == "capadv":
        if c["version"] != 2 or not caps2_wf(c["caps"]):
            return False, None
        return True, {"version": 2, "caps": c["caps"]}
    if m == "cmd":
        cmd = bytes.fromhex(c["command"])
        if not caps2_wf(c["caps"]):
            return False, None
        if cmd == b"":
            return False, None          # an empty command is the empty request (a flush): capabilities and arguments are not sent
        if not tok_ok(cmd):
            return False, None
        args = None
        if c["args"] == "lsrefs":
            args = ls_canon(c["ls"])
        elif c["args"] == "fetch":
            args = fetch_canon(c["fetch"])
        if c["args"] != "nil" and args is None:
            return False, None
        return True, {"command": c["command"], "caps": c["caps"], "args": args}
    if m == "lsargs":
        a = ls_canon(c["ls"])
        return (a is not None), a
    if m == "fetchargs":
        a = fetch_canon(c["fetch"])
        return (a is not None), a
    if m == "lsout":
        byname = {}
        for n, sym, v in c["refs"]:
            nb = bytes.fromhex(n)
            if not tok_ok(nb):
                return False, None
            if sym and not tok_ok(bytes.fromhex(v)):
                return False, None
            if not sym:
                if not hash_ok(v, True):
                    return False, None
                byname[nb] = v
        want = []
        for n, sym, v in c["refs"]:
            nb = bytes.fromhex(n)
            if nb.endswith(b"^{}"):
                continue
            want.append([n, sym, v])
            if not sym and nb + b"^{}" in byname:
                want.append([(nb + b"^{}").hex(), False, byname[nb + b"^{}"]])
        return True, want
    if m == "fetchout":
        a, sh, w, u = c["acks"], c["shallow"], c["wanted"], c["uris"]
        hashes = (a["hashes"] if a else []) + (sh["sh"] + sh["un"] if sh else []) + ([h for _, h in w] if w else [])
        if not all(hash_ok(h, True) for h in hashes):
            return False, None
        if c["packfile"]:
            if a is not None and not a["ready"]:
                return False, None      # acknowledgments without "ready" end the response (gitprotocol-v2); Encode does not check it
        else:
            if a is None or a["ready"] or sh is not None or w is not None or u is not None:
                return False, None
        if w and not all(tok_ok(bytes.fromhex(n)) for n, _ in w):
            return False, None
        if u and not all(not bytes.fromhex(x).endswith(b"\n") and not bytes.fromhex(x).startswith(b"ERR ") for x in u):
            return False, None
        return True, {"packfile": c["packfile"], "acks": None if a is None else {"hashes": [hstr(h) for h in a["hashes"]], "ready": a["ready"]},
                      "shallow": None if sh is None else {"sh": [hstr(h) for h in sh["sh"]], "un": [hstr(h) for h in sh["un"]]},
                      "wanted": None if w is None else [[n, hstr(h)] for n, h in w], "uris": u}
    return False, None


def dec_kind(c):
    return "cmd-" + c["args"] if c["msg"] == "cmd" else c["msg"]


class V2(Suite):
    """protocol v2 messages: value -> Encode -> chunked Decode, and Decode of raw / mutated streams"""
    name = "v2"
    go_cmd = "c35"
    coq_imports = "From GoGit Require Import Model.PktLine Model.Packp Model.PackpV2."
    quick_n = 320
    thorough_n = 2500
    coq_chunk = 70

    def gen(self, rng, n, tier):
        import random
        from vf import core
        cases = [{"bucket": "unitab", "kind": "unitab"}]
        while len(cases) < n:
            b = pick_weighted(rng, [(6, "rt"), (5, "dec")])
            msg = rng.choice(V2_MSGS)
            v = gen_value2(rng, msg)
            if b == "rt":
                v.update({"bucket": "rt2-" + dec_kind(v), "kind": "rt2", "chunks": rchunks(rng, 250)})
                cases.append(v)
            else:
                v.update({"kind": "rt2", "chunks": []})
                dk = dec_kind(v) if rng.random() < 0.85 else rng.choice(V2_DEC)       # sometimes the wrong decoder
                cases.append({"bucket": "dec2-" + dk, "kind": "dec2", "msg": dk, "_from": v, "chunks": rchunks(rng, 200), "_seed": rng.randrange(1 << 30)})
        need = [c for c in cases if c["kind"] == "dec2"]
        if need:
            enc = core.run_impl(self.go_cmd, [dict(c["_from"], id=i) for i, c in enumerate(need)])
            for i, c in enumerate(need):
                r = random.Random(c.pop("_seed"))
                data = bytes.fromhex(((enc.get(i) or {}).get("extra") or {}).get("bytes") or "")
                c.pop("_from")
                if r.random() < 0.15:
                    data += r.choice([b"0000", b"0009PACK\n", b"0002", b"000dpackfile\n", b"0001"])     # something after the message
                c["hex"] = (mutate(r, data) if r.random() < 0.75 else data).hex()
        return cases

    def model_expr(self, c):
        k = c["kind"]
        ch = coq_ns(c.get("chunks", []))
        if k == "unitab":
            return "c35_unitab"
        if k == "dec2":
            return 'c35v2_dec "%s" %s %s' % (c["msg"], coq_hex(bytes.fromhex(c["hex"])), ch)
        m = c["msg"]
        if m == "capadv":
            return "c35v2_capadv %s %s %s" % (coq_Z(c["version"]), coq_caps(c["caps"]), ch)
        if m == "cmd":
            cmd = coq_hex(bytes.fromhex(c["command"]))
            if c["args"] == "nil":
                return "c35v2_cmd_nil %s %s %s" % (cmd, coq_caps(c["caps"]), ch)
            if c["args"] == "lsrefs":
                return "c35v2_cmd_lsrefs %s %s %s %s" % (cmd, coq_caps(c["caps"]), coq_lsargs(c["ls"]), ch)
            return "c35v2_cmd_fetch %s %s %s %s" % (cmd, coq_caps(c["caps"]), coq_fetchargs(c["fetch"]), ch)
        if m == "lsargs":
            return "c35v2_lsargs %s %s" % (coq_lsargs(c["ls"]), ch)
        if m == "fetchargs":
            return "c35v2_fetchargs %s %s" % (coq_fetchargs(c["fetch"]), ch)
        if m == "lsout":
            refs = coq_list(["(%s, %s, %s)" % (coq_hex(bytes.fromhex(n)), coq_bool(sym), coq_hex(bytes.fromhex(v))) for n, sym, v in c["refs"]])
            return "c35v2_lsout %s %s" % (refs, ch)
        if m == "fetchout":
            a, sh, w, u = c["acks"], c["shallow"], c["wanted"], c["uris"]
            return "c35v2_fetchout (mk_fetchout %s %s %s %s %s) %s" % (
                coq_optv(a, lambda a: "(%s, %s)" % (hs(a["hashes"]), coq_bool(a["ready"]))),
                coq_optv(sh, lambda s: "(%s, %s)" % (hs(s["sh"]), hs(s["un"]))),
                coq_optv(w, lambda w: coq_list(["(%s, %s)" % (coq_hex(bytes.fromhex(n)), coq_hex(bytes.fromhex(h))) for n, h in w]) if w else "(@nil (string * string))"),
                coq_optv(u, lambda u: coq_strs(u) if u else "(@nil string)"), coq_bool(c["packfile"]), ch)
        return None

    def nontrivial(self, c):
        return c["kind"] != "unitab"

    def oracle(self, ctx, cases, impl, model):
        fails = {}
        for c in cases:
            r = impl.get(c["id"])
            if r is None or r.get("panic"):
                fails[c["id"]] = "no reply / panic"
                continue
            if c["kind"] != "rt2":
                continue
            wf, want = expected2(c)
            if not wf:
                continue
            ex = r.get("extra") or {}
            if ex.get("enc") != "ok":
                fails[c["id"]] = "well-formed v2 %s value was not encoded: %s" % (c["msg"], ex.get("err"))
            elif (ex.get("value") or {}).get("v") != want or (ex.get("value") or {}).get("rest") != 0:
                fails[c["id"]] = "decode(encode(v)) = %s, expected %s with nothing left unread" % (ex.get("value"), want)
        return fails

    def finding_class(self, c, reason, reply):
        return None


SUITES = [Msgs(), V2()]
