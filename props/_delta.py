"""git delta format helpers shared by the C06 / C07 checks: encoders used by the
generators, a tolerant parser used to reconstruct the candidate function of
go-git's DiffDelta from its output, and the compact `segments` byte encoding."""

MAXCOPY = 0x10000


def leb(n):
    out = bytearray()
    while True:
        b = n & 0x7f
        n >>= 7
        if n == 0:
            out.append(b)
            return bytes(out)
        out.append(b | 0x80)


def leb_padded(n, total):
    """non-canonical encoding of n in exactly `total` bytes (zero payload padding)"""
    out = bytearray()
    for i in range(total):
        b = (n >> (7 * i)) & 0x7f
        out.append(b | (0x80 if i < total - 1 else 0))
    return bytes(out)


def copy_op(off, sz, force_mask=0):
    """copy command; sz == 0x10000 may be encoded as "no size bytes" (force_mask lets a generator
    emit explicit zero bytes as well)"""
    code = 0x80
    ops = bytearray()
    for i in range(4):
        b = (off >> (8 * i)) & 0xff
        if b or (force_mask >> i) & 1:
            ops.append(b)
            code |= 1 << i
    s = 0 if sz == MAXCOPY and not (force_mask & 0x100) else sz
    for i in range(3):
        b = (s >> (8 * i)) & 0xff
        if b or (force_mask >> (4 + i)) & 1:
            ops.append(b)
            code |= 0x10 << i
    return bytes([code]) + bytes(ops)


def insert_op(data):
    assert 1 <= len(data) <= 127
    return bytes([len(data)]) + data


def parse_hdr(d):
    """(srcsz, tgtsz, rest offset) with git's get_delta_hdr_size rules; None if the delta is too short"""
    pos = 0
    vals = []
    for _ in range(2):
        if pos >= len(d):
            return None
        v, i = 0, 0
        while True:
            c = d[pos]
            pos += 1
            v |= (c & 0x7f) << i
            i += 7
            if not (c & 0x80 and pos < len(d)):
                break
        vals.append(v)
    return vals[0], vals[1], pos


def varint_lengths(d):
    """byte lengths of the two header varints as far as they can be read"""
    pos, out = 0, []
    for _ in range(2):
        n = 0
        while pos < len(d):
            c = d[pos]
            pos += 1
            n += 1
            if not c & 0x80:
                break
        out.append(n)
    return out


def parse_ops(d):
    """ops of a well-formed delta: list of ('copy', off, sz) / ('insert', bytes); raises on malformed"""
    h = parse_hdr(d)
    if h is None:
        raise ValueError("short")
    _, _, pos = h
    ops = []
    while pos < len(d):
        c = d[pos]
        pos += 1
        if c & 0x80:
            off = sz = 0
            for i in range(4):
                if c & (1 << i):
                    off |= d[pos] << (8 * i)
                    pos += 1
            for i in range(3):
                if c & (0x10 << i):
                    sz |= d[pos] << (8 * i)
                    pos += 1
            ops.append(("copy", off, sz or MAXCOPY))
        elif c:
            if pos + c > len(d):
                raise ValueError("insert past end")
            ops.append(("insert", d[pos:pos + c]))
            pos += c
        else:
            raise ValueError("cmd 0")
    return ops


def apply_ops(src, ops):
    out = bytearray()
    for o in ops:
        if o[0] == "copy":
            out += src[o[1]:o[1] + o[2]]
        else:
            out += o[1]
    return bytes(out)


def copy_starts(d):
    """[(target offset, source offset)] of every copy command of a well-formed delta"""
    res, t = [], 0
    for o in parse_ops(d):
        if o[0] == "copy":
            res.append((t, o[1]))
            t += o[2]
        else:
            t += len(o[1])
    return res


# ---- compact byte strings: list of [hex pattern, repeat count]
def seg(b, n=1):
    return [[b.hex(), n]]


def expand(segs):
    return b"".join(bytes.fromhex(h) * n for h, n in segs)


def coq_segs(segs):
    return "[" + "; ".join('("%s", %d%%N)' % (h, n) for h, n in segs) + "]"
