"""C16 Reference updates are atomic compare-and-swap operations (DESIGN.md §4.C16)."""
import itertools
from vf.core import Suite, coq_list
from vf.gen import pick_weighted

ID = "C16"
THEOREMS = ["C16_cas_linearizable", "C16_mutex", "C16_cas_exact", "C16_symbolic_cas_refuted",
            "C16_reader_atomic_refuted", "C16_reader_notfound_refuted", "C16_reader_atomic_partial",
            "C16_pack_race_refuted", "C16_uncond_set_refuted", "C16_uncond_set_garbage"]
MODEL_FILES = ["RefCAS.v"]
MODELLED = ("storage/filesystem/dotgit/dotgit_setref.go: setRefRwfs; dotgit.go: checkReferenceAndTruncate, readReferenceFrom, "
            "Ref/readReferenceFile, packedRef/findPackedRefs, PackRefs (one reference name), as a small-step interleaving "
            "semantics over inodes, path bindings, per-inode flock and the packed-refs lock (Model/RefCAS.v); one step = one "
            "filesystem call on the loose file or packed-refs. Not modelled: setRefNorwfs, RemoveRef, the open/lock/mtime retry "
            "loop of openAndLockPackedRefs (abstracted to a mutex), torn multi-Read of a loose file whose length changes, "
            "fsync/crash behaviour (C21), packing of symbolic references (C15)")
TRUSTED = [
    "C-impl: harness/cmd/c16 runs one DotGit per thread over a billy.Filesystem wrapper (shared osfs directory) that parks the "
    "goroutine before every call on the loose reference file or packed-refs until the schedule releases it; flock is osfs's real flock",
    "direct oracle: brute-force linearizability check of the observed history (operations with their first/last step, results, and a "
    "sequential read afterwards) against an atomic register with exact-value compare-and-swap",
]
ASSUMPTIONS = ["flock(LOCK_EX) on one inode is mutual exclusion between open file descriptions; openAndLockPackedRefs is mutual exclusion between packers",
               "rename(2) over packed-refs is atomic; a descriptor opened before it keeps the old content",
               "a write of one reference line and a read of it are single filesystem calls (41 bytes)"]
RULE = ("case = initial loose/packed state of one reference, 2-4 one-shot threads (check-and-set, unconditional set, read, pack-refs) "
        "and an interleaving of their filesystem calls, from buckets {2-3 CAS writers, CAS+readers, set+readers, set+CAS, pack+CAS, "
        "symbolic values, sequential}; non-trivial = at least two threads overlap; distinct by content")
TECHNIQUE = "machine-checked inductive invariant (lock holder is the only thread past read) over an interleaving semantics in Coq + schedule replay on the real DotGit through a blocking billy.Filesystem wrapper"

MAXSTEPS = {"cas": 8, "set": 4, "read": 5, "pack": 10}


def H(n):
    return {"t": "h", "n": n}


def S(n):
    return {"t": "s", "n": n}


def coq_value(v):
    return "(%s %d)" % ("VHash" if v["t"] == "h" else "VSym", v["n"])


def coq_file(x):
    """None -> None ; {"v": None} -> Some None ; {"v": value} -> Some (Some value)"""
    if x is None:
        return "None"
    if x["v"] is None:
        return "(Some None)"
    return "(Some (Some %s))" % coq_value(x["v"])


def coq_kind(k):
    if k["k"] == "cas":
        return "(KCas %s %s)" % (coq_value(k["old"]), coq_value(k["new"]))
    if k["k"] == "set":
        return "(KSet %s)" % coq_value(k["new"])
    return {"read": "KRead", "pack": "KPack"}[k["k"]]


def vkey(v):
    return None if v is None else (v["t"], v["n"])


def initial_value(c):
    lo, pk = c.get("loose"), c.get("packed")
    if lo is not None and lo["v"] is not None:
        return vkey(lo["v"])
    if pk is not None and pk["v"] is not None:
        return vkey(pk["v"])
    return None


def parse_result(text):
    """rendered result -> ('ok',) ('changed',) ('notfound',) ('found', value key) ('other', text)"""
    t = text.split()
    if text == "ok":
        return ("ok",)
    if t[:3] == ["(", "err", "changed"]:
        return ("changed",)
    if t[:3] == ["(", "err", "notfound"]:
        return ("notfound",)
    if t[:2] == ["(", "found"] and len(t) >= 6 and t[3] in ("h", "s"):
        return ("found", (t[3], int(t[4])))
    if t[:3] == ["(", "found", "garbage"]:
        return ("found", ("garbage", 0))
    return ("other", text)


def top_items(text):
    """top-level items of a rendered list '( a ( b c ) d )' -> ['a', '( b c )', 'd']"""
    toks = text.split()
    items, depth, cur = [], 0, []
    for t in toks[1:-1]:
        cur.append(t)
        if t == "(":
            depth += 1
        elif t == ")":
            depth -= 1
        if depth == 0:
            items.append(" ".join(cur))
            cur = []
    return items


def linearizable(init, ops, final):
    """ops: list of dicts kind/old/new/res/first/last.  Exact-value register with CAS.
    final: result of a sequential read after everything, or None to ignore."""
    n = len(ops)
    order_ok = [[ops[a]["last"] < ops[b]["first"] for b in range(n)] for a in range(n)]

    def rec(done, state):
        if len(done) == n:
            if final is None:
                return True
            return final == (("found", state) if state is not None else ("notfound",))
        for i in range(n):
            if i in done:
                continue
            if any(order_ok[j][i] for j in range(n) if j not in done and j != i):
                continue  # someone that finished before i started is still pending
            o = ops[i]
            k, r = o["kind"], o["res"]
            st = state
            if k == "cas":
                if state is None:
                    good = r == ("notfound",)
                elif state == o["old"]:
                    good = r == ("ok",)
                    st = o["new"]
                else:
                    good = r == ("changed",)
            elif k == "set":
                good = r == ("ok",)
                st = o["new"]
            elif k == "read":
                good = r == (("found", state) if state is not None else ("notfound",))
            else:  # pack: its result is not constrained by the property, it changes nothing
                good = True
            if good and rec(done | {i}, st):
                return True
        return False
    return rec(frozenset(), init)


def interleave(rng, threads, style):
    pool = []
    for i, k in enumerate(threads):
        pool += [i] * MAXSTEPS[k["k"]]
    if style == "seq":
        order = list(range(len(threads)))
        rng.shuffle(order)
        return [i for t in order for i in [t] * MAXSTEPS[threads[t]["k"]]]
    if style == "bursty":
        out = []
        left = {i: MAXSTEPS[k["k"]] for i, k in enumerate(threads)}
        while any(left.values()):
            t = rng.choice([i for i in left if left[i]])
            n = min(left[t], rng.randrange(1, 5))
            out += [t] * n
            left[t] -= n
        return out
    rng.shuffle(pool)
    return pool


def gen_case(rng, bucket):
    vals = [H(1), H(2), H(3)]
    lo_choices = [(5, {"v": H(1)}), (1, None), (1, {"v": None})]
    pk_choices = [(3, None), (2, {"v": H(3)}), (2, {"v": H(1)}), (1, {"v": None})]
    loose, packed = pick_weighted(rng, lo_choices), pick_weighted(rng, pk_choices)

    def cas():
        return {"k": "cas", "old": rng.choice(vals), "new": rng.choice(vals)}

    def cas_live():   # expects what is there (most of the time)
        cur = loose["v"] if loose and loose["v"] else (packed["v"] if packed and packed["v"] else H(1))
        return {"k": "cas", "old": cur if rng.random() < 0.8 else rng.choice(vals), "new": rng.choice(vals)}
    if bucket == "cas2":
        threads = [cas_live(), cas_live()]
    elif bucket == "cas3":
        threads = [cas_live(), cas_live(), cas()]
    elif bucket == "cas+read":
        threads = [cas_live(), {"k": "read"}] + ([cas_live()] if rng.random() < 0.5 else [{"k": "read"}])
    elif bucket == "set+read":
        threads = [{"k": "set", "new": rng.choice(vals)}, {"k": "read"}] + ([{"k": "set", "new": rng.choice(vals)}] if rng.random() < 0.4 else [])
    elif bucket == "set+cas":
        threads = [{"k": "set", "new": rng.choice(vals)}, cas_live()] + ([{"k": "read"}] if rng.random() < 0.4 else [])
    elif bucket == "pack+cas":
        threads = [{"k": "pack"}, cas_live()] + ([{"k": "read"}] if rng.random() < 0.5 else []) + ([cas_live()] if rng.random() < 0.3 else [])
    elif bucket == "sym":
        svals = [S(1), S(2), H(1), H(2)]
        loose = {"v": rng.choice(svals)}
        packed = None
        threads = [{"k": "cas", "old": rng.choice(svals), "new": rng.choice(svals)},
                   rng.choice([{"k": "read"}, {"k": "cas", "old": rng.choice(svals), "new": rng.choice(svals)}, {"k": "set", "new": rng.choice(svals)}])]
    else:  # seq
        threads = [rng.choice([cas_live(), cas(), {"k": "read"}, {"k": "set", "new": rng.choice(vals)}, {"k": "pack"}]) for _ in range(rng.randrange(2, 5))]
    style = "seq" if bucket == "seq" else pick_weighted(rng, [(3, "uniform"), (3, "bursty"), (0.5, "seq")])
    return {"bucket": bucket, "loose": loose, "packed": packed, "threads": threads, "sched": interleave(rng, threads, style)}


def all_interleavings(lens):
    """all merges of sequences 0^a 1^b ... as tid lists"""
    def rec(left):
        if not any(left):
            yield []
            return
        for i, n in enumerate(left):
            if n:
                l2 = list(left)
                l2[i] -= 1
                for r in rec(l2):
                    yield [i] + r
    return rec(list(lens))


class Main(Suite):
    name = "main"
    go_cmd = "c16"
    coq_imports = "From GoGit Require Import Model.RefCAS."
    quick_n = 400
    thorough_n = 6000
    coq_chunk = 60

    def __init__(self):
        self.agree = set()

    def gen(self, rng, n, tier):
        buckets = [(4, "cas2"), (3, "cas3"), (4, "cas+read"), (2, "set+read"), (2, "set+cas"), (3, "pack+cas"), (1.5, "sym"), (1.5, "seq")]
        cases = [gen_case(rng, pick_weighted(rng, buckets)) for _ in range(n)]
        if tier == "thorough":
            # small-scope exhaustion: every interleaving of two CAS writers on a loose ref (6 steps each)
            for (o1, n1, o2, n2) in [(1, 2, 1, 3), (1, 2, 2, 3)]:
                th = [{"k": "cas", "old": H(o1), "new": H(n1)}, {"k": "cas", "old": H(o2), "new": H(n2)}]
                for sch in all_interleavings([6, 6]):
                    cases.append({"bucket": "exhaustive-cas2", "loose": {"v": H(1)}, "packed": None, "threads": th, "sched": sch})
            th = [{"k": "cas", "old": H(1), "new": H(2)}, {"k": "read"}]
            for sch in all_interleavings([6, 5]):
                cases.append({"bucket": "exhaustive-cas-read", "loose": {"v": H(1)}, "packed": {"v": H(3)}, "threads": th, "sched": sch})
        return cases

    def model_expr(self, c):
        return "c16_run %s %s %s %s" % (coq_file(c["loose"]), coq_file(c["packed"]),
                                        coq_list([coq_kind(k) for k in c["threads"]]),
                                        coq_list([str(t) for t in c["sched"]]))

    def nontrivial(self, c):
        return len(c["threads"]) >= 2 and len(set(c["sched"][:12])) >= 2

    def history(self, c, r):
        ops = []
        for k, o in zip(c["threads"], r["extra"]["ops"]):
            ops.append({"kind": k["k"], "old": vkey(k.get("old")), "new": vkey(k.get("new")),
                        "res": parse_result(o["result"]), "first": o["first"], "last": o["last"]})
        return ops, parse_result(r["extra"]["final"])

    def oracle(self, ctx, cases, impl, model):
        fails = {}
        self.agree = set()
        for c in cases:
            r = impl.get(c["id"])
            if r is None or not isinstance(r.get("extra"), dict):
                fails[c["id"]] = "no history from the implementation"
                continue
            # "exactly what the pristine model predicts": same per-thread results, same files, same final read
            # (the step trace may differ; that is reported separately as a broken correspondence)
            m = model.get(c["id"])
            if m is not None and top_items(m)[1:] == top_items(r["out"])[1:]:
                self.agree.add(c["id"])
            ops, final = self.history(c, r)
            init = initial_value(c)
            if any(o["res"][0] == "other" for o in ops if o["kind"] != "pack") or final[0] == "other":
                fails[c["id"]] = "unexpected-error: " + "; ".join(str(o["res"]) for o in ops)
                continue
            if linearizable(init, ops, final):
                continue
            kinds = set(o["kind"] for o in ops)
            writers = [o for o in ops if o["kind"] in ("cas", "set")]
            syms = any(v is not None and v[0] == "s" for o in ops for v in (o["old"], o["new"])) or (init is not None and init[0] == "s")
            if linearizable(init, writers, final):
                # the updates alone are atomic; a reader (or the packer's effect on a reader) is what does not fit
                why = "reader-not-atomic"
            elif "pack" in kinds:
                why = "pack-race"
            elif "set" in kinds:
                why = "uncond-set"
            elif syms:
                why = "symbolic-cas"
            else:
                why = "cas-not-linearizable"
            if c["id"] not in self.agree:
                why = "not-linearizable (and not the behaviour of the pristine model; nearest class %s)" % why
            fails[c["id"]] = "%s: history %s, sequential read afterwards %s, initial %s" % (
                why, [(o["kind"], o["old"], o["new"], o["res"], o["first"], o["last"]) for o in ops], final, init)
        return fails

    def finding_class(self, case, reason, reply):
        # a failing history is a KNOWN finding only if it is exactly what the pristine model predicts
        if case["id"] not in self.agree:
            return None
        kinds = set(k["k"] for k in case["threads"])
        if reason.startswith("reader-not-atomic") and "pack" not in kinds:
            return "reader-sees-truncated-ref"
        if reason.startswith("pack-race") or (reason.startswith("reader-not-atomic") and "pack" in kinds):
            return "pack-refs-loses-concurrent-update"
        if reason.startswith("uncond-set"):
            return "uncond-set-truncates-before-lock"
        if reason.startswith("symbolic-cas"):
            return "symbolic-cas-compares-zero-hash"
        return None

    def extra(self, ctx, cases, impl, model):
        # branch coverage of the model, measured on the implementation side: the sequence of
        # filesystem calls each operation made (one model branch = one such sequence per kind)
        paths = {}
        for c in cases:
            r = impl.get(c["id"])
            if not r or not isinstance(r.get("extra"), dict):
                continue
            seqs = {}
            for e in r["extra"]["trace"]:
                seqs.setdefault(e["t"], []).append(e["at"])
            for t, k in enumerate(c["threads"]):
                res = r["extra"]["ops"][t]["result"]
                key = "%s: %s -> %s" % (k["k"], " ".join(seqs.get(t, [])), res.split()[2] if res.startswith("( err") else res.split()[0] if res != "ok" else "ok")
                paths[key] = paths.get(key, 0) + 1
        return {"histories_checked": sum(1 for c in cases if c["id"] in impl), "call_paths": dict(sorted(paths.items()))}


SUITES = [Main()]
