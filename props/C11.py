"""C11 Every stored object reads back identically on every read path (DESIGN.md §4.C11)."""
import atexit
import hashlib
import os
import shutil
import subprocess
import tempfile
import zlib
from vf.core import Suite
from vf.gen import pick_weighted

ID = "C11"
THEOREMS = ["C11_get_is_content", "C11_size_is_content", "C11_has_is_content", "C11_by_offset_is_content",
            "C11_prefix_complete", "C11_iter_sound", "C11_iter_complete", "C11_any_order", "C11_hint_irrelevant"]
MODEL_FILES = ["ObjStore.v"]
MODELLED = ("storage/filesystem/object.go: EncodedObject, EncodedObjectSize, HasEncodedObject, IterEncodedObjects (+ object_iter.go "
            "lazyPackfilesIter/packfileIter/objectsIter), HashesWithPrefix, findObjectInPackfile (MRU hint), getFromUnpacked, "
            "findInAlternates; plumbing/format/packfile/packfile.go: GetByOffset/getByOffset/get/objectFromHeader/getMemoryObject "
            "(delta resolution through the object cache), packfile_iter.go objectIter, patch_delta.go (git delta format) — "
            "Model/ObjStore.v over a repository given as data (loose objects, packs as entry lists with offsets / OFS / REF deltas, "
            "alternates, one level). Exercised only: zlib, objfile, idx/rev decoding (Memory/LazyIndex), FSObject vs MemoryObject "
            "(LargeObjectThreshold), mmap, fd pool, ExclusiveAccess list caches (C18)")
TRUSTED = [
    "C-impl: harness/cmd/c11 opens the git-built repository with filesystem.NewStorageWithOptions under the case's options and answers every read; "
    "compared with Model/ObjStore.c11_run on the same repository (python reads loose objects and parses the packs git wrote: entry offsets, "
    "types, OFS/REF bases, inflated payloads; ids from `git show-index`)",
    "C-git / direct oracle: every answer of the implementation vs `git cat-file --batch-all-objects --batch` of the same repository "
    "(type, size, SHA-1 of the bytes; listing = exactly git's id set, each once)",
    "python side: zlib, the pack parser and the loose-object writer of props/C11.py (repositories are checked by git itself through the oracle)",
]
ASSUMPTIONS = ["repositories are not modified while they are read", "alternates are one level deep in the model (go-git recurses)"]
RULE = ("4 repositories built per run by git fast-import / pack-objects (single pack with delta chains + loose; three packs with loose/packed and "
        "pack/pack duplicates; REF_DELTA pack with .rev + OFS pack; borrower with alternates) x storage options (ExclusiveAccess, in-memory/lazy idx, "
        "LargeObjectThreshold 0/16/200/1e5, default/tiny/nil cache, mmap, fd pool 0/1/2/default) x 5-14 reads (get any/typed, size, has, absent ids "
        "= one flipped bit, type iteration, prefixes of 0/1/2/3/20 bytes, stand-alone Packfile.GetByOffset); non-trivial = at least two reads; distinct by content")

GIT_ENV = dict(os.environ, GIT_AUTHOR_NAME="A", GIT_AUTHOR_EMAIL="a@example.com", GIT_COMMITTER_NAME="C",
               GIT_COMMITTER_EMAIL="c@example.com", GIT_CONFIG_NOSYSTEM="1", HOME="/nonexistent", TZ="UTC",
               GIT_CONFIG_GLOBAL="/dev/null")
TNUM = {"commit": 1, "tree": 2, "blob": 3, "tag": 4}
TNAME = {v: k for k, v in TNUM.items()}
TCOQ = {"": "0", "commit": "1", "tree": "2", "blob": "3", "tag": "4"}


def git(cwd, *args, input=None, date=None):
    env = dict(GIT_ENV)
    if date is not None:
        env["GIT_AUTHOR_DATE"] = env["GIT_COMMITTER_DATE"] = "%d +0000" % date
    p = subprocess.run(["/usr/bin/git", "-c", "pack.threads=1", "-c", "gc.auto=0", "-c", "core.compression=1"] + list(args),
                       cwd=cwd, env=env, input=input, stdout=subprocess.PIPE, stderr=subprocess.PIPE, timeout=120)
    if p.returncode != 0:
        raise RuntimeError("git %s failed: %s" % (args, p.stderr.decode("utf-8", "replace")[:500]))
    return p.stdout


# ---------------------------------------------------------------- repositories built by git

WORDS = ["alpha", "beta", "gamma", "delta", "omega", "sigma", "kappa", "lambda", "zeta", "theta"]


def text(rng, nlines):
    return ["%s %d %s" % (rng.choice(WORDS)[:4], rng.randrange(1000), rng.choice(WORDS)[:3]) for _ in range(nlines)]


class Hist:
    """a history written by ONE `git fast-import` run into the repository itself, with a `checkpoint`
    after every batch so that each batch lands in its own pack (as fast-import writes it: OFS deltas
    of blobs and trees).  Files evolve by small edits so that git finds deltas."""

    def __init__(self, rng, nfiles=3, branch="main", files=None, t=1700000000):
        self.rng, self.t, self.branch, self.n, self.nb = rng, t, branch, 0, 0
        self.files = files if files is not None else {
            ("dir/f%d.txt" if i % 2 else "f%d.txt") % i: text(rng, rng.randrange(13, 18)) for i in range(nfiles)}
        self.fresh = set(self.files)
        self.out = []
        self.names = {}          # blob id -> path (name hints for pack-objects)

    def edit(self):
        for name in self.rng.sample(sorted(self.files), 2):
            lines = self.files[name]
            for _ in range(self.rng.randrange(1, 3)):
                i = self.rng.randrange(len(lines))
                r = self.rng.random()
                if r < 0.5:
                    lines[i] = text(self.rng, 1)[0]
                elif r < 0.8:
                    lines.insert(i, text(self.rng, 1)[0])
                elif len(lines) > 5:
                    del lines[i]
            self.fresh.add(name)

    def batch(self, ncommits, tag=None):
        out = self.out
        for _ in range(ncommits):
            if self.n:
                self.edit()
            self.t += 100
            msg = b"batch %d commit %d\n" % (self.nb, self.t)
            who = b"A <a@example.com> %d +0000" % self.t
            out.append(b"commit refs/heads/%s\nauthor %s\ncommitter %s\ndata %d\n%s" % (self.branch.encode(), who, who, len(msg), msg))
            for name in sorted(self.fresh):
                data = ("\n".join(self.files[name]) + "\n").encode()
                self.names[hashlib.sha1(b"blob %d\0" % len(data) + data).hexdigest()] = name
                out.append(b"M 100644 inline %s\ndata %d\n%s\n" % (name.encode(), len(data), data))
            self.fresh = set()
            self.n += 1
        if tag:
            self.t += 1
            msg = b"tag %s\n" % tag.encode()
            out.append(b"tag %s\nfrom refs/heads/%s\ntagger A <a@example.com> %d +0000\ndata %d\n%s" % (tag.encode(), self.branch.encode(), self.t, len(msg), msg))
        out.append(b"checkpoint\n")
        self.nb += 1

    def run(self, repo):
        """-> list (one per batch) of (pack path, [ids]) as written by fast-import"""
        pd = os.path.join(repo, "objects", "pack")
        git(repo, "-c", "fastimport.unpackLimit=0", "fast-import", "--quiet", "--depth=3", input=b"".join(self.out))
        res = {}
        for f in sorted(os.listdir(pd)):
            if f.endswith(".pack"):
                path = os.path.join(pd, f)
                k = None
                for e in parse_pack(path):
                    if e["type"] == 1 and e["data"].find(b"\n\nbatch ") >= 0:
                        k = int(e["data"].split(b"\n\nbatch ")[1].split(b" ")[0])
                        break
                res[k] = (path, [i for i, _ in parse_idx(path[:-5] + ".idx")])
        return [res[k] for k in range(self.nb)]


def parse_idx(path):
    d = open(path, "rb").read()
    assert d[:8] == b"\xfftOc\x00\x00\x00\x02"
    n = int.from_bytes(d[8 + 255 * 4:8 + 256 * 4], "big")
    ids = [d[1032 + 20 * i:1052 + 20 * i].hex() for i in range(n)]
    o = 1032 + 24 * n
    offs = [int.from_bytes(d[o + 4 * i:o + 4 * i + 4], "big") for i in range(n)]
    return list(zip(ids, offs))


def new_repo(path):
    """an empty bare repository, laid out by hand (no process spawn)"""
    for d in ("objects/pack", "objects/info", "refs/heads", "refs/tags"):
        os.makedirs(os.path.join(path, d), exist_ok=True)
    open(os.path.join(path, "HEAD"), "w").write("ref: refs/heads/main\n")
    open(os.path.join(path, "config"), "w").write("[core]\n\trepositoryformatversion = 0\n\tbare = true\n")
    return path


def contents(repo, ids):
    """id -> (type, bytes) through one `git cat-file --batch`"""
    out = git(repo, "cat-file", "--batch", input=("\n".join(ids) + "\n").encode())
    res, pos = {}, 0
    while pos < len(out):
        nl = out.index(b"\n", pos)
        oid, typ, sz = out[pos:nl].decode().split(" ")
        sz = int(sz)
        res[oid] = (typ, out[nl + 1:nl + 1 + sz])
        pos = nl + 1 + sz + 1
    return res


def write_loose(repo, oid, typ, data):
    d = os.path.join(repo, "objects", oid[:2])
    os.makedirs(d, exist_ok=True)
    raw = b"%s %d\0" % (typ.encode(), len(data)) + data
    assert hashlib.sha1(raw).hexdigest() == oid
    with open(os.path.join(d, oid[2:]), "wb") as f:
        f.write(zlib.compress(raw, 1))


def drop_pack(path):
    for ext in (".pack", ".idx", ".rev", ".bitmap"):
        try:
            os.remove(path[:-5] + ext)
        except OSError:
            pass


def pack_objects(repo, ids, *flags, rev=False, names={}):
    """one pack over exactly ids, deltas chosen by `git pack-objects`"""
    cfg = ["-c", "pack.writeReverseIndex=%s" % ("true" if rev else "false")]
    lines = "".join("%s %s\n" % (i, names[i]) if i in names else i + "\n" for i in ids)
    git(repo, *cfg, "pack-objects", "-q", *flags, os.path.join("objects", "pack", "pack"), input=lines.encode())


def build_repos(rng, root):
    repos = []
    # R0: one pack with delta chains + loose objects + a tag + an empty blob + a short blob + all byte values
    r = new_repo(os.path.join(root, "r0"))
    h = Hist(rng, nfiles=4)
    h.batch(5, tag="v1")
    h.batch(2)
    b = h.run(r)
    c = contents(r, b[1][1])
    pack_objects(r, b[0][1], "--window=10", "--depth=12", "--delta-base-offset", names=h.names)
    drop_pack(b[0][0])
    drop_pack(b[1][0])
    for i in b[1][1]:
        write_loose(r, i, *c[i])
    for data in (b"", b"x", bytes(range(256))):
        write_loose(r, hashlib.sha1(b"blob %d\0" % len(data) + data).hexdigest(), "blob", data)
    repos.append(r)
    # R1: several packs, loose/packed and pack/pack duplicates
    r = new_repo(os.path.join(root, "r1"))
    h = Hist(rng)
    h.batch(2)
    h.batch(2)
    h.batch(2, tag="t")
    h.batch(1)
    b = h.run(r)
    c = contents(r, b[0][1] + b[2][1] + b[3][1])
    pack_objects(r, b[0][1], "--window=5", "--depth=5", "--delta-base-offset", names=h.names)             # first pack ...
    pack_objects(r, b[0][1] + b[1][1] + b[2][1], "--window=8", "--depth=8", "--delta-base-offset", names=h.names)  # a pack holding everything so far
    for k in (0, 2, 3):                                                                    # ... whose objects also stay loose
        drop_pack(b[k][0])
        for i in b[k][1]:
            write_loose(r, i, *c[i])
    # b[1] stays as fast-import wrote it: the second pack
    repos.append(r)
    # R2: a REF_DELTA pack with a .rev file, an OFS pack with .rev, loose objects
    r = new_repo(os.path.join(root, "r2"))
    h = Hist(rng)
    h.batch(4)
    h.batch(2)
    h.batch(1)
    b = h.run(r)
    c = contents(r, b[2][1])
    pack_objects(r, b[0][1], "--window=10", "--depth=10", rev=True, names=h.names)                        # no --delta-base-offset: REF_DELTA
    pack_objects(r, b[1][1], "--window=10", "--depth=10", "--delta-base-offset", rev=True, names=h.names)
    for k in (0, 1, 2):
        drop_pack(b[k][0])
    for i in b[2][1]:
        write_loose(r, i, *c[i])
    repos.append(r)
    # R3: alternates: the borrower has its own pack and loose objects and shares some ids with the alternate
    a = new_repo(os.path.join(root, "r3a"))
    h = Hist(rng)
    h.batch(3)
    h.batch(2)
    b = h.run(a)
    c = contents(a, b[1][1])
    pack_objects(a, b[0][1], "--window=6", "--depth=6", "--delta-base-offset", names=h.names)
    drop_pack(b[0][0])
    drop_pack(b[1][0])
    for i in b[1][1]:
        write_loose(a, i, *c[i])
    r = new_repo(os.path.join(root, "r3"))
    hb = Hist(rng, files={k: list(v) for k, v in h.files.items()}, t=h.t + 5000)
    hb.batch(2)
    hb.batch(1)
    b = hb.run(r)                                                  # written before the alternate is attached: shared blobs are stored again
    c = contents(r, b[1][1])
    drop_pack(b[1][0])
    for i in b[1][1]:
        write_loose(r, i, *c[i])
    data = b"only in the borrower\n"
    write_loose(r, hashlib.sha1(b"blob %d\0" % len(data) + data).hexdigest(), "blob", data)
    open(os.path.join(r, "objects", "info", "alternates"), "w").write(os.path.join(a, "objects") + "\n")
    repos.append(r)
    return repos


# ---------------------------------------------------------------- reading what git built

def read_loose(objdir):
    out = []
    for d in sorted(os.listdir(objdir)):
        if len(d) == 2 and all(c in "0123456789abcdef" for c in d):
            for f in sorted(os.listdir(os.path.join(objdir, d))):
                raw = zlib.decompress(open(os.path.join(objdir, d, f), "rb").read())
                hdr, data = raw.split(b"\0", 1)
                t, sz = hdr.split(b" ")
                assert int(sz) == len(data)
                out.append((d + f, t.decode(), data))
    return out


def parse_pack(path):
    data = open(path, "rb").read()
    assert data[:4] == b"PACK"
    n = int.from_bytes(data[8:12], "big")
    pos = 12
    entries = []
    for _ in range(n):
        start = pos
        b = data[pos]
        pos += 1
        typ = (b >> 4) & 7
        size = b & 15
        shift = 4
        while b & 0x80:
            b = data[pos]
            pos += 1
            size |= (b & 0x7f) << shift
            shift += 7
        base = None
        if typ == 6:
            b = data[pos]
            pos += 1
            off = b & 0x7f
            while b & 0x80:
                b = data[pos]
                pos += 1
                off = ((off + 1) << 7) | (b & 0x7f)
            base = start - off
        elif typ == 7:
            base = data[pos:pos + 20].hex()
            pos += 20
        d = zlib.decompressobj()
        payload = d.decompress(data[pos:])
        assert d.eof and len(payload) == size
        pos = len(data) - len(d.unused_data)
        entries.append({"off": start, "type": typ, "base": base, "data": payload})
    return entries


def read_store(gitdir):
    objdir = os.path.join(gitdir, "objects")
    loose = read_loose(objdir)
    packs = []
    pd = os.path.join(objdir, "pack")
    for f in sorted(os.listdir(pd)) if os.path.isdir(pd) else []:
        if f.startswith("pack-") and f.endswith(".pack"):
            entries = parse_pack(os.path.join(pd, f))
            idx = git(gitdir, "show-index", input=open(os.path.join(pd, f[:-5] + ".idx"), "rb").read()).decode().split("\n")
            off2id = {int(l.split()[0]): l.split()[1] for l in idx if l}
            for e in entries:
                e["id"] = off2id[e["off"]]
            packs.append({"name": f[5:-5], "entries": entries})
    alts = []
    ap = os.path.join(objdir, "info", "alternates")
    if os.path.exists(ap):
        for line in open(ap).read().split("\n"):
            if line:
                alts.append(os.path.dirname(line))
    return {"gitdir": gitdir, "loose": loose, "packs": packs, "alts": [read_store(a) for a in alts]}


def git_truth(gitdir):
    """id -> (type, size, sha1 of content) from `git cat-file --batch-all-objects --batch`"""
    out = git(gitdir, "cat-file", "--batch-all-objects", "--batch")
    truth, pos = {}, 0
    while pos < len(out):
        nl = out.index(b"\n", pos)
        oid, typ, sz = out[pos:nl].decode().split(" ")
        sz = int(sz)
        data = out[nl + 1:nl + 1 + sz]
        truth[oid] = (typ, sz, hashlib.sha1(data).hexdigest())
        pos = nl + 1 + sz + 1
    return truth


def hx(b):
    return "0x" + (b.hex() if isinstance(b, (bytes, bytearray)) else b) if b else "0"


def coq_store(s):
    lo = "; ".join("LO %s %d %d %s" % (hx(i), TNUM[t], len(d), hx(d)) for i, t, d in s["loose"])
    ps = []
    for p in s["packs"]:
        es = []
        for e in p["entries"]:
            if e["type"] == 6:
                es.append("EO %s %d %d %d %s" % (hx(e["id"]), e["off"], e["base"], len(e["data"]), hx(e["data"])))
            elif e["type"] == 7:
                es.append("ER %s %d %s %d %s" % (hx(e["id"]), e["off"], hx(e["base"]), len(e["data"]), hx(e["data"])))
            else:
                es.append("EB %s %d %d %d %s" % (hx(e["id"]), e["off"], e["type"], len(e["data"]), hx(e["data"])))
        ps.append("[" + "; ".join(es) + "]")
    return "(Store [%s] [%s])" % (lo, "; ".join(ps))


def coq_repo(name, s):
    return "Definition %s : repo := Eval vm_compute in (Repo %s [%s])%%N.\n" % (name, coq_store(s), "; ".join(coq_store(a) for a in s["alts"]))


# ---------------------------------------------------------------- suite

_TMP = []
_FILES = []


def _cleanup():
    for d in _TMP:
        shutil.rmtree(d, ignore_errors=True)
    for f in _FILES:
        try:
            os.remove(f)
        except OSError:
            pass


atexit.register(_cleanup)


def read_coq(r):
    o = r["op"]
    if o == "get":
        return 'rget %s "%s"' % (TCOQ[r.get("t", "")], r["id"])
    if o == "size":
        return 'rsize "%s"' % r["id"]
    if o == "has":
        return 'rhas "%s"' % r["id"]
    if o == "iter":
        return "riter %s" % TCOQ[r.get("t", "")]
    if o == "prefix":
        return 'rprefix "%s"' % r["p"]
    if o == "off":
        return "RdOff %d %d%%N" % (r["pk"], r["off"])
    raise ValueError(o)


class Main(Suite):
    name = "main"
    go_cmd = "c11"
    base_imports = "From GoGit Require Import Model.ObjStore."
    coq_imports = base_imports
    quick_n = 120
    thorough_n = 3000
    coq_chunk = 100

    def build(self, rng):
        """the repositories of this run (deterministic in the rng state) and their Coq form, compiled once.
        Both are kept under .cache/C11/<key> (key = rng state, this file, the model sources, the git version):
        a later run with the same seed reuses them; anything missing or stale is rebuilt."""
        import json
        import pickle
        from vf import core
        h = hashlib.sha256()
        h.update(repr(rng.getstate()).encode())
        for f in (__file__, os.path.join(core.COQ, "theories", "Model", "ObjStore.v"), os.path.join(core.COQ, "theories", "Base", "Out.v")):
            h.update(open(f, "rb").read())
        h.update(subprocess.run(["/usr/bin/git", "--version"], stdout=subprocess.PIPE).stdout)
        key = h.hexdigest()[:16]
        cdir = os.path.join(core.CACHE, "C11", key)
        mod = "C11repos_" + key
        scratch = core.scratch_dir()
        for ext in (".v", ".vo", ".glob", ".vok", ".vos"):
            _FILES.append(os.path.join(scratch, mod + ext))
        _FILES.append(os.path.join(scratch, "." + mod + ".aux"))
        self.coq_imports = self.base_imports + "\nRequire Import %s." % mod
        self.prelude_error = None
        meta = os.path.join(cdir, "meta.pickle")
        if os.path.exists(meta) and os.path.exists(os.path.join(cdir, mod + ".vo")):
            try:
                with open(meta, "rb") as f:
                    m = pickle.load(f)
                if all(os.path.isdir(x["gitdir"]) for x in m["repos"]):
                    shutil.copyfile(os.path.join(cdir, mod + ".vo"), os.path.join(scratch, mod + ".vo"))
                    # the cached .vo must still load against the model as compiled now
                    if core.coq_eval("C11", self.coq_imports, ["ONat (List.length (s_packs (r_main repo0)))"]) != [None]:
                        self.repos = m["repos"]
                        rng.setstate(m["rng_after"])
                        return
            except Exception:
                pass
        with core.Lock("C11-build"):
            tmp = tempfile.mkdtemp(prefix="build-", dir=os.path.join(core.CACHE, "C11") if os.path.isdir(os.path.join(core.CACHE, "C11")) else self._mk(os.path.join(core.CACHE, "C11")))
            final = cdir
            # the repositories are addressed by absolute path: build them where they will stay
            shutil.rmtree(final, ignore_errors=True)
            os.rename(tmp, final)
            self.repos = []
            prelude = "From Coq Require Import List NArith.\nImport ListNotations.\n" + self.base_imports + "\n"
            for i, gitdir in enumerate(build_repos(rng, final)):
                st = read_store(gitdir)
                truth = git_truth(gitdir)
                self.repos.append({"gitdir": gitdir, "store": st, "truth": truth, "name": "repo%d" % i})
                prelude += coq_repo("repo%d" % i, st)
            path = os.path.join(scratch, mod + ".v")
            with open(path, "w") as f:
                f.write(prelude)
            rc, out = core.coqc_file(path)
            if rc != 0:
                self.prelude_error = out[-1500:]
                core.log("C11: repository prelude failed to compile:", self.prelude_error)
                return
            shutil.copyfile(os.path.join(scratch, mod + ".vo"), os.path.join(final, mod + ".vo"))
            with open(meta + ".tmp", "wb") as f:
                pickle.dump({"repos": self.repos, "rng_after": rng.getstate()}, f)
            os.rename(meta + ".tmp", meta)

    @staticmethod
    def _mk(d):
        os.makedirs(d, exist_ok=True)
        return d

    def gen(self, rng, n, tier):
        self.build(rng)
        cases = []
        for _ in range(n):
            ri = rng.randrange(len(self.repos))
            cases.append(self.gen_case(rng, ri))
        return cases

    def ids_of(self, repo):
        st = repo["store"]
        loose = [i for i, _, _ in st["loose"]]
        packed, deltas, offs = [], [], []
        for pk, p in enumerate(st["packs"]):
            for e in p["entries"]:
                packed.append(e["id"])
                offs.append((pk, p["name"], e["off"]))
                if e["type"] in (6, 7):
                    deltas.append(e["id"])
        altids = []
        for a in st["alts"]:
            altids += [i for i, _, _ in a["loose"]] + [e["id"] for p in a["packs"] for e in p["entries"]]
        return loose, packed, deltas, offs, altids

    def gen_case(self, rng, ri):
        repo = self.repos[ri]
        loose, packed, deltas, offs, altids = self.ids_of(repo)
        allids = sorted(repo["truth"])

        def some_id():
            pools = [(3, packed), (3, deltas), (2, loose), (2, altids), (2, allids)]
            pool = pick_weighted(rng, [(w, p) for w, p in pools if p])
            return rng.choice(pool)

        def absent():
            i = bytearray(bytes.fromhex(rng.choice(allids)))
            i[rng.randrange(20)] ^= 1 << rng.randrange(8)
            return bytes(i).hex()

        reads = []
        for _ in range(rng.randrange(5, 15)):
            k = pick_weighted(rng, [(5, "get"), (2, "gett"), (2, "size"), (2, "has"), (1, "absent"), (1, "iter"), (2, "prefix"), (2, "off")])
            if k == "get":
                reads.append({"op": "get", "id": some_id(), "t": ""})
            elif k == "gett":
                i = some_id()
                t = repo["truth"][i][0] if rng.random() < 0.6 else rng.choice(["commit", "tree", "blob", "tag"])
                reads.append({"op": "get", "id": i, "t": t})
            elif k == "size":
                reads.append({"op": "size", "id": some_id()})
            elif k == "has":
                reads.append({"op": "has", "id": some_id()})
            elif k == "absent":
                reads.append({"op": rng.choice(["get", "size", "has"]), "id": absent(), "t": ""})
            elif k == "iter":
                reads.append({"op": "iter", "t": rng.choice(["", "", "commit", "tree", "blob", "tag"])})
            elif k == "prefix":
                i = some_id() if rng.random() < 0.85 else absent()
                reads.append({"op": "prefix", "p": i[:2 * rng.choice([0, 1, 1, 2, 3, 20])]})
            elif k == "off" and offs:
                pk, name, off = rng.choice(offs)
                reads.append({"op": "off", "pk": pk, "pack": name, "off": off, "fs": rng.random() < 0.5})
        opts = {"excl": rng.random() < 0.3, "memidx": rng.random() < 0.5, "lot": rng.choice([0, 0, 16, 200, 100000]),
                "cache": rng.choice(["default", "nil", "tiny", "tiny"]), "cachesize": rng.choice([1, 300, 2000]),
                "mmap": rng.random() < 0.3, "pool": rng.choice([-1, -1, 0, 1, 2])}
        return {"bucket": "%s" % repo["name"], "repo": repo["gitdir"], "ri": ri, "opts": opts, "reads": reads}

    def model_expr(self, c):
        return "c11_run repo%d [%s]" % (c["ri"], "; ".join(read_coq(r) for r in c["reads"]))

    def key(self, c):
        import json
        return json.dumps([c["ri"], c["opts"], c["reads"]], sort_keys=True)

    def nontrivial(self, c):
        return len(c["reads"]) >= 2

    def oracle(self, ctx, cases, impl, model):
        fails = {}
        for c in cases:
            r = impl.get(c["id"])
            if r is None or r.get("panic"):
                continue
            truth = self.repos[c["ri"]]["truth"]
            det = r.get("extra") or []
            if len(det) != len(c["reads"]):
                fails[c["id"]] = "reply has %d answers for %d reads" % (len(det), len(c["reads"]))
                continue
            why = self.check_reads(c, det, r["out"], truth)
            if why:
                fails[c["id"]] = why
        return fails

    def check_reads(self, c, det, out, truth):
        from props.C18 import parse_out
        outs = parse_out(out)
        for i, (rd, d, o) in enumerate(zip(c["reads"], det, outs)):
            op = rd["op"]
            if op == "get":
                want = truth.get(rd["id"])
                if want is not None and rd.get("t") and rd["t"] != want[0]:
                    want = None
                if want is None:
                    if o != ["err", "notfound"]:
                        return "read %d: EncodedObject(%s,%s) = %s, git has no such object" % (i, rd.get("t") or "any", rd["id"], o)
                elif not isinstance(d, dict) or (d["type"], d["size"], d["sha1"]) != want:
                    return "read %d: EncodedObject(%s,%s) = %s / %s, git cat-file says %s" % (i, rd.get("t") or "any", rd["id"], o, d, want)
            elif op == "size":
                want = truth.get(rd["id"])
                if want is None:
                    if o != ["err", "notfound"]:
                        return "read %d: EncodedObjectSize(%s) = %s, git has no such object" % (i, rd["id"], o)
                elif d != want[1]:
                    return "read %d: EncodedObjectSize(%s) = %s / %s, git says %d" % (i, rd["id"], o, d, want[1])
            elif op == "has":
                want = "true" if rd["id"] in truth else "false"
                if o != want:
                    return "read %d: HasEncodedObject(%s) = %s, git: %s" % (i, rd["id"], o, want)
            elif op == "iter":
                want = {k: v for k, v in truth.items() if not rd.get("t") or v[0] == rd["t"]}
                if d is None and o[0] == "ok":
                    d = []
                if not isinstance(d, list):
                    return "read %d: IterEncodedObjects(%s) = %s" % (i, rd.get("t") or "any", o)
                got = {}
                for x in d:
                    if x["id"] in got:
                        return "read %d: IterEncodedObjects(%s) lists %s twice" % (i, rd.get("t") or "any", x["id"])
                    got[x["id"]] = (x["type"], x["size"], x["sha1"])
                if got != want:
                    miss = sorted(set(want) - set(got))
                    extra = sorted(set(got) - set(want))
                    bad = sorted(k for k in got if k in want and got[k] != want[k])
                    local = self.local_ids(c["ri"])
                    tagc = " [only-alternates-missing]" if miss and not extra and not bad and not (set(miss) & local) else ""
                    return "read %d: IterEncodedObjects(%s): missing=%s unexpected=%s different=%s%s" % (i, rd.get("t") or "any", miss[:4], extra[:4], bad[:4], tagc)
            elif op == "prefix":
                want = sorted(k for k in truth if k.startswith(rd["p"]))
                if (d or []) != want:
                    return "read %d: HashesWithPrefix(%s) = %s, git: %s" % (i, rd["p"], d if not isinstance(d, list) else d[:5], want[:5])
            elif op == "off":
                st = self.repos[c["ri"]]["store"]
                oid = [e["id"] for e in st["packs"][rd["pk"]]["entries"] if e["off"] == rd["off"]]
                want = truth.get(oid[0]) if oid else None
                if want is None or not isinstance(d, dict) or (d["type"], d["size"], d["sha1"]) != want:
                    return "read %d: GetByOffset(pack %s, %d) = %s / %s, git says %s" % (i, rd["pack"], rd["off"], o, d, want)
        return None

    def local_ids(self, ri):
        st = self.repos[ri]["store"]
        return set(i for i, _, _ in st["loose"]) | set(e["id"] for p in st["packs"] for e in p["entries"])

    def extra(self, ctx, cases, impl, model):
        """the premise of the theorems on the repositories git built in this run (store_ok), and the model under the
        other extreme eviction policy (cache nothing) on a sample: must give the same answers"""
        exprs = ["OBool (Spec.ObjContent.store_ok repo%d && Proofs.C11.nodup_ids (map fst (s_loose (r_main repo%d))))" % (i, i)
                 for i in range(len(self.repos))]
        sample = [c for c in cases if "ri" in c][:40]
        exprs += [self.model_expr(c).replace("c11_run ", "c11_run_nocache ", 1) for c in sample]
        outs = ctx.coq_eval(self.coq_imports + "\nFrom GoGit Require Spec.ObjContent Proofs.C11.\nOpen Scope bool_scope.", exprs, chunk=100)
        ok = sum(1 for o in outs[:len(self.repos)] if o == "true")
        same = sum(1 for c, o in zip(sample, outs[len(self.repos):]) if o is not None and o == model.get(c["id"]))
        if ok != len(self.repos):
            ctx.notes.append("spec_mismatch: store_ok is not true of a git-built repository: %s" % outs[:len(self.repos)])
        if same != len(sample):
            ctx.notes.append("model differs between cache-everything and cache-nothing on %d cases" % (len(sample) - same))
        return {"repositories": len(self.repos), "store_ok_true": ok, "nocache_cases": len(sample), "nocache_same": same,
                "spec_mismatches": (len(self.repos) - ok) + (len(sample) - same)}

    def finding_class(self, case, reason, reply):
        if "[only-alternates-missing]" in reason:
            return "iter-omits-alternates"
        return None


SUITES = [Main()]
