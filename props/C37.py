"""C37 Object selection for transfer covers exactly the missing history (DESIGN.md §4.C37)."""
import hashlib
import os
import subprocess
import zlib
from vf.core import Suite, coq_list, coq_N, coq_Z
from vf.gen import pick_weighted

ID = "C37"
THEOREMS = ["C37_complete", "C37_only_wanted", "C37_nodup", "C37_terminates", "C37_queue_sorted"]
MODEL_FILES = ["RevList.v"]
MODELLED = ("plumbing/revlist/revlist.go Objects; plumbing/revlist/object_walk.go seedHaves, markTreeSeen, seedWants, "
            "collectAllTreeObjects, walk (painted time-ordered queue, early stop, deferred missing-parent check), propagate, "
            "allStale, walkFull, processCommitTrees, collectChangedTreeObjects, insertSorted (Model/RevList.v) over an "
            "abstract typed object store with arbitrary integer committer times; spec: reachability over commit parents "
            "(cut at shallow commits), commit trees, tree entries except gitlinks, tag targets (Spec/ObjReach.v). "
            "Not modelled: object decoding (object.DecodeCommit/DecodeTree/DecodeTag), the storer, sort.Search (replaced by a "
            "linear scan, equal on the always-sorted queue: C37_queue_sorted), ObjectsWithRef")
TRUSTED = [
    "C-impl: revlist.Objects on a memory store filled with the generated raw objects vs Model/RevList.objects on the abstract store (sorted id lists with duplicates, error class)",
    "C-git: the python transcription of Spec/ObjReach reachability vs `git rev-list --objects` (git 2.39.5) on every case git can walk; the direct oracle itself is git-derived: rev-list(wants) minus rev-list(haves)",
]
ASSUMPTIONS = [
    "object ids are content hashes: the store is acyclic (commit parents precede children: wf_store) and an id has one type",
    "the receiver holds everything reachable from the haves it advertised (closed_under_reach of the have side is the caller's contract)",
]
RULE = ("case = generated object store (blobs, nested trees with shared/reverted content and gitlinks, commit DAG with merges, "
        "criss-cross, octopus, skewed/equal committer times, tags on any object, optional missing objects, optional shallow set) "
        "+ want/have id lists; non-trivial = at least one have and one want resolve to stored objects and the DAG has >= 3 commits; "
        "distinct by content")

GIT = "/usr/bin/git"
NULL_ENV = dict(os.environ, GIT_CONFIG_NOSYSTEM="1", HOME="/nonexistent", GIT_CONFIG_GLOBAL="/dev/null")


# ------------------------------------------------------------------ object world

class World:
    """hash-consed object store under construction; abstract id = creation index (1-based)"""

    def __init__(self):
        self.objs = []        # dicts: id, t, data, hash, abs
        self.by_hash = {}

    def _add(self, t, data, abs_):
        h = hashlib.sha1(b"%s %d\0" % (t.encode(), len(data)) + data).hexdigest()
        if h in self.by_hash:
            return self.by_hash[h]
        o = {"id": len(self.objs) + 1, "t": t, "data": data, "hash": h, "abs": abs_, "present": True}
        self.objs.append(o)
        self.by_hash[h] = o["id"]
        return o["id"]

    def get(self, i):
        return self.objs[i - 1]

    def blob(self, content):
        return self._add("blob", content, ("blob",))

    def phantom(self, tag):
        """an id that names no stored object (a hash nobody has)"""
        h = hashlib.sha1(b"phantom " + tag).hexdigest()
        if h in self.by_hash:
            return self.by_hash[h]
        o = {"id": len(self.objs) + 1, "t": "none", "data": b"", "hash": h, "abs": ("none",), "present": False}
        self.objs.append(o)
        self.by_hash[h] = o["id"]
        return o["id"]

    def tree(self, entries):
        """entries: list of (name bytes, kind in dir/file/exe/link/sub, id) ; sorted the way git sorts"""
        def key(e):
            return e[0] + (b"/" if e[1] == "dir" else b"")
        entries = sorted(entries, key=key)
        modes = {"dir": b"40000", "file": b"100644", "exe": b"100755", "link": b"120000", "sub": b"160000"}
        data = b"".join(modes[k] + b" " + n + b"\0" + bytes.fromhex(self.get(i)["hash"]) for n, k, i in entries)
        return self._add("tree", data, ("tree", [(n, k, i) for n, k, i in entries]))

    def commit(self, tree, parents, time, msg):
        data = b"tree " + self.get(tree)["hash"].encode() + b"\n"
        for p in parents:
            data += b"parent " + self.get(p)["hash"].encode() + b"\n"
        data += b"author A <a@x> %d +0000\ncommitter C <c@x> %d +0000\n\n" % (time, time) + msg + b"\n"
        return self._add("commit", data, ("commit", tree, list(parents), time))

    def tag(self, target, name):
        to = self.get(target)
        ttype = to["t"] if to["t"] != "none" else "commit"
        data = (b"object " + to["hash"].encode() + b"\ntype " + ttype.encode() + b"\ntag " + name +
                b"\ntagger T <t@x> 1 +0000\n\nm\n")
        return self._add("tag", data, ("tag", target))


NAMES = [b"a", b"b", b"c", b"d", b"e"]
DIRS = [b"p", b"q"]


def name_code(n):
    return n[0]


def gen_flat(rng, w, pool):
    """a small tree: files from the content pool, maybe sub-directories, maybe a gitlink"""
    ents = []
    for n in NAMES:
        if rng.random() < 0.5:
            ents.append((n, rng.choice(["file", "file", "file", "exe", "link"]), w.blob(rng.choice(pool))))
    return ents


def mutate_tree(rng, w, tid, pool, trees_pool, depth=0, commits=()):
    """derive a new tree from tree id `tid` by a few edits"""
    ents = list(w.get(tid)["abs"][1]) if tid else []
    n_edits = rng.choice([0, 1, 1, 1, 2, 3])
    for _ in range(n_edits):
        op = pick_weighted(rng, [(4, "mod"), (2, "add"), (2, "del"), (2, "subdir"), (1, "copydir"), (1, "oldtree"),
                                 (1, "gitlink"), (1, "typechange")])
        names_in = [e[0] for e in ents]
        if op == "mod" and ents:
            i = rng.randrange(len(ents))
            n, k, x = ents[i]
            if k == "dir":
                ents[i] = (n, k, mutate_tree(rng, w, x, pool, trees_pool, depth + 1, commits))
            elif k != "sub":
                ents[i] = (n, k, w.blob(rng.choice(pool)))
        elif op == "add":
            n = rng.choice(NAMES)
            if n not in names_in:
                ents.append((n, rng.choice(["file", "exe", "link"]), w.blob(rng.choice(pool))))
        elif op == "del" and ents:
            ents.pop(rng.randrange(len(ents)))
        elif op == "subdir" and depth < 3:
            n = rng.choice(DIRS)
            old = [e for e in ents if e[0] == n]
            ents = [e for e in ents if e[0] != n]
            base = old[0][2] if old and old[0][1] == "dir" else None
            if base is None and rng.random() < 0.5:
                sub = w.tree(gen_flat(rng, w, pool))
            else:
                sub = mutate_tree(rng, w, base, pool, trees_pool, depth + 1, commits)
            ents.append((n, "dir", sub))
        elif op == "copydir":
            src = [e for e in ents if e[1] == "dir"]
            if src:
                n = rng.choice(DIRS)
                ents = [e for e in ents if e[0] != n]
                ents.append((n, "dir", rng.choice(src)[2]))
        elif op == "oldtree" and trees_pool and depth < 2:
            n = rng.choice(DIRS)
            ents = [e for e in ents if e[0] != n]
            ents.append((n, "dir", rng.choice(trees_pool)))
        elif op == "gitlink":
            n = b"s"
            ents = [e for e in ents if e[0] != n]
            tgt = rng.choice(list(commits)) if commits and rng.random() < 0.5 else w.phantom(b"sub%d" % rng.randrange(3))
            ents.append((n, "sub", tgt))
        elif op == "typechange" and ents:
            i = rng.randrange(len(ents))
            n, k, x = ents[i]
            if k == "dir":
                ents[i] = (n, "file", w.blob(rng.choice(pool)))
            elif k != "sub" and depth < 3:
                ents[i] = (n, "dir", w.tree(gen_flat(rng, w, pool)))
    t = w.tree(ents)
    return t


def gen_treeswap(rng):
    """a chain whose two directory slots rotate among a few trees that share a blob: the parent-diff walk emits
    a directory while leaving a shared child to the parent's walk, which meets the same directory again elsewhere"""
    w = World()
    shared = w.blob(b"shared\n")
    pool = []
    for i in range(rng.choice([2, 3, 3, 4])):
        ents = [(b"x", "file", shared), (b"y", "file", w.blob(b"y%d\n" % i))]
        if rng.random() < 0.3:
            ents.append((b"z", "dir", w.tree([(b"x", "file", shared), (b"k", "file", w.blob(b"k%d\n" % i))])))
        pool.append(w.tree(ents))
    commits, trees_pool = [], []
    n = rng.randrange(3, 6)
    times = list(range(n))
    if rng.random() < 0.4:
        rng.shuffle(times)
    for k in range(n):
        ents = [(b"p", "dir", rng.choice(pool)), (b"q", "dir", rng.choice(pool))]
        if rng.random() < 0.3:
            ents.append((b"a", "file", w.blob(b"a%d\n" % rng.randrange(2))))
        t = w.tree(ents)
        trees_pool.append(t)
        parents = [commits[-1]] if commits else []
        if len(commits) >= 2 and rng.random() < 0.2:
            parents.append(commits[-2])
        commits.append(w.commit(t, parents, 1000 + 10 * times[k], b"s%d" % k))
    # an unrelated commit to have, so that the painted walk runs
    other = w.commit(w.tree([(b"o", "file", w.blob(b"other\n"))]), [], 1000 + rng.randrange(-5, 60), b"other")
    return w, commits, other, trees_pool


def gen_world(rng, bucket):
    w = World()
    pool = [b"c%d\n" % i for i in range(rng.choice([2, 3, 5, 8]))]
    ncommits = {"tiny": rng.randrange(1, 4), "chain": rng.randrange(3, 9)}.get(bucket, rng.randrange(2, 9))
    commits, trees_pool = [], []
    skew = bucket in ("skew", "crisscross", "equaltimes") or rng.random() < 0.4
    base_t = 1000
    for k in range(ncommits):
        if not commits:
            parents = []
        else:
            r = rng.random()
            if bucket == "chain":
                parents = [commits[-1]]
            elif bucket == "octopus" and len(commits) >= 3 and r < 0.35:
                parents = rng.sample(commits, rng.choice([3, 3, 4]) if len(commits) >= 4 else 3)
            elif r < 0.12:
                parents = []                      # another root
            elif r < 0.45 and len(commits) >= 2:
                parents = rng.sample(commits, 2)  # merge (criss-cross arises from repeated merges of the same pair)
            elif r < 0.75:
                parents = [commits[-1]]
            else:
                parents = [rng.choice(commits)]
        if parents:
            r = rng.random()
            pt = w.get(parents[0])["abs"][1]
            if r < 0.15:
                tree = pt                                         # empty commit: same tree as first parent
            elif r < 0.25 and len(parents) > 1:
                tree = w.get(parents[-1])["abs"][1]               # merge taking the other side
            elif r < 0.35 and trees_pool:
                tree = rng.choice(trees_pool)                     # revert to an old root tree
            else:
                tree = mutate_tree(rng, w, pt, pool, trees_pool, 0, commits)
        else:
            tree = mutate_tree(rng, w, w.tree(gen_flat(rng, w, pool)), pool, trees_pool, 0, commits)
        trees_pool.append(tree)
        if bucket == "equaltimes":
            tm = base_t + rng.randrange(2)
        elif skew:
            tm = base_t + rng.randrange(-8, 9)                    # parents may be newer than children
        else:
            tm = base_t + 10 * k + rng.randrange(3)
        commits.append(w.commit(tree, parents, tm, b"m%d" % k))
    # tags: on commits, trees, blobs, tags
    tags = []
    for _ in range(rng.choice([0, 0, 1, 2, 3])):
        cand = commits + tags + ([rng.choice(trees_pool)] if trees_pool else []) + [w.blob(rng.choice(pool))]
        tags.append(w.tag(rng.choice(cand), b"t%d" % len(tags)))
    # an orphan commit reachable only through a tag
    if rng.random() < 0.25 and commits:
        oc = w.commit(mutate_tree(rng, w, w.get(commits[-1])["abs"][1], pool, trees_pool, 0, commits),
                      [rng.choice(commits)], base_t + rng.randrange(-5, 30), b"orphan")
        tags.append(w.tag(oc, b"to"))
        commits.append(oc)
    return w, commits, tags, trees_pool


def ancestors(w, roots, shallow=(), cut=True):
    seen, todo = set(), list(roots)
    while todo:
        c = todo.pop()
        if c in seen:
            continue
        o = w.get(c)
        if o["abs"][0] != "commit" or not o["present"]:
            continue
        seen.add(c)
        if cut and c in shallow:
            continue
        todo.extend(o["abs"][2])
    return seen


def reach(w, roots, shallow=(), cut=True):
    """Spec/ObjReach in python: ids reachable from roots (ids of absent objects are reachable, not traversed)"""
    seen, todo = set(), list(roots)
    while todo:
        x = todo.pop()
        if x in seen:
            continue
        seen.add(x)
        o = w.get(x)
        if not o["present"]:
            continue
        a = o["abs"]
        if a[0] == "commit":
            todo.append(a[1])
            if not (cut and x in shallow):
                todo.extend(a[2])
        elif a[0] == "tree":
            todo.extend(i for n, k, i in a[1] if k != "sub")
        elif a[0] == "tag":
            todo.append(a[1])
    return seen


def make_case(rng, bucket):
    if bucket == "treeswap":
        w, commits, other, _ = gen_treeswap(rng)
        wants = [commits[-1]] + ([rng.choice(commits)] if rng.random() < 0.2 else [])
        haves = [other] + ([commits[0]] if rng.random() < 0.15 else [])
        return finish_case(w, bucket, wants, haves, [])
    w, commits, tags, trees_pool = gen_world(rng, bucket)
    shallow = []
    # queries
    allobjs = [o["id"] for o in w.objs if o["present"]]
    want_pool = commits[-3:] + tags
    r = rng.random()
    if bucket == "nohaves":
        nh = 0
    else:
        nh = rng.choice([1, 1, 1, 2, 3])
    nw = rng.choice([1, 1, 2, 3])
    wants = [rng.choice(want_pool if rng.random() < 0.7 else commits) for _ in range(nw)]
    haves = []
    for _ in range(nh):
        r = rng.random()
        if r < 0.45:
            # an ancestor of a want (push / incremental fetch)
            anc = sorted(ancestors(w, [x for x in wants if w.get(x)["t"] == "commit"]) - set(wants))
            haves.append(rng.choice(anc) if anc else rng.choice(commits))
        elif r < 0.8:
            haves.append(rng.choice(commits))
        elif r < 0.9 and tags:
            haves.append(rng.choice(tags))
        else:
            haves.append(rng.choice(allobjs))
    if bucket == "objwants":
        wants.append(rng.choice(allobjs))
        if rng.random() < 0.5:
            wants.append(rng.choice(allobjs))
    if bucket == "missinghaves":
        haves.insert(rng.randrange(len(haves) + 1), w.phantom(b"have%d" % rng.randrange(4)))
    if bucket == "dups":
        wants = wants + [rng.choice(wants)]
        if haves:
            haves = haves + [rng.choice(haves)]
    if bucket == "shallow":
        cs = [c for c in commits if w.get(c)["abs"][2]]
        if cs:
            shallow = sorted(set(rng.sample(cs, min(len(cs), rng.choice([1, 1, 2])))))
            if rng.random() < 0.7:
                # the usual shallow store: history behind the boundary is absent
                keep = reach(w, commits[-1:] + tags + wants + haves, shallow)
                for o in w.objs:
                    if o["id"] not in keep and o["t"] == "commit":
                        o["present"] = False
    if bucket == "incomplete":
        # drop a stored object (a parent commit, a tree or a sub-tree): errors and tolerated gaps
        cand = [o for o in w.objs if o["present"] and o["t"] in ("commit", "tree", "blob") and o["id"] not in wants]
        for o in rng.sample(cand, min(len(cand), rng.choice([1, 1, 2]))):
            o["present"] = False
        if rng.random() < 0.4:
            haves = [h for h in haves if w.get(h)["t"] != "commit"]      # walkFull over an incomplete store
    return finish_case(w, bucket, wants, haves, shallow)


def finish_case(w, bucket, wants, haves, shallow):
    objs = [{"id": o["id"], "t": o["t"], "data": o["data"].hex()} for o in w.objs if o["present"]]
    absd = []
    for o in w.objs:
        if not o["present"]:
            continue
        a = o["abs"]
        if a[0] == "commit":
            absd.append([o["id"], "c", a[1], a[2], a[3]])
        elif a[0] == "tree":
            absd.append([o["id"], "t", [[name_code(n), {"dir": "d", "sub": "s"}.get(k, "f"), i] for n, k, i in a[1]]])
        elif a[0] == "blob":
            absd.append([o["id"], "b"])
        elif a[0] == "tag":
            absd.append([o["id"], "g", a[1]])
    return {"bucket": bucket, "objs": objs, "hashes": {str(o["id"]): o["hash"] for o in w.objs},
            "abs": absd, "wants": wants, "haves": haves, "shallow": list(shallow)}


# a world rebuilt from a case (for oracles): only what reach() needs
class CaseWorld:
    def __init__(self, c):
        self.o = {}
        for a in c["abs"]:
            if a[1] == "c":
                self.o[a[0]] = {"present": True, "t": "commit", "abs": ("commit", a[2], a[3], a[4])}
            elif a[1] == "t":
                self.o[a[0]] = {"present": True, "t": "tree", "abs": ("tree", [(n, "sub" if k == "s" else k, i) for n, k, i in a[2]])}
            elif a[1] == "b":
                self.o[a[0]] = {"present": True, "t": "blob", "abs": ("blob",)}
            else:
                self.o[a[0]] = {"present": True, "t": "tag", "abs": ("tag", a[2])}

    def get(self, i):
        return self.o.get(i) or {"present": False, "t": "none", "abs": ("none",)}


def coq_store(c):
    items = []
    for a in c["abs"]:
        if a[1] == "c":
            o = "Commit %s %s %s" % (coq_N(a[2]), coq_list([coq_N(p) for p in a[3]]), coq_Z(a[4]))
        elif a[1] == "t":
            o = "Tree %s" % coq_list(["mkE %s %s %s" % (coq_N(n), {"d": "KDir", "f": "KFile", "s": "KSub"}[k], coq_N(i)) for n, k, i in a[2]])
        elif a[1] == "b":
            o = "Blob"
        else:
            o = "Tag %s" % coq_N(a[2])
        items.append("(%s, %s)" % (coq_N(a[0]), o))
    return coq_list(items)


def parse_ok(out):
    """'( ok 1 2 3 )' -> [1,2,3] ; error -> None"""
    t = out.split()
    if len(t) >= 2 and t[0] == "(" and t[1] == "ok":
        return [int(x) for x in t[2:-1]]
    return None


class GitRepo:
    """one scratch repository holding the objects of all cases (loose objects written directly)"""

    def __init__(self, tmp):
        self.dir = os.path.join(tmp, "c37.git")
        subprocess.run([GIT, "init", "-q", "--bare", self.dir], check=True, env=NULL_ENV, stdout=subprocess.DEVNULL)
        self.have = set()

    def add(self, c):
        for o in c["objs"]:
            h = c["hashes"][str(o["id"])]
            if h in self.have:
                continue
            self.have.add(h)
            data = bytes.fromhex(o["data"])
            d = os.path.join(self.dir, "objects", h[:2])
            os.makedirs(d, exist_ok=True)
            with open(os.path.join(d, h[2:]), "wb") as f:
                f.write(zlib.compress(b"%s %d\0" % (o["t"].encode(), len(data)) + data, 1))

    def revlist(self, c, roots, shallow_file):
        """ids listed by `git rev-list --objects <roots>` or None when git refuses"""
        if not roots:
            return set()
        inv = {h: int(i) for i, h in c["hashes"].items()}
        args = [GIT, "--shallow-file", shallow_file, "-C", self.dir, "rev-list", "--objects", "--stdin"]
        inp = "".join(c["hashes"][str(r)] + "\n" for r in roots)
        p = subprocess.run(args, input=inp.encode(), stdout=subprocess.PIPE, stderr=subprocess.PIPE, env=NULL_ENV, timeout=60)
        if p.returncode != 0:
            return None
        out = set()
        for line in p.stdout.decode().splitlines():
            h = line.split(" ")[0]
            if h in inv:
                out.add(inv[h])
            else:
                return None
        return out


class Main(Suite):
    name = "main"
    go_cmd = "c37"
    coq_imports = "From GoGit Require Import Model.RevList."
    quick_n = 300
    thorough_n = 3000
    coq_chunk = 150

    BUCKETS = [(3, "random"), (2, "skew"), (2, "crisscross"), (1, "equaltimes"), (1, "octopus"), (1, "chain"),
               (1, "tiny"), (1, "nohaves"), (2, "objwants"), (1, "missinghaves"), (1, "dups"), (2, "shallow"),
               (2, "incomplete"), (2, "treeswap")]

    def gen(self, rng, n, tier):
        return [make_case(rng, pick_weighted(rng, self.BUCKETS)) for _ in range(n)]

    def model_expr(self, c):
        return "c37_run %s %s %s %s" % (coq_store(c), coq_list([coq_N(x) for x in c["shallow"]]),
                                        coq_list([coq_N(x) for x in c["wants"]]), coq_list([coq_N(x) for x in c["haves"]]))

    def show(self, c):
        d = {k: v for k, v in c.items() if k not in ("objs",)}
        return d

    def key(self, c):
        import json
        return json.dumps([c["abs"], c["wants"], c["haves"], c["shallow"]])

    def nontrivial(self, c):
        present = {a[0] for a in c["abs"]}
        ncommits = sum(1 for a in c["abs"] if a[1] == "c")
        return ncommits >= 3 and any(h in present for h in c["haves"]) and any(x in present for x in c["wants"])

    def _git_sets(self, ctx, c):
        """(reach from wants, reach from haves) as git rev-list --objects sees them, or None"""
        if not hasattr(ctx, "c37_repo"):
            ctx.c37_repo = GitRepo(ctx.tmp)
        repo = ctx.c37_repo
        repo.add(c)
        shf = os.path.join(ctx.tmp, "shallow-%s" % c["id"])
        with open(shf, "w") as f:
            f.write("".join(c["hashes"][str(s)] + "\n" for s in c["shallow"]))
        present = {a[0] for a in c["abs"]}
        gw = repo.revlist(c, c["wants"], shf)
        gh = repo.revlist(c, [h for h in c["haves"] if h in present], shf)
        os.remove(shf)
        return gw, gh

    def oracle(self, ctx, cases, impl, model):
        """the property on the implementation: every object git reaches from the wants and not from the haves is
        selected; nothing outside the wants' history is selected; nothing is selected twice; and the selection does
        not fail when the whole history of the wants is stored"""
        fails = {}
        stats = {"git_walked": 0, "spec_vs_git_mismatch": 0}
        for c in cases:
            r = impl.get(c["id"])
            if r is None:
                fails[c["id"]] = "no reply"
                continue
            if r.get("panic"):
                continue
            w = CaseWorld(c)
            sh = set(c["shallow"])
            need_w = reach(w, c["wants"], sh)
            have = reach(w, c["haves"], sh)
            full_w = reach(w, c["wants"], sh, cut=False)
            # the git binary walks every case in the thorough tier, a third of them in the quick tier (two
            # process spawns per case); the python transcription of the spec, checked against git on those, judges all
            gw, gh = self._git_sets(ctx, c) if (ctx.tier != "quick" or c["id"] % 3 == 0 or c["bucket"].startswith("corpus")) else (None, None)
            if gw is not None and gh is not None:
                stats["git_walked"] += 1
                if gw != need_w or not (need_w - have <= gw - gh) or not gh <= have:
                    # the python transcription of the spec and git disagree: machinery fault, not an alarm
                    stats["spec_vs_git_mismatch"] += 1
                    ctx.notes.append("spec_mismatch python-reach vs git rev-list on case %s" % c["id"])
                    need, hv = gw, gh
                else:
                    need, hv = gw, gh
            else:
                need, hv = need_w, have
            got = parse_ok(r["out"])
            if got is None:
                complete = all(w.get(x)["present"] for x in full_w if not self._is_gitlink_only(w, x))
                if complete:
                    fails[c["id"]] = "selection failed (%s) although every object reachable from the wants is stored" % r["out"]
                continue
            gs = set(got)
            miss = sorted((need - hv) - gs)
            extra = sorted(gs - full_w)
            if miss:
                fails[c["id"]] = "objects reachable from the wants and not from the haves are not selected: %s" % miss[:8]
            elif extra:
                fails[c["id"]] = "selected objects not reachable from the wants: %s" % extra[:8]
            elif len(gs) != len(got):
                fails[c["id"]] = "an object is selected twice"
        self._stats = stats
        return fails

    @staticmethod
    def _is_gitlink_only(w, x):
        return False

    def finding_class(self, c, reason, reply):
        if "not selected" in reason and c["shallow"]:
            w = CaseWorld(c)
            # a shallow commit whose parent is nevertheless stored
            for s in c["shallow"]:
                o = w.get(s)
                if o["present"] and o["t"] == "commit" and any(w.get(p)["t"] == "commit" for p in o["abs"][2]):
                    return "shallow-parent-present"
        return None

    def extra(self, ctx, cases, impl, model):
        return dict(getattr(self, "_stats", {}))


SUITES = [Main()]
