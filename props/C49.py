"""C49 Ignore rules match git check-ignore (DESIGN.md §4.C49)."""
import os
import shutil
import subprocess
from concurrent.futures import ThreadPoolExecutor
from vf.core import Suite, coq_hex, coq_list, coq_bool, coq_N
from vf.gen import pick_weighted

ID = "C49"
THEOREMS = []
MODEL_FILES = ["Gitignore.v"]
MODELLED = ""
TRUSTED = []
ASSUMPTIONS = []
RULE = ""

# ---------------------------------------------------------------- generators

COMMON = [b"a", b"b", b"c", b"ab", b"abc", b"foo", b"bar", b"foobar", b"a.c", b"b.c", b"x", b"ba", b"aa"]
ODD = [b"a b", b"a ", b"!a", b"#a", b"a*", b"*", b"[a]", b"a?", b"a\\b", b" a", b"A", b"\xc3\xa9", b"a\tb", b"-", b"a-c", b"]", b"a]", b"\\", b"**", b"a!"]


def rname(rng):
    return rng.choice(COMMON) if rng.random() < 0.8 else rng.choice(ODD)


def gen_tree(rng, tier):
    """-> dict path(tuple of bytes) -> isdir ; prefix-closed and consistent"""
    tree = {}
    for _ in range(rng.randrange(1, 5)):
        depth = pick_weighted(rng, [(3, 1), (4, 2), (3, 3), (1, 4)])
        path = tuple(rname(rng) for _ in range(depth))
        ok = True
        for k in range(1, depth):
            if tree.get(path[:k]) is False:
                ok = False
        if not ok or path in tree:
            continue
        for k in range(1, depth):
            tree[path[:k]] = True
        tree[path] = rng.random() < 0.3
    return tree


def glob_of(rng, name):
    """a glob segment related to `name`"""
    k = rng.randrange(16)
    n = len(name)
    if k <= 2 or n == 0:
        return name
    if k == 3:
        i = rng.randrange(n)
        return name[:i] + b"?" + name[i + 1:]
    if k == 4:
        i = rng.randrange(n + 1)
        return name[:i] + b"*"
    if k == 5:
        i = rng.randrange(n + 1)
        return b"*" + name[i:]
    if k == 6:
        i = rng.randrange(n)
        j = rng.randrange(i, n + 1)
        return name[:i] + b"*" + name[j:]
    if k == 7:
        i = rng.randrange(n)
        c = name[i:i + 1]
        cls = rng.choice([b"[" + c + b"]", b"[" + c + b"z]", b"[!" + c + b"]", b"[^" + c + b"]", b"[a-c]", b"[!a-c]", b"[a-]", b"[]" + c + b"]", b"[\\" + c + b"]",
                          b"[[:alpha:]]", b"[[:digit:]]", b"[[:alpha:][:digit:]]", b"[![:upper:]]", b"[[:foo:]]", b"[a-c", b"[", b"[z-a]", b"[a\\-c]", b"[[:alpha:]", b"[[:a]"])
        return name[:i] + cls + name[i + 1:]
    if k == 8:
        i = rng.randrange(n)
        return name[:i] + b"\\" + name[i:]
    if k == 9:
        return rng.choice([b"**", b"**", name + b"**", b"**" + name, name[:1] + b"**" + name[1:], b"***", b"*"])
    if k == 10:
        return rng.choice([b"*", b"?", b"??", b"*?", b"?*", b"*.c", b"*a*", b"a*b", b"*a*b*", b"[ab]*"])
    if k == 11:
        return name + rng.choice([b"\\", b"\\ ", b"?", b"*", b"x"])
    if k == 12:
        return rng.choice([b"\\" + name, b"\\!" + name, b"\\#" + name, b"!" + name, b"#" + name])
    return name


def gen_pattern(rng, tree, base):
    """one pattern line relevant to the tree below directory `base`"""
    paths = [p for p in tree if p[:len(base)] == base and len(p) > len(base)]
    if paths and rng.random() < 0.9:
        p = rng.choice(paths)[len(base):]
    else:
        p = tuple(rname(rng) for _ in range(rng.randrange(1, 4)))
    # pick a window of the path
    if rng.random() < 0.5:
        i = rng.randrange(len(p))
        j = rng.randrange(i, len(p)) + 1
    else:
        i, j = 0, len(p)
    segs = [glob_of(rng, s) for s in p[i:j]]
    # sprinkle ** segments
    r = rng.random()
    if r < 0.12:
        segs.insert(0, b"**")
    elif r < 0.22:
        segs.append(b"**")
    elif r < 0.32 and len(segs) >= 1:
        segs.insert(rng.randrange(len(segs) + 1), b"**")
    elif r < 0.36:
        k = rng.randrange(len(segs) + 1)
        segs.insert(k, b"**")
        segs.insert(k, b"**")
    elif r < 0.40 and len(segs) >= 2:
        segs.pop(rng.randrange(len(segs)))
        segs.insert(rng.randrange(len(segs) + 1), b"*")
    line = b"/".join(segs)
    r = rng.random()
    if r < 0.2:
        line = b"/" + line
    elif r < 0.23:
        line = b"//" + line
    r = rng.random()
    if r < 0.25:
        line += b"/"
    elif r < 0.27:
        line += b"//"
    if rng.random() < 0.2:
        line = b"!" + line
    r = rng.random()
    if r < 0.08:
        line += b" " * rng.randrange(1, 3)
    elif r < 0.10:
        line += b"\\ "
    elif r < 0.12:
        line += b"\\  "
    elif r < 0.13:
        line += b"\\\\ "
    elif r < 0.14:
        line += b"\t"
    return line


SPECIAL_LINES = [b"", b"#comment", b"# a", b"   ", b"\t", b" #a", b"!", b"/", b"//", b"!/", b"\\", b"*", b"**", b"/*", b"!*", b"*/", b"/**", b"**/", b"!**/", b"a/**/", b".", b"..", b"./a", b"a/."]


def gen_file(rng, tree, base, tier):
    lines = []
    for _ in range(pick_weighted(rng, [(4, 1), (4, 2), (2, 3), (1, 4), (1, 6)])):
        if rng.random() < 0.1:
            lines.append(rng.choice(SPECIAL_LINES))
        else:
            lines.append(gen_pattern(rng, tree, base))
    r = rng.random()
    sep = b"\r\n" if r < 0.06 else b"\n"
    content = sep.join(lines)
    if rng.random() < 0.9:
        content += sep
    return content


def gen_ignore_case(rng, tier):
    tree = gen_tree(rng, tier)
    while not tree:
        tree = gen_tree(rng, tier)
    dirs = [p for p, d in tree.items() if d]
    files = []
    if rng.random() < 0.9:
        files.append({"dir": [], "content": gen_file(rng, tree, (), tier).hex()})
    rng.shuffle(dirs)
    for d in sorted(dirs[:pick_weighted(rng, [(5, 0), (3, 1), (2, 2)])]):
        files.append({"dir": [x.hex() for x in d], "content": gen_file(rng, tree, d, tier).hex()})
    c = {"bucket": "ignore", "files": files}
    if rng.random() < 0.15:
        c["exclude"] = gen_file(rng, tree, (), tier).hex()
    c["queries"] = [{"path": [x.hex() for x in p], "isdir": d} for p, d in sorted(tree.items())]
    return c


# ---------------------------------------------------------------- git oracle

GITENV = dict(os.environ, GIT_CONFIG_NOSYSTEM="1", GIT_CONFIG_GLOBAL="/dev/null", LC_ALL="C",
              GIT_CEILING_DIRECTORIES="/", GIT_OPTIONAL_LOCKS="0")


def make_template(tmp):
    tpl = os.path.join(tmp, "tpl")
    env = dict(GITENV, HOME=tmp, XDG_CONFIG_HOME=os.path.join(tmp, "xdg"))
    subprocess.run(["/usr/bin/git", "-c", "init.defaultBranch=main", "init", "-q", tpl], check=True, env=env,
                   stdout=subprocess.DEVNULL, stderr=subprocess.DEVNULL)
    shutil.rmtree(os.path.join(tpl, ".git", "hooks"), ignore_errors=True)
    ex = os.path.join(tpl, ".git", "info", "exclude")
    if os.path.exists(ex):
        os.remove(ex)
    return tpl


def git_verdicts(tmp, tpl, case):
    """-> list (one per query) of (ignored: bool, detail) or None when git gave no answer for the path"""
    d = os.path.join(tmp, "g%s" % case["id"]).encode()
    shutil.copytree(os.path.join(tpl, ".git"), os.path.join(d.decode(), ".git"))
    try:
        if case.get("exclude") is not None:
            os.makedirs(os.path.join(d, b".git", b"info"), exist_ok=True)
            with open(os.path.join(d, b".git", b"info", b"exclude"), "wb") as f:
                f.write(bytes.fromhex(case["exclude"]))
        for q in case["queries"]:
            p = os.path.join(d, *[bytes.fromhex(x) for x in q["path"]])
            if q["isdir"]:
                os.makedirs(p, exist_ok=True)
            else:
                os.makedirs(os.path.dirname(p), exist_ok=True)
                if not os.path.lexists(p):
                    open(p, "wb").close()
        for f in case["files"]:
            dd = os.path.join(d, *[bytes.fromhex(x) for x in f["dir"]]) if f["dir"] else d
            os.makedirs(dd, exist_ok=True)
            with open(os.path.join(dd, b".gitignore"), "wb") as fh:
                fh.write(bytes.fromhex(f["content"]))
        inp = b"".join(b"/".join(bytes.fromhex(x) for x in q["path"]) + b"\0" for q in case["queries"])
        env = dict(GITENV, HOME=tmp, XDG_CONFIG_HOME=os.path.join(tmp, "xdg"))
        p = subprocess.run(["/usr/bin/git", "check-ignore", "--no-index", "-v", "-n", "-z", "--stdin"], input=inp, cwd=d,
                           stdout=subprocess.PIPE, stderr=subprocess.PIPE, env=env, timeout=60)
        fields = p.stdout.split(b"\0")[:-1]
        res = {}
        if len(fields) % 4 == 0:
            for i in range(0, len(fields), 4):
                src, ln, pat, path = fields[i:i + 4]
                res[path] = (bool(src) and not pat.startswith(b"!"), "%s:%s:%s" % (src.decode("latin1"), ln.decode(), pat.decode("latin1")))
        out = []
        for q in case["queries"]:
            out.append(res.get(b"/".join(bytes.fromhex(x) for x in q["path"])))
        return out
    finally:
        shutil.rmtree(d, ignore_errors=True)



# ---------------------------------------------------------------- classification of known divergences

def go_trim(line):
    """ParsePattern's view of a raw line: (negated, body without the dir-only slash)"""
    neg = line.startswith(b"!")
    p = line[1:] if neg else line
    if not p.endswith(b"\\ "):
        p = p.rstrip(b" ")
    if p.endswith(b"/"):
        p = p[:-1]
    return neg, p


def git_trim(line):
    """trim_trailing_spaces + parse_path_pattern: (negated, first patternlen bytes)"""
    out, i, n = bytearray(), 0, len(line)
    last_space = None
    while i < n:
        c = line[i]
        if c == 0x20:
            if last_space is None:
                last_space = i
        elif c == 0x5c:
            i += 1
            if i >= n:
                last_space = None
                break
            last_space = None
        else:
            last_space = None
        i += 1
    p = line if last_space is None else line[:last_space]
    neg = p.startswith(b"!")
    if neg:
        p = p[1:]
    if p.endswith(b"/"):
        p = p[:-1]
    return neg, p


def raw_lines(content):
    ls = content.split(b"\n")
    if ls and ls[-1] == b"":
        ls.pop()
    return [l[:-1] if l.endswith(b"\r") else l for l in ls]


def body_of(text):
    """decider text -> body (no leading '!', no dir-only slash)"""
    if text.startswith(b"!"):
        text = text[1:]
    if text.endswith(b"/"):
        text = text[:-1]
    return text


def unescaped_segments(body):
    """split on '/', telling whether some '/' was escaped or inside a bracket"""
    esc_slash = br_slash = False
    i, n = 0, len(body)
    while i < n:
        c = body[i:i + 1]
        if c == b"\\":
            if body[i + 1:i + 2] == b"/":
                esc_slash = True
            i += 2
            continue
        if c == b"[":
            j = body.find(b"]", i + 2)
            if j > 0 and b"/" in body[i:j]:
                br_slash = True
        i += 1
    return esc_slash, br_slash


import re
LITPFX = re.compile(rb"^/?[^*?\[\\]*[^*?\[\\/]\*\*+(/|$|\\/)")


def shape_classes(body):
    """divergence shapes of one pattern body, most specific first"""
    out = []
    segs = body.split(b"/")
    if any(s == b"" for s in segs[1:]) and len(segs) > 1:
        out.append("empty-segment")
    esc, br = unescaped_segments(body)
    if esc:
        out.append("escaped-slash")
    if br:
        out.append("slash-in-bracket")
    if any(len(s) >= 3 and set(s) == {0x2a} for s in segs) and len(segs) > 1:
        out.append("triple-star-segment")
    if b"/" in body and LITPFX.match(body):
        out.append("git-literal-prefix-doublestar")
    if len(segs) >= 2 and segs[-1] == b"**" and any(s not in (b"", b"**") for s in segs[:-1]):
        out.append("trailing-doublestar-dir")
    if any(s == b"**" for s in segs[:-1]):
        out.append("doublestar-greedy")
    return out


WS = b" \t\v\f\r"
BOM = b"\xef\xbb\xbf"


def physical_lines(content):
    """[(1-based line number, raw line without LF and without one CR before it)]"""
    ls = content.split(b"\n")
    if ls and ls[-1] == b"":
        ls.pop()
    return [(i + 1, l[:-1] if l.endswith(b"\r") else l) for i, l in enumerate(ls)]


def go_pattern_list(case, path):
    """the lines behind Scope.Patterns() on the way to `path`, in order: [(depth, lineno, raw, content)]
    (classification aid: mirrors readIgnoreFile's filter; exclude has depth -1, the root file appears twice)"""
    out = []

    def add(depth, content):
        for ln, l in physical_lines(content):
            if not l.startswith(b"#") and l.strip() != b"":
                out.append((depth, ln, l, content))
    if case.get("exclude") is not None:
        add(-1, bytes.fromhex(case["exclude"]))
    byd = {tuple(bytes.fromhex(x) for x in f["dir"]): bytes.fromhex(f["content"]) for f in case["files"]}
    if () in byd:
        add(0, byd[()])
    for k in range(len(path)):
        d = tuple(path[:k])
        if d in byd:
            add(k, byd[d])
    return out


def git_source(case, src, ln):
    """(depth, raw line, content) of the line `git check-ignore -v` names"""
    if src == ".git/info/exclude":
        depth, content = -1, bytes.fromhex(case.get("exclude") or "")
    else:
        d = tuple(src.encode("latin1").split(b"/")[:-1])
        depth, content = len(d), b""
        for f in case["files"]:
            if tuple(bytes.fromhex(x) for x in f["dir"]) == d:
                content = bytes.fromhex(f["content"])
    for n, l in physical_lines(content):
        if n == ln:
            return depth, l, content
    return depth, None, content


GO_SIDE = ("empty-segment", "trailing-doublestar-dir")
GIT_SIDE = ("empty-segment", "escaped-slash", "slash-in-bracket", "triple-star-segment", "git-literal-prefix-doublestar", "doublestar-greedy")


def classify(case, qi, impl_v, git_v, git_detail, why, model_v):
    """-> known-finding class of a query on which go-git and git disagree, or None.
    The culprit is the higher-priority of the two deciding lines: one side matches it, the other does not."""
    if model_v is not None and model_v != impl_v:
        return None                      # the implementation departs from the pristine model: new behaviour
    path = [bytes.fromhex(x) for x in case["queries"][qi]["path"]]
    g = o = None
    if git_detail and git_detail != "::":
        src, ln, _ = git_detail.split(":", 2)
        depth, raw, content = git_source(case, src, int(ln))
        if raw is None:
            return None
        g = {"key": (depth, int(ln)), "raw": raw, "content": content}
    if why:
        pl = go_pattern_list(case, path)
        if why["idx"] >= len(pl):
            return None
        depth, ln, raw, content = pl[why["idx"]]
        o = {"key": (depth, ln), "raw": raw, "content": content}
    if g and (not o or g["key"] > o["key"]):
        who, c = "git", g
    elif o and (not g or o["key"] > g["key"]):
        who, c = "go", o
    else:
        return None
    raw = c["raw"]
    if c["content"].startswith(BOM) and c["key"][1] == 1:
        return "utf8-bom"
    if raw.strip(WS) == b"" and raw.strip(b" ") != b"":
        return "whitespace-only-line" if who == "git" else None
    if go_trim(raw) != git_trim(raw):
        return "trailing-space-escape"
    neg, body = git_trim(raw)
    shapes = shape_classes(body)
    for cls in shapes:
        if cls in (GO_SIDE if who == "go" else GIT_SIDE):
            return cls
    if who == "go" and neg and why["anc"] and not impl_v and git_v:
        return "negated-ancestor"
    return None


def coq_case_args(c):
    ex = 'None' if c.get("exclude") is None else '(Some "%s")' % c["exclude"]
    fs = coq_list(['(%s, "%s")' % (coq_list(['"%s"' % x for x in f["dir"]]), f["content"]) for f in c["files"]])
    qs = coq_list(['(%s, %s)' % (coq_list(['"%s"' % x for x in q["path"]]), coq_bool(q["isdir"])) for q in c["queries"]])
    return "%s %s %s" % (ex, fs, qs)


def parse_bools(out):
    if out is None or not out.startswith("( ok"):
        return None
    return [t == "true" for t in out.split()[2:-1]]


class Ignore(Suite):
    name = "main"
    go_cmd = "c49"
    coq_imports = "From GoGit Require Import Model.Gitignore Spec.GitIgnore."
    quick_n = 350
    thorough_n = 5000
    coq_chunk = 120

    def gen(self, rng, n, tier):
        cases = []
        for _ in range(n):
            c = gen_ignore_case(rng, tier)
            c["op"] = "ignore"
            cases.append(c)
        return cases

    def model_expr(self, c):
        return "c49_ignore " + coq_case_args(c)

    def nontrivial(self, c):
        return any(bytes.fromhex(f["content"]).strip() for f in c["files"]) or bool(c.get("exclude"))

    def git_all(self, ctx, cases):
        if not hasattr(ctx, "c49_git"):
            ctx.c49_git = {}
        tpl = getattr(ctx, "c49_tpl", None)
        if tpl is None:
            tpl = ctx.c49_tpl = make_template(ctx.tmp)
        todo = [c for c in cases if self.key(c) not in ctx.c49_git]
        with ThreadPoolExecutor(max_workers=8) as ex:
            for c, r in zip(todo, ex.map(lambda c: git_verdicts(ctx.tmp, tpl, c), todo)):
                ctx.c49_git[self.key(c)] = r
        return {c["id"]: ctx.c49_git[self.key(c)] for c in cases}

    def oracle(self, ctx, cases, impl, model):
        """the property itself: go-git's verdict (Scope walk) == git check-ignore's, for every path of the case"""
        git = self.git_all(ctx, cases)
        fails = {}
        for c in cases:
            r = impl.get(c["id"])
            iv = parse_bools(r["out"]) if r else None
            if iv is None or len(iv) != len(c["queries"]):
                fails[c["id"]] = "class=?; no verdicts from the implementation: %s" % (r["out"][:100] if r else None)
                continue
            mv = parse_bools(model.get(c["id"]))
            why = r.get("extra") or [None] * len(iv)
            bad = []
            differs = {}
            for qi, (q, g) in enumerate(zip(c["queries"], git[c["id"]])):
                if g is not None and iv[qi] != g[0]:
                    differs[tuple(q["path"])] = qi
            for qi, (q, g) in enumerate(zip(c["queries"], git[c["id"]])):
                if g is None or iv[qi] == g[0]:
                    continue
                # a difference below a directory on which the two already differ is that directory's difference
                root = qi
                for k in range(1, len(q["path"])):
                    if tuple(q["path"][:k]) in differs:
                        root = differs[tuple(q["path"][:k])]
                        break
                gr = git[c["id"]][root]
                cls = classify(c, root, iv[root], gr[0], gr[1], why[root], mv[root] if mv and len(mv) == len(iv) else None)
                if mv and len(mv) == len(iv) and mv[qi] != iv[qi]:
                    cls = None
                bad.append((cls, qi, g))
            if bad:
                bad.sort(key=lambda b: (b[0] is not None, b[1]))
                cls, qi, g = bad[0]
                p = b"/".join(bytes.fromhex(x) for x in c["queries"][qi]["path"])
                fails[c["id"]] = "class=%s; path %r (dir=%s): go-git ignored=%s, git check-ignore ignored=%s (%s); %d path(s) of the case differ" % (
                    cls or "?", p, c["queries"][qi]["isdir"], iv[qi], g[0], g[1], len(bad))
        return fails

    def finding_class(self, case, reason, reply):
        if reason.startswith("class=") and not reason.startswith("class=?"):
            return reason[6:reason.index(";")]
        return None

    def extra(self, ctx, cases, impl, model):
        # C-git: S (Spec/GitIgnore.git_ignored) vs the git binary on the same cases
        git = self.git_all(ctx, cases)
        sub = cases[:400] if ctx.tier == "quick" else cases
        outs = ctx.coq_eval(self.coq_imports, ["c49_git_ignore " + coq_case_args(c) for c in sub], chunk=self.coq_chunk)
        bad = n = 0
        for c, o in zip(sub, outs):
            sv = parse_bools(o)
            for qi, g in enumerate(git[c["id"]]):
                if g is None:
                    continue
                n += 1
                if sv is None or qi >= len(sv) or sv[qi] != g[0]:
                    bad += 1
                    if bad <= 5:
                        ctx.notes.append("spec_mismatch S vs git on case %s query %d: S=%s git=%s" % (
                            {k: v for k, v in c.items() if k in ("files", "exclude")}, qi, sv[qi] if sv and qi < len(sv) else None, g))
        return {"spec_vs_git_queries": n, "spec_mismatches": bad}

    def show(self, c):
        d = dict(c)
        d["readable"] = {"files": [("/".join(bytes.fromhex(x).decode("latin1") for x in f["dir"]), bytes.fromhex(f["content"]).decode("latin1")) for f in c["files"]],
                         "exclude": bytes.fromhex(c["exclude"]).decode("latin1") if c.get("exclude") is not None else None,
                         "queries": [("/".join(bytes.fromhex(x).decode("latin1") for x in q["path"]), q["isdir"]) for q in c["queries"]]}
        return d


SUITES = [Ignore()]
